import Cuke.Lemmas.SchedSeq
import Cuke.Lemmas.SchedExit
/-!
  C03, the last ORDER clause over whole runs: **a feature is finished only after the last event of its scenarios
  (retries included).** For every log replayed without a disagreement of either acceptor layer: at the
  notification at which the bookkeeping of `FinishedRulesAndFeatures` counts the last scenario of a feature (and the
  model owes `Feature::Finished`), no attempt of any scenario of that feature is waiting or in flight — and none ever
  is afterwards, so no scenario event of the feature can follow.

  The proof is a counting invariant. For every delivered-and-inserted feature `f` that is not closed yet:

      finished scenarios counted for f  +  scenarios of f that are waiting or in flight
                                        +  final (not retried) notifications of f still to be drained
        =  number of scenarios of f

  It uses the lineage invariant `NInv` (one live entry per scenario; Lemmas/SchedSeq.lean) and the retry lineage
  `RInv` (every entry belongs to a scenario of a delivered feature; Lemmas/SchedRetry.lean).
-/
namespace Cuke.SchedFin
open Cuke List Cuke.SchedL Cuke.SchedInv Cuke.SchedRetry Cuke.SchedCons Cuke.SchedOrd Cuke.SchedSeq

set_option linter.unusedSimpArgs false
set_option linter.unusedVariables false

/-- ghost: features whose scenarios were inserted; features whose last scenario was counted -/
structure Gh where
  insd : List Nat := []
  closed : List Nat := []

/-- the counter as a function of the association list (features: keys `Nat`; rules: keys `Nat × Nat`) -/
def cntL {α : Type} [BEq α] (l : List (α × Nat)) (f : α) : Nat :=
  match l.find? (fun e => e.1 == f) with
  | some e => e.2
  | none => 0

/-- finished scenarios counted for a feature (`0` without an entry) -/
def cntOf (b : Brackets) (f : Nat) : Nat := cntL b.feats f

/-- final (not retried) notifications of a feature that wait to be drained -/
def pendFinal (s : SState) (f : Nat) : Nat := s.notifs.countP (fun nt => nt.2.1.feat == f && !nt.2.2.2)

/-- scenarios of a feature that are waiting or in flight -/
def liveCnt (s : SState) (ft : SFeat) : Nat := (scenIds ft).countP (fun x => decide (x ∈ Qs s ∨ x ∈ Rs s))

/-- the feature whose last scenario the next drained notification counts -/
def closes (c : SCfg) (s : SState) : Option Nat :=
  match s.notifs with
  | (_, k, _, r) :: _ =>
    if r then none else
    match s.br.feats.find? (fun e => e.1 == k.feat) with
    | some e => if c.nFeat k.feat == e.2 + 1 then some k.feat else none
    | none => none
  | [] => none

def gstepF (c : SCfg) (n : NState) (g : Gh) : Label → Gh
  | .ins _ _ _ => match n.base.pendingFeat with | some f => { g with insd := f :: g.insd } | none => g
  | .notif _ _ _ => match closes c n.base with | some f => { g with closed := f :: g.closed } | none => g
  | _ => g

/-! ## counting -/

/-- the predicate changes at exactly one element of a duplicate-free list -/
theorem countP_flip (l : List Nat) (hnd : l.Nodup) (p q : Nat → Bool) (x : Nat) (hx : x ∈ l) (hp : p x = true)
    (hq : q x = false) (hsame : ∀ y ∈ l, y ≠ x → q y = p y) : l.countP q + 1 = l.countP p := by
  induction l with
  | nil => cases hx
  | cons a l ih =>
    obtain ⟨ha, hnd'⟩ := nodup_cons.mp hnd
    rcases mem_cons.mp hx with rfl | hx'
    · have hrest : l.countP q = l.countP p := by
        apply countP_congr
        intro y hy
        have hne : y ≠ x := fun h => ha (h ▸ hy)
        rw [hsame y (mem_cons_of_mem _ hy) hne]
      simp [countP_cons, hp, hq, hrest]
    · have hne : a ≠ x := fun h => ha (h ▸ hx')
      have := ih hnd' hx' (fun y hy hyx => hsame y (mem_cons_of_mem _ hy) hyx)
      simp only [countP_cons, hsame a mem_cons_self hne]
      omega

theorem liveCnt_congr (s s' : SState) (ft : SFeat)
    (h : ∀ x ∈ scenIds ft, (x ∈ Qs s' ∨ x ∈ Rs s') ↔ (x ∈ Qs s ∨ x ∈ Rs s)) : liveCnt s' ft = liveCnt s ft := by
  unfold liveCnt
  apply countP_congr
  intro x hx
  simp only [decide_eq_true_eq]
  exact h x hx

theorem liveCnt_zero (s : SState) (ft : SFeat) : liveCnt s ft = 0 ↔ ∀ x ∈ scenIds ft, ¬ (x ∈ Qs s ∨ x ∈ Rs s) := by
  unfold liveCnt
  rw [countP_eq_zero]
  simp

theorem liveCnt_all (s : SState) (ft : SFeat) (h : ∀ x ∈ scenIds ft, x ∈ Qs s ∨ x ∈ Rs s) :
    liveCnt s ft = (scenIds ft).length := by
  unfold liveCnt
  rw [countP_eq_length]
  intro x hx
  simpa using h x hx

/-! ## the bracket counters -/

theorem cntOf_eq (b : Brackets) (f : Nat) : cntOf b f = cntL b.feats f := rfl

theorem cntL_append_zero {α : Type} [BEq α] [LawfulBEq α] (l : List (α × Nat)) (g f : α) :
    cntL (l ++ [(g, 0)]) f = cntL l f := by
  unfold cntL
  simp only [find?_append]
  cases hfd : l.find? (fun e => e.1 == f) with
  | some e => simp
  | none =>
    simp only [Option.none_or, find?_cons, find?_nil]
    cases hgf : (g == f) <;> simp

/-- the fold of `start_scenarios` (append `(g, 0)` for unseen keys) leaves every counter as it was -/
theorem cntL_startFold {α : Type} [BEq α] [LawfulBEq α] (f : α) (fs : List α) (acc : List (α × Nat) × List α) :
    cntL (fs.foldl (fun (acc : List (α × Nat) × List α) g =>
        if acc.1.any (fun e => e.1 == g) then acc else (acc.1 ++ [(g, 0)], acc.2 ++ [g])) acc).1 f = cntL acc.1 f := by
  induction fs generalizing acc with
  | nil => rfl
  | cons g rest ih =>
    simp only [foldl_cons]
    rw [ih]
    by_cases hany : acc.1.any (fun e => e.1 == g) = true
    · rw [if_pos hany]
    · rw [if_neg hany]
      exact cntL_append_zero _ _ _

theorem cntOf_start (b : Brackets) (batch : List Entry) (f : Nat) : cntOf (startScenarios b batch).1 f = cntOf b f := by
  unfold startScenarios
  simp only
  rw [cntOf_eq, cntOf_eq]
  exact cntL_startFold f _ _

/-- closing a group removes its entry; the counters of the others stay -/
theorem cntL_filter {α : Type} [BEq α] [LawfulBEq α] [DecidableEq α] (l : List (α × Nat)) (k f : α) :
    cntL (l.filter (fun e => !(e.1 == k))) f = if f = k then 0 else cntL l f := by
  induction l with
  | nil => simp [cntL]
  | cons a l ih =>
    by_cases hak : a.1 = k
    · have : (!(a.1 == k)) = false := by simp [hak]
      rw [filter_cons, this]
      simp only [Bool.false_eq_true, if_false]
      rw [ih]
      by_cases hfk : f = k
      · simp [hfk]
      · have : (a.1 == f) = false := by
          rw [hak]; simp; exact fun h => hfk h.symm
        simp [hfk, cntL, find?_cons, this]
    · have : (!(a.1 == k)) = true := by simp [hak]
      rw [filter_cons, this]
      simp only [if_true]
      by_cases haf : a.1 = f
      · have hfk : f ≠ k := fun h => hak (haf.trans h)
        simp [cntL, find?_cons, haf, hfk]
      · have h1 : (a.1 == f) = false := by simp [haf]
        have := ih
        simp only [cntL, find?_cons, h1] at this ⊢
        exact this

theorem find?_map_key {α : Type} [BEq α] (l : List (α × Nat)) (g : α × Nat → α × Nat) (hg : ∀ x, (g x).1 = x.1) (f : α) :
    (l.map g).find? (fun x => x.1 == f) = (l.find? (fun x => x.1 == f)).map g := by
  induction l with
  | nil => rfl
  | cons a l ih =>
    simp only [map_cons, find?_cons, hg]
    cases h : (a.1 == f) with
    | true => simp
    | false => simpa using ih

/-- counting one more finished scenario of `k`: its (first) entry goes from `c0` to `c0 + 1`, the others stay -/
theorem cntL_map {α : Type} [BEq α] [LawfulBEq α] [DecidableEq α] (l : List (α × Nat)) (k : α) (c0 : Nat) (f : α)
    (e : α × Nat) (hf : l.find? (fun x => x.1 == k) = some e) (hc : e.2 = c0) :
    cntL (l.map (fun x => if x.1 == k then (x.1, c0 + 1) else x)) f = if f = k then c0 + 1 else cntL l f := by
  have hg : ∀ x : α × Nat, ((fun x : α × Nat => if x.1 == k then (x.1, c0 + 1) else x) x).1 = x.1 := by
    intro x; simp only; split <;> rfl
  unfold cntL
  rw [find?_map_key _ _ hg]
  by_cases hfk : f = k
  · subst hfk
    have he := find?_some hf
    simp only [hf, Option.map_some, if_true]
    simp at he
    simp [he]
  · simp only [hfk, if_false]
    cases hfd : l.find? (fun x => x.1 == f) with
    | none => rfl
    | some y =>
      have hy := find?_some hfd
      have hyf : y.1 = f := by simpa using hy
      have : ¬ y.1 = k := by rw [hyf]; exact hfk
      simp [this]

/-! ## `scenarioFinished` on the feature counters -/

theorem scenFin_retried (b : Brackets) (k : ScenKey) (nR nF : Nat) : scenarioFinished b k true nR nF = some (b, []) := by
  simp [scenarioFinished]

theorem scenFin_feats (b : Brackets) (k : ScenKey) (nR nF : Nat) (b' : Brackets) (evs : List Ev)
    (h : scenarioFinished b k false nR nF = some (b', evs)) :
    ∃ e, b.feats.find? (fun x => x.1 == k.feat) = some e ∧
      ((nF == e.2 + 1) = true → b'.feats = b.feats.filter (fun x => !(x.1 == k.feat)) ∧ Ev.featFinished k.feat ∈ evs) ∧
      ((nF == e.2 + 1) = false → b'.feats = b.feats.map (fun x => if x.1 == k.feat then (x.1, e.2 + 1) else x)) := by
  unfold scenarioFinished at h
  simp only [Bool.false_eq_true, if_false] at h
  split at h
  · cases h
  · rename_i rules evR hrp
    cases hfd : b.feats.find? (fun e => e.1 == k.feat) with
    | none => simp [hfd] at h
    | some e =>
      obtain ⟨e1, e2⟩ := e
      simp only [hfd] at h
      refine ⟨(e1, e2), rfl, ?_, ?_⟩
      · intro hc
        simp only [hc, if_true, Option.some.injEq, Prod.mk.injEq] at h
        obtain ⟨hb, hev⟩ := h
        subst hb hev
        exact ⟨rfl, by simp⟩
      · intro hc
        simp only [hc, Bool.false_eq_true, if_false, Option.some.injEq, Prod.mk.injEq] at h
        obtain ⟨hb, _⟩ := h
        subst hb
        rfl

/-- the counters after a final notification of `k` was counted -/
theorem cntOf_scenFin (b : Brackets) (k : ScenKey) (nR nF : Nat) (b' : Brackets) (evs : List Ev)
    (h : scenarioFinished b k false nR nF = some (b', evs)) (f : Nat) :
    ∃ e, b.feats.find? (fun x => x.1 == k.feat) = some e ∧
      cntOf b' f = if f = k.feat then (if nF == e.2 + 1 then 0 else e.2 + 1) else cntOf b f := by
  obtain ⟨e, hfd, h1, h2⟩ := scenFin_feats b k nR nF b' evs h
  refine ⟨e, hfd, ?_⟩
  rw [cntOf_eq, cntOf_eq]
  cases hc : (nF == e.2 + 1) with
  | true =>
    rw [(h1 hc).1, cntL_filter]
    by_cases hfk : f = k.feat <;> simp [hfk]
  | false =>
    rw [h2 hc, cntL_map _ _ _ _ e hfd rfl]
    by_cases hfk : f = k.feat <;> simp [hfk]

/-! ## brackets and notifications, label by label -/

def SameBN (s s' : SState) : Prop := s'.br = s.br ∧ s'.notifs = s.notifs

syntax "bn_simp" : tactic
macro_rules
  | `(tactic| bn_simp) => `(tactic|
      (simp only [stepL]
       repeat' split
       all_goals (first
         | (refine ⟨?_, ?_⟩ <;> simp [SState.note, SState.inPhase, SState.checkExpectDone, SState.followQueues] <;>
              (repeat' split) <;> simp [SState.note])
         | skip)))

theorem bn_tx (c : SCfg) (s : SState) (e : Ev) : SameBN s (stepL c s (.tx e)) := by bn_simp
theorem bn_rx (c : SCfg) (s : SState) (e : Ev) : SameBN s (stepL c s (.rx e)) := by bn_simp
theorem bn_other (c : SCfg) (s : SState) : SameBN s (stepL c s .other) := by bn_simp
theorem bn_verdict (c : SCfg) (s : SState) (b : Bool) (x y z : Nat) : SameBN s (stepL c s (.verdict b x y z)) := by bn_simp
theorem bn_poll (c : SCfg) (s : SState) : SameBN s (stepL c s .poll) := by bn_simp
theorem bn_cbIn (c : SCfg) (s : SState) (a b t : Nat) : SameBN s (stepL c s (.cbIn a b t)) := by bn_simp
theorem bn_cbOut (c : SCfg) (s : SState) (a b t : Nat) : SameBN s (stepL c s (.cbOut a b t)) := by bn_simp
theorem bn_env (c : SCfg) (s : SState) : SameBN s (stepL c s .envMove) := by bn_simp
theorem bn_hookTake (c : SCfg) (s : SState) : SameBN s (stepL c s .hookTake) := by bn_simp
theorem bn_hookRestore (c : SCfg) (s : SState) : SameBN s (stepL c s .hookRestore) := by bn_simp
theorem bn_exit (c : SCfg) (s : SState) : SameBN s (stepL c s .exit) := by bn_simp
theorem bn_pPend (c : SCfg) (s : SState) : SameBN s (stepL c s .pPend) := by bn_simp
theorem bn_pWake (c : SCfg) (s : SState) : SameBN s (stepL c s .pWake) := by bn_simp
theorem bn_pOk (c : SCfg) (s : SState) (f : Nat) : SameBN s (stepL c s (.pOk f)) := by bn_simp
theorem bn_pErr (c : SCfg) (s : SState) : SameBN s (stepL c s .pErr) := by bn_simp
theorem bn_pEnd (c : SCfg) (s : SState) : SameBN s (stepL c s .pEnd) := by bn_simp
theorem bn_pFinish (c : SCfg) (s : SState) : SameBN s (stepL c s .pFinish) := by bn_simp
theorem bn_ins (c : SCfg) (s : SState) (t : Nat) (a b : List QE) : SameBN s (stepL c s (.ins t a b)) := by bn_simp
theorem bn_get1 (c : SCfg) (s : SState) (t : Nat) (ask : Option Nat) (ns nc : Nat) : SameBN s (stepL c s (.get1 t ask ns nc)) := by bn_simp
theorem bn_idleYield (c : SCfg) (s : SState) : SameBN s (stepL c s .idleYield) := by bn_simp
theorem bn_idleSlept (c : SCfg) (s : SState) : SameBN s (stepL c s .idleSlept) := by bn_simp
theorem bn_idleContinue (c : SCfg) (s : SState) : SameBN s (stepL c s .idleContinue) := by bn_simp
theorem bn_disp (c : SCfg) (s : SState) (n : Nat) (sl : Slots) : SameBN s (stepL c s (.disp n sl)) := by bn_simp
theorem bn_cons (c : SCfg) (s : SState) (b : Bool) : SameBN s (stepL c s (.cons b)) := by bn_simp
theorem bn_brk (c : SCfg) (s : SState) : SameBN s (stepL c s .brk) := by bn_simp
theorem bn_idle_false (c : SCfg) (s : SState) (sl : Bool) : SameBN s (stepL c s (.idle false sl)) := by
  rw [SchedBr.idle_eq]
  simp only [SchedBr.idleR, Bool.false_eq_true, if_false]
  refine ⟨(SchedBr.idle4_fields c s false sl).2.1, ?_⟩
  simp only [SchedBr.idle4, SState.inPhase]
  repeat' split
  all_goals simp [SState.note]

theorem get2_bn (c : SCfg) (s : SState) (t : Nat) (sl : Slots) (got : List Nat) (b : Bool) (r : Nat) :
    (stepL c s (.get2 t sl got b r)).notifs = s.notifs ∧
    ∀ f, cntOf (stepL c s (.get2 t sl got b r)).br f = cntOf s.br f := by
  rw [get2_eq]
  have hg : ∀ (x : SState), (x.checkExpectDone "at loop top").notifs = x.notifs ∧ (x.checkExpectDone "at loop top").br = x.br := by
    intro x; unfold SState.checkExpectDone; split <;> simp [SState.note]
  have ha : (get2a s).notifs = s.notifs ∧ (get2a s).br = s.br := by
    simp only [get2a, SState.inPhase]
    repeat' split
    all_goals simp [SState.note]
  have hc : (get2c s).notifs = s.notifs ∧ (get2c s).br = s.br := by
    simp only [get2c]; rw [(hg _).1, (hg _).2]; exact ha
  have hd : (get2d s sl).notifs = s.notifs ∧ (get2d s sl).br = s.br := by unfold get2d; split <;> simp [SState.note, hc]
  have he : (get2e s sl r).notifs = s.notifs ∧ (get2e s sl r).br = s.br := by unfold get2e; split <;> simp [SState.note, hd]
  unfold get2R
  simp only
  split
  · split
    · refine ⟨by simp [he], fun f => ?_⟩
      simp only [cntOf_start, he]
    · refine ⟨by simp [SState.note, he], fun f => ?_⟩
      simp only [SState.note, cntOf_start, he]
  · refine ⟨by simp [SState.note, he], fun f => ?_⟩
    simp only [SState.note, cntOf_start, he]

theorem endA_bn (c : SCfg) (s : SState) (id : Nat) (failed retried : Bool) (t : Nat) (e : Entry)
    (hf : s.running.find? (fun x => x.id == id) = some e) :
    (stepL c s (.endA id failed retried t)).br = s.br ∧
    (stepL c s (.endA id failed retried t)).notifs = s.notifs ++ [(id, e.key, failed, retried)] := by
  rw [endA_eq]
  unfold endR
  simp only [hf]
  split <;> simp [SState.note]

theorem endA_none_bn (c : SCfg) (s : SState) (id : Nat) (failed retried : Bool) (t : Nat)
    (hf : s.running.find? (fun x => x.id == id) = none) : SameBN s (stepL c s (.endA id failed retried t)) := by
  rw [endA_eq]
  unfold endR
  simp only [hf]
  exact ⟨rfl, rfl⟩

theorem pendFinal_append (s : SState) (l : List (Nat × ScenKey × Bool × Bool)) (f : Nat) :
    countP (fun nt : Nat × ScenKey × Bool × Bool => nt.2.1.feat == f && !nt.2.2.2) (s.notifs ++ l) =
      pendFinal s f + countP (fun nt : Nat × ScenKey × Bool × Bool => nt.2.1.feat == f && !nt.2.2.2) l := by
  simp [pendFinal, countP_append]

/-- what a notification drained without a disagreement does to the bookkeeping -/
theorem notif_clean (c : SCfg) (s : SState) (id : Nat) (failed retried : Bool)
    (hc : Clean0 (stepL c s (.notif id failed retried)) = true) :
    ∃ k rest br' evs, s.notifs = (id, k, failed, retried) :: rest ∧
      scenarioFinished s.br k retried (c.nRule k.feat (k.rule.getD 0)) (c.nFeat k.feat) = some (br', evs) ∧
      (stepL c s (.notif id failed retried)).notifs = rest ∧ (stepL c s (.notif id failed retried)).br = br' ∧
      ∀ e ∈ evs, Exp.one e ∈ (stepL c s (.notif id failed retried)).expect := by
  have hdis : (stepL c s (.notif id failed retried)).dis = [] := by simpa [Clean0] using hc
  rw [SchedBr.notif_eq] at hdis ⊢
  have h1 : (SchedBr.notif1 s).notifs = s.notifs ∧ (SchedBr.notif1 s).br = s.br := by
    simp only [SchedBr.notif1, SState.inPhase]
    split <;> simp [SState.note]
  unfold SchedBr.notifR at hdis ⊢
  cases hn : (SchedBr.notif1 s).notifs with
  | nil =>
    simp only [hn, SState.note] at hdis
    simp at hdis
  | cons hd rest =>
    obtain ⟨nid, k, f, r⟩ := hd
    simp only [hn] at hdis ⊢
    -- fields of the intermediate states
    have hA : (SchedBr.notifA (SchedBr.notif1 s) id failed retried nid f r).br = s.br := by
      unfold SchedBr.notifA; split <;> simp [SState.note, h1.2]
    have hC : (SchedBr.notifC (SchedBr.notif1 s) id failed retried nid f r rest).br = s.br ∧
        (SchedBr.notifC (SchedBr.notif1 s) id failed retried nid f r rest).notifs = rest := by
      simp only [SchedBr.notifC, SState.checkExpectDone]
      split <;> simp [SState.note, hA]
    -- no check failed
    have hdisD : (SchedBr.notifD c (SchedBr.notifC (SchedBr.notif1 s) id failed retried nid f r rest) k retried).dis = [] := hdis
    have hprefC : (SchedBr.notifC (SchedBr.notif1 s) id failed retried nid f r rest).dis = [] := by
      unfold SchedBr.notifD at hdisD
      split at hdisD
      · simp [SState.note] at hdisD
      · exact hdisD
    have hprefA : (SchedBr.notifA (SchedBr.notif1 s) id failed retried nid f r).dis = [] := by
      simp only [SchedBr.notifC, SState.checkExpectDone] at hprefC
      split at hprefC
      · exact hprefC
      · simp [SState.note] at hprefC
    have hmatch : (nid == id && f == failed && r == retried) = true := by
      unfold SchedBr.notifA at hprefA
      split at hprefA
      · rename_i hcond
        simp only [Bool.and_eq_true] at hcond
        simp only [Bool.and_eq_true]
        exact hcond.1
      · simp [SState.note] at hprefA
    simp only [Bool.and_eq_true, beq_iff_eq] at hmatch
    obtain ⟨⟨rfl, rfl⟩, rfl⟩ := hmatch
    rw [← h1.1, hn]
    unfold SchedBr.notifD at hdisD ⊢
    rw [hC.1] at hdisD ⊢
    cases hsf : scenarioFinished s.br k r (c.nRule k.feat (k.rule.getD 0)) (c.nFeat k.feat) with
    | none =>
      simp only [hsf, SState.note] at hdisD
      simp at hdisD
    | some p =>
      obtain ⟨br', evs⟩ := p
      refine ⟨k, rest, br', evs, rfl, hsf, ?_, ?_, ?_⟩
      · simp [hsf, hC.2]
      · simp [hsf]
      · intro e he
        simp only [hsf, mem_append, mem_map]
        exact Or.inr ⟨e, he, rfl⟩

/-! ## the invariant -/

structure FInv (c : SCfg) (n : NState) (g : Gh) : Prop where
  closedLive : ∀ f ft, c.feat? f = some ft → f ∈ g.closed → liveCnt n.base ft = 0
  closedPend : ∀ f, f ∈ g.closed → pendFinal n.base f = 0
  count : ∀ f ft, c.feat? f = some ft → f ∈ g.insd → f ∉ g.closed →
    cntOf n.base.br f + liveCnt n.base ft + pendFinal n.base f = (scenIds ft).length
  fresh : ∀ f, f ∉ g.insd → cntOf n.base.br f = 0 ∧ pendFinal n.base f = 0 ∧
    ∀ ft, c.feat? f = some ft → liveCnt n.base ft = 0
  insdDel : ∀ f ∈ g.insd, f ∈ n.delivered ∧ n.base.pendingFeat ≠ some f
  closedIns : ∀ f ∈ g.closed, f ∈ g.insd

theorem finv_init (c : SCfg) : FInv c {} {} := by
  refine ⟨?_, ?_, ?_, ?_, ?_, ?_⟩
  · intro f ft _ h; cases h
  · intro f h; cases h
  · intro f ft _ h; cases h
  · intro f _
    refine ⟨rfl, rfl, fun ft _ => ?_⟩
    rw [liveCnt_zero]
    intro x _
    simp [Qs, Rs, scens, Queues.empty]
  · intro f h; cases h
  · intro f h; cases h

/-- every entry belongs to a scenario of the (unique) feature with its feature id -/
theorem owner (c : SCfg) (hwf : WF c) (s : SState) (hr : RInv c s) (e : Entry) (he : e ∈ ents s) :
    ∃ ft, c.feat? e.key.feat = some ft ∧ e.key.scen ∈ scenIds ft := by
  obtain ⟨e0, ⟨ft0, hft0, hmem⟩, hk, _, _⟩ := hr e he
  simp only [newEntries, mem_map] at hmem
  obtain ⟨rs, hrs, rfl⟩ := hmem
  have hfeat : e.key.feat = ft0.id := by rw [hk]
  have hscen : e.key.scen ∈ scenIds ft0 := by
    rw [hk]; simp only [scenIds, mem_map]; exact ⟨rs, hrs, rfl⟩
  cases hfd : c.feat? e.key.feat with
  | none =>
    exfalso
    unfold SCfg.feat? at hfd
    rw [find?_eq_none] at hfd
    exact hfd ft0 hft0 (by simp [hfeat])
  | some ft1 =>
    obtain ⟨hm1, hid1⟩ := feat?_spec c _ ft1 hfd
    have : ft1 = ft0 := hwf.ids ft1 hm1 ft0 hft0 (hid1.trans hfeat)
    exact ⟨ft1, rfl, this ▸ hscen⟩

/-- nothing the invariant talks about changed -/
theorem finv_frame (c : SCfg) (n n' : NState) (g : Gh) (h : FInv c n g)
    (hl : ∀ ft, liveCnt n'.base ft = liveCnt n.base ft) (hcn : ∀ f, cntOf n'.base.br f = cntOf n.base.br f)
    (hp : ∀ f, pendFinal n'.base f = pendFinal n.base f)
    (hdel : ∀ f ∈ g.insd, f ∈ n'.delivered ∧ n'.base.pendingFeat ≠ some f) : FInv c n' g := by
  refine ⟨?_, ?_, ?_, ?_, hdel, h.closedIns⟩
  · intro f ft hft hc; rw [hl]; exact h.closedLive f ft hft hc
  · intro f hc; rw [hp]; exact h.closedPend f hc
  · intro f ft hft hi hc; rw [hcn, hl, hp]; exact h.count f ft hft hi hc
  · intro f hi
    obtain ⟨a, b, d⟩ := h.fresh f hi
    exact ⟨by rw [hcn]; exact a, by rw [hp]; exact b, fun ft hft => by rw [hl]; exact d ft hft⟩

theorem liveCnt_of_same (s s' : SState) (hq : ∀ x, x ∈ Qs s' ∨ x ∈ Rs s' ↔ x ∈ Qs s ∨ x ∈ Rs s) (ft : SFeat) :
    liveCnt s' ft = liveCnt s ft := liveCnt_congr s s' ft (fun x _ => hq x)

theorem pendFinal_of_same (s s' : SState) (h : s'.notifs = s.notifs) (f : Nat) : pendFinal s' f = pendFinal s f := by
  simp [pendFinal, h]

/-- a label that touches neither the entries, nor the brackets, nor the notifications -/
theorem finv_simple (c : SCfg) (n n' : NState) (g : Gh) (h : FInv c n g) (hc : SameCore n.base n'.base)
    (hbn : SameBN n.base n'.base) (hd : n'.delivered = n.delivered) : FInv c n' g := by
  obtain ⟨h1, h2, h3, h4⟩ := hc
  have hq : Qs n'.base = Qs n.base := by simp [Qs, h1, h2]
  have hR : Rs n'.base = Rs n.base := by simp [Rs, h3]
  refine finv_frame c n n' g h (fun ft => liveCnt_of_same _ _ (by rw [hq, hR]; exact fun _ => Iff.rfl) ft)
    (fun f => by rw [hbn.1]) (fun f => pendFinal_of_same _ _ hbn.2 f) ?_
  rw [hd, h4]; exact h.insdDel

/-! ## label by label -/

theorem pOk_finv (c : SCfg) (n : NState) (f : Nat) (g : Gh) (h : FInv c n g)
    (hc : NClean (stepN c n (.pOk f)) = true) : FInv c (stepN c n (.pOk f)) g := by
  obtain ⟨h1, h2, h3, h4⟩ := pOk_core c n.base f
  have hb := stepN_base c n (.pOk f)
  have hnew : f ∉ n.delivered ∧ (stepN c n (.pOk f)).delivered = f :: n.delivered := by
    simp only [NClean, Bool.and_eq_true] at hc
    have hn := hc.2
    unfold stepN at hn ⊢
    simp only at hn ⊢
    split at hn
    · simp [NState.note] at hn
    · rename_i hcont
      split
      · rename_i h'; exact absurd h' hcont
      · exact ⟨by simpa using hcont, rfl⟩
  obtain ⟨hf, hd⟩ := hnew
  have hq : Qs (stepN c n (.pOk f)).base = Qs n.base := by rw [hb]; simp [Qs, h1, h2]
  have hR : Rs (stepN c n (.pOk f)).base = Rs n.base := by rw [hb]; simp [Rs, h3]
  have hbn := bn_pOk c n.base f
  refine finv_frame c n _ g h (fun ft => liveCnt_of_same _ _ (by rw [hq, hR]; exact fun _ => Iff.rfl) ft)
    (fun f' => by rw [hb, hbn.1]) (fun f' => by rw [hb]; exact pendFinal_of_same _ _ hbn.2 f') ?_
  intro f' hf'
  obtain ⟨d1, d2⟩ := h.insdDel f' hf'
  rw [hd, hb]
  refine ⟨mem_cons_of_mem _ d1, ?_⟩
  rcases h4 with h4 | h4
  · rw [h4]; exact d2
  · rw [h4]
    intro heq
    have : f = f' := by simpa using heq
    exact hf (this ▸ d1)

theorem get2_finv (c : SCfg) (n : NState) (t : Nat) (sl : Slots) (got : List Nat) (b : Bool) (r : Nat) (g : Gh)
    (gc : List Nat × List Nat) (h : FInv c n g) (hci : CInv n.base gc)
    (hc : NClean (stepN c n (.get2 t sl got b r)) = true) : FInv c (stepN c n (.get2 t sl got b r)) g := by
  have hb := stepN_base c n (.get2 t sl got b r)
  simp only [NClean, Bool.and_eq_true] at hc
  have hc0 := hc.1
  rw [hb] at hc0
  obtain ⟨hQ, hR⟩ := get2_QR c n.base t sl got b r gc hci (clean0_all _ hc0).2.2
  obtain ⟨hn, hcn⟩ := get2_bn c n.base t sl got b r
  refine finv_frame c n _ g h (fun ft => liveCnt_of_same _ _ (by
      rw [hb, hR]; exact fun x => ⟨fun hx => hx.imp hQ.mem_iff.mp id, fun hx => hx.imp hQ.mem_iff.mpr id⟩) ft)
    (fun f' => by rw [hb]; exact hcn f') (fun f' => by rw [hb]; exact pendFinal_of_same _ _ hn f') ?_
  have hd : (stepN c n (.get2 t sl got b r)).delivered = n.delivered := rfl
  rw [hd, hb, get2_pending]
  exact h.insdDel

theorem disp_finv (c : SCfg) (n : NState) (k : Nat) (sl : Slots) (g : Gh) (h : FInv c n g) :
    FInv c (stepN c n (.disp k sl)) g := by
  have hb := stepN_base c n (.disp k sl)
  obtain ⟨hq, hR, hsplit⟩ := disp_QR c n.base k sl
  have hbn := bn_disp c n.base k sl
  have hd : (stepN c n (.disp k sl)).delivered = n.delivered := by
    unfold stepN; simp only; split <;> simp [NState.note]
  have hpf : (stepL c n.base (.disp k sl)).pendingFeat = n.base.pendingFeat := by
    rw [disp_eq]; simp [dispR, disp5_pending]
  refine finv_frame c n _ g h (fun ft => liveCnt_of_same _ _ (by
      rw [hb, hq, hR, hsplit]
      intro x
      simp only [mem_append]
      constructor
      · rintro (a | a | a)
        · exact Or.inl (Or.inl a)
        · exact Or.inr a
        · exact Or.inl (Or.inr a)
      · rintro ((a | a) | a)
        · exact Or.inl a
        · exact Or.inr (Or.inr a)
        · exact Or.inr (Or.inl a)) ft)
    (fun f' => by rw [hb, hbn.1]) (fun f' => by rw [hb]; exact pendFinal_of_same _ _ hbn.2 f') ?_
  rw [hd, hb, hpf]
  exact h.insdDel

theorem scenIds_feat? (c : SCfg) (hwf : WF c) (f f' : Nat) (ft ft' : SFeat) (h : c.feat? f = some ft) (h' : c.feat? f' = some ft')
    (x : Nat) (hx : x ∈ scenIds ft) (hx' : x ∈ scenIds ft') : f = f' := by
  obtain ⟨m, i⟩ := feat?_spec c f ft h
  obtain ⟨m', i'⟩ := feat?_spec c f' ft' h'
  rw [← i, ← i']
  exact hwf.disj ft m ft' m' x hx hx'

theorem ins_finv (c : SCfg) (hwf : WF c) (n : NState) (t : Nat) (ps pc : List QE) (g : Gh) (gc : List Nat × List Nat)
    (h : FInv c n g) (hn : NInv c n) (hci : CInv n.base gc) (hc : NClean (stepN c n (.ins t ps pc)) = true) :
    FInv c (stepN c n (.ins t ps pc)) (gstepF c n g (.ins t ps pc)) := by
  have hb := stepN_base c n (.ins t ps pc)
  simp only [NClean, Bool.and_eq_true] at hc
  have hc0 := hc.1
  rw [hb] at hc0
  obtain ⟨hQ, hR⟩ := ins_Qs c n.base t ps pc gc hci (clean0_all _ hc0).2.2
  have hpn := ins_pending c n.base t ps pc
  have hbn := bn_ins c n.base t ps pc
  have hd : (stepN c n (.ins t ps pc)).delivered = n.delivered := by
    unfold stepN; simp only; split
    · rfl
    · split <;> simp [NState.note]
  cases hpf : n.base.pendingFeat with
  | none =>
    have hg : gstepF c n g (.ins t ps pc) = g := by simp [gstepF, hpf]
    rw [hg]
    -- what is added (if anything) is a scenario that has an attempt in flight
    have hsub : ∀ x ∈ insAdds c n.base ps pc, x ∈ Rs n.base := by
      rcases insAdds_retry c n.base ps pc hpf with ⟨_, ha⟩ | ⟨e, _, hmem, ha⟩
      · rw [ha]; intro x hx; cases hx
      · rw [ha]
        intro x hx
        split at hx
        · rw [mem_singleton.mp hx]; simp only [Rs, scens, mem_map]; exact ⟨e, hmem, rfl⟩
        · cases hx
    refine finv_frame c n _ g h (fun ft => liveCnt_of_same _ _ (by
        rw [hb, hR]
        intro x
        constructor
        · rintro (a | a)
          · rcases mem_append.mp (hQ.mem_iff.mp a) with a | a
            · exact Or.inl a
            · exact Or.inr (hsub x a)
          · exact Or.inr a
        · rintro (a | a)
          · exact Or.inl (hQ.mem_iff.mpr (mem_append_left _ a))
          · exact Or.inr a) ft)
      (fun f' => by rw [hb, hbn.1]) (fun f' => by rw [hb]; exact pendFinal_of_same _ _ hbn.2 f') ?_
    rw [hd, hb, hpn]
    intro f' hf'
    exact ⟨(h.insdDel f' hf').1, by simp⟩
  | some f =>
    have hg : gstepF c n g (.ins t ps pc) = { g with insd := f :: g.insd } := by simp [gstepF, hpf]
    rw [hg]
    obtain ⟨_, hadds⟩ := insAdds_fresh c n.base ps pc f hpf
    rw [hadds] at hQ
    have hfni : f ∉ g.insd := fun hi => (h.insdDel f hi).2 hpf
    -- the live scenarios afterwards
    have hlive : ∀ x, (x ∈ Qs (stepN c n (.ins t ps pc)).base ∨ x ∈ Rs (stepN c n (.ins t ps pc)).base) ↔
        ((x ∈ Qs n.base ∨ x ∈ Rs n.base) ∨ x ∈ scenIds ((c.feat? f).getD ⟨f, [], [], []⟩)) := by
      intro x
      rw [hb, hR]
      constructor
      · rintro (a | a)
        · rcases mem_append.mp (hQ.mem_iff.mp a) with a | a
          · exact Or.inl (Or.inl a)
          · exact Or.inr a
        · exact Or.inl (Or.inr a)
      · rintro ((a | a) | a)
        · exact Or.inl (hQ.mem_iff.mpr (mem_append_left _ a))
        · exact Or.inr a
        · exact Or.inl (hQ.mem_iff.mpr (mem_append_right _ a))
    -- features other than `f` see no change
    have hother : ∀ f' ft', c.feat? f' = some ft' → f' ≠ f →
        liveCnt (stepN c n (.ins t ps pc)).base ft' = liveCnt n.base ft' := by
      intro f' ft' hft' hne
      apply liveCnt_congr
      intro x hx
      rw [hlive x]
      constructor
      · rintro (a | a)
        · exact a
        · exfalso
          cases hfd : c.feat? f with
          | none => rw [hfd] at a; simp [scenIds_default] at a
          | some ft0 =>
            rw [hfd] at a
            exact hne (scenIds_feat? c hwf f' f ft' ft0 hft' hfd x hx a)
      · exact Or.inl
    have hcnt : ∀ f', cntOf (stepN c n (.ins t ps pc)).base.br f' = cntOf n.base.br f' := fun f' => by rw [hb, hbn.1]
    have hpend : ∀ f', pendFinal (stepN c n (.ins t ps pc)).base f' = pendFinal n.base f' :=
      fun f' => by rw [hb]; exact pendFinal_of_same _ _ hbn.2 f'
    refine ⟨?_, ?_, ?_, ?_, ?_, ?_⟩
    · intro f' ft' hft' hcl
      have hne : f' ≠ f := fun he => hfni (he ▸ h.closedIns f' hcl)
      rw [hother f' ft' hft' hne]
      exact h.closedLive f' ft' hft' hcl
    · intro f' hcl; rw [hpend]; exact h.closedPend f' hcl
    · intro f' ft' hft' hi hcl
      rw [hcnt, hpend]
      by_cases hne : f' = f
      · subst hne
        obtain ⟨z1, z2, _⟩ := h.fresh f' hfni
        rw [z1, z2, liveCnt_all]
        · omega
        · intro x hx
          rw [hlive x]
          right
          rw [hft']
          exact hx
      · rw [hother f' ft' hft' hne]
        rcases mem_cons.mp hi with hi | hi
        · exact absurd hi hne
        · exact h.count f' ft' hft' hi hcl
    · intro f' hi
      have hne : f' ≠ f := fun he => hi (he ▸ mem_cons_self)
      have hi' : f' ∉ g.insd := fun hh => hi (mem_cons_of_mem _ hh)
      obtain ⟨z1, z2, z3⟩ := h.fresh f' hi'
      refine ⟨by rw [hcnt]; exact z1, by rw [hpend]; exact z2, fun ft' hft' => ?_⟩
      rw [hother f' ft' hft' hne]
      exact z3 ft' hft'
    · intro f' hi
      rw [hd, hb, hpn]
      refine ⟨?_, by simp⟩
      rcases mem_cons.mp hi with rfl | hi
      · exact hn.pend f' hpf
      · exact (h.insdDel f' hi).1
    · intro f' hcl; exact mem_cons_of_mem _ (h.closedIns f' hcl)

theorem endA_finv (c : SCfg) (hwf : WF c) (n : NState) (id : Nat) (failed retried : Bool) (t : Nat) (g : Gh)
    (h : FInv c n g) (hn : NInv c n) (hr : RInv c n.base)
    (hc : NClean (stepN c n (.endA id failed retried t)) = true) :
    FInv c (stepN c n (.endA id failed retried t)) g := by
  have hb := stepN_base c n (.endA id failed retried t)
  have hd : (stepN c n (.endA id failed retried t)).delivered = n.delivered := by
    unfold stepN; simp only; split
    · rfl
    · split <;> simp [NState.note]
  cases hf : n.base.running.find? (fun e => e.id == id) with
  | none =>
    exact finv_simple c n _ g h (hb ▸ endA_none_core c n.base id failed retried t hf)
      (hb ▸ endA_none_bn c n.base id failed retried t hf) hd
  | some e =>
    obtain ⟨hq, hperm⟩ := endA_QR c n.base id failed retried t e hf
    obtain ⟨hbr, hnt⟩ := endA_bn c n.base id failed retried t e hf
    have hpf : (stepL c n.base (.endA id failed retried t)).pendingFeat = n.base.pendingFeat := by
      rw [endA_eq]; unfold endR; simp only [hf]; split <;> simp [SState.note]
    have hmem : e ∈ n.base.running := mem_of_find?_eq_some hf
    have hxR : e.key.scen ∈ Rs n.base := by simp only [Rs, scens, mem_map]; exact ⟨e, hmem, rfl⟩
    have hnd : (e.key.scen :: Rs (stepL c n.base (.endA id failed retried t))).Nodup := hperm.nodup_iff.mp hn.rnd
    obtain ⟨hxnot, _⟩ := nodup_cons.mp hnd
    -- the second layer: `retried` says whether the successor is waiting
    have hret : retried = n.reins.contains e.key.scen := by
      simp only [NClean, Bool.and_eq_true] at hc
      have hcn := hc.2
      unfold stepN at hcn
      simp only [hf] at hcn
      split at hcn
      · rename_i hh; simpa using hh
      · simp [NState.note] at hcn
    obtain ⟨fte, hfte, hxfe⟩ := owner c hwf n.base hr e (by simp [ents, hmem])
    have hcnt : ∀ f', cntOf (stepN c n (.endA id failed retried t)).base.br f' = cntOf n.base.br f' := fun f' => by rw [hb, hbr]
    have hdel : ∀ f' ∈ g.insd, f' ∈ (stepN c n (.endA id failed retried t)).delivered ∧
        (stepN c n (.endA id failed retried t)).base.pendingFeat ≠ some f' := by
      rw [hd, hb, hpf]; exact h.insdDel
    have hpend : ∀ f', pendFinal (stepN c n (.endA id failed retried t)).base f' =
        pendFinal n.base f' + (if (e.key.feat == f' && !retried) = true then 1 else 0) := by
      intro f'
      rw [hb]
      unfold pendFinal
      rw [hnt, countP_append]
      simp [countP_cons]
    -- liveness of every scenario but `x` is unchanged
    have hlive_ne : ∀ y, y ≠ e.key.scen →
        ((y ∈ Qs (stepN c n (.endA id failed retried t)).base ∨ y ∈ Rs (stepN c n (.endA id failed retried t)).base) ↔
          (y ∈ Qs n.base ∨ y ∈ Rs n.base)) := by
      intro y hy
      rw [hb, hq]
      constructor
      · rintro (a | a)
        · exact Or.inl a
        · exact Or.inr (hperm.mem_iff.mpr (mem_cons_of_mem _ a))
      · rintro (a | a)
        · exact Or.inl a
        · rcases mem_cons.mp (hperm.mem_iff.mp a) with a | a
          · exact absurd a hy
          · exact Or.inr a
    by_cases hrt : retried = true
    · -- the successor is waiting: the scenario stays live, nothing is counted
      have hxre : e.key.scen ∈ n.reins := by rw [hrt] at hret; simpa using hret.symm
      have hxQ := hn.reinsQ _ hxre
      refine finv_frame c n _ g h (fun ft => liveCnt_of_same _ _ (by
          intro y
          by_cases hy : y = e.key.scen
          · subst hy
            rw [hb, hq]
            exact ⟨fun _ => Or.inl hxQ, fun _ => Or.inl hxQ⟩
          · exact hlive_ne y hy) ft) hcnt (fun f' => by rw [hpend, hrt]; simp) hdel
    · -- the last attempt of the scenario ended: it leaves, a final notification is queued
      have hrt : retried = false := by simpa using hrt
      have hxnre : e.key.scen ∉ n.reins := by rw [hrt] at hret; simpa using hret.symm
      have hxnQ : e.key.scen ∉ Qs n.base := fun hq' => hxnre (hn.both _ hq' hxR)
      have hxdead : ¬ (e.key.scen ∈ Qs (stepN c n (.endA id failed retried t)).base ∨
          e.key.scen ∈ Rs (stepN c n (.endA id failed retried t)).base) := by
        rw [hb, hq]
        rintro (a | a)
        · exact hxnQ a
        · exact hxnot a
      -- features that do not own `x`
      have hother : ∀ f' ft', c.feat? f' = some ft' → f' ≠ e.key.feat →
          liveCnt (stepN c n (.endA id failed retried t)).base ft' = liveCnt n.base ft' := by
        intro f' ft' hft' hne
        apply liveCnt_congr
        intro y hy
        apply hlive_ne
        intro hyx
        exact hne (scenIds_feat? c hwf f' e.key.feat ft' fte hft' hfte y hy (hyx ▸ hxfe))
      -- the owner loses exactly one live scenario
      have hown : liveCnt (stepN c n (.endA id failed retried t)).base fte + 1 = liveCnt n.base fte := by
        unfold liveCnt
        refine countP_flip _ (hwf.nodup fte (feat?_spec c _ fte hfte).1) _ _ e.key.scen hxfe ?_ ?_ ?_
        · simp only [decide_eq_true_eq]; exact Or.inr hxR
        · simp only [decide_eq_false_iff_not]; exact hxdead
        · intro y _ hy
          have := hlive_ne y hy
          simp only [this]
      have hlive_pos : 0 < liveCnt n.base fte := by omega
      have hpend_own : pendFinal (stepN c n (.endA id failed retried t)).base e.key.feat = pendFinal n.base e.key.feat + 1 := by
        rw [hpend, hrt]; simp
      have hpend_other : ∀ f', f' ≠ e.key.feat →
          pendFinal (stepN c n (.endA id failed retried t)).base f' = pendFinal n.base f' := by
        intro f' hne
        rw [hpend]
        have : (e.key.feat == f') = false := by simp; exact fun hh => hne hh.symm
        simp [this]
      refine ⟨?_, ?_, ?_, ?_, hdel, h.closedIns⟩
      · intro f' ft' hft' hcl
        by_cases hne : f' = e.key.feat
        · subst hne
          have : ft' = fte := by rw [hfte] at hft'; exact (Option.some.inj hft').symm
          subst this
          have := h.closedLive _ _ hfte hcl
          omega
        · rw [hother f' ft' hft' hne]; exact h.closedLive f' ft' hft' hcl
      · intro f' hcl
        by_cases hne : f' = e.key.feat
        · subst hne
          have := h.closedLive _ _ hfte hcl
          omega
        · rw [hpend_other f' hne]; exact h.closedPend f' hcl
      · intro f' ft' hft' hi hcl
        rw [hcnt]
        by_cases hne : f' = e.key.feat
        · subst hne
          have : ft' = fte := by rw [hfte] at hft'; exact (Option.some.inj hft').symm
          subst this
          have := h.count _ _ hfte hi hcl
          rw [hpend_own]
          omega
        · rw [hother f' ft' hft' hne, hpend_other f' hne]; exact h.count f' ft' hft' hi hcl
      · intro f' hi
        obtain ⟨z1, z2, z3⟩ := h.fresh f' hi
        have hne : f' ≠ e.key.feat := by
          intro he
          subst he
          have := z3 fte hfte
          omega
        exact ⟨by rw [hcnt]; exact z1, by rw [hpend_other f' hne]; exact z2,
          fun ft' hft' => by rw [hother f' ft' hft' hne]; exact z3 ft' hft'⟩

theorem scenIds_length (ft : SFeat) : (scenIds ft).length = ft.countScenarios := by
  simp [scenIds, featScenarios, SFeat.countScenarios, length_flatMap, Function.comp_def]

theorem nFeat_pos (c : SCfg) (f k : Nat) (h : (c.nFeat f == k + 1) = true) :
    ∃ ft, c.feat? f = some ft ∧ (scenIds ft).length = k + 1 := by
  unfold SCfg.nFeat at h
  cases hfd : c.feat? f with
  | none => simp [hfd] at h
  | some ft =>
    simp only [hfd, Option.map_some, Option.getD_some, beq_iff_eq] at h
    exact ⟨ft, rfl, by rw [scenIds_length]; exact h⟩

theorem notif_finv (c : SCfg) (hwf : WF c) (n : NState) (id : Nat) (failed retried : Bool) (g : Gh)
    (h : FInv c n g) (hc : NClean (stepN c n (.notif id failed retried)) = true) :
    FInv c (stepN c n (.notif id failed retried)) (gstepF c n g (.notif id failed retried)) := by
  have hb := stepN_base c n (.notif id failed retried)
  simp only [NClean, Bool.and_eq_true] at hc
  have hc0 := hc.1
  rw [hb] at hc0
  obtain ⟨k, rest, br', evs, hnt, hsf, hnt', hbr', _⟩ := notif_clean c n.base id failed retried hc0
  obtain ⟨c1, c2, c3, c4⟩ := core_notif c n.base id failed retried
  have hq : Qs (stepN c n (.notif id failed retried)).base = Qs n.base := by rw [hb]; simp [Qs, c1, c2]
  have hR : Rs (stepN c n (.notif id failed retried)).base = Rs n.base := by rw [hb]; simp [Rs, c3]
  have hlive : ∀ ft, liveCnt (stepN c n (.notif id failed retried)).base ft = liveCnt n.base ft :=
    fun ft => liveCnt_of_same _ _ (by rw [hq, hR]; exact fun _ => Iff.rfl) ft
  have hd : (stepN c n (.notif id failed retried)).delivered = n.delivered := rfl
  have hdel : ∀ f' ∈ g.insd, f' ∈ (stepN c n (.notif id failed retried)).delivered ∧
      (stepN c n (.notif id failed retried)).base.pendingFeat ≠ some f' := by
    rw [hd, hb, c4]; exact h.insdDel
  have hpend : ∀ f', pendFinal n.base f' =
      (if (k.feat == f' && !retried) = true then 1 else 0) + pendFinal (stepN c n (.notif id failed retried)).base f' := by
    intro f'
    rw [hb]
    unfold pendFinal
    rw [hnt, hnt', countP_cons]
    simp only
    omega
  by_cases hrt : retried = true
  · -- a retried attempt: nothing is counted
    subst hrt
    rw [scenFin_retried] at hsf
    simp only [Option.some.injEq, Prod.mk.injEq] at hsf
    have hg : gstepF c n g (.notif id failed true) = g := by simp [gstepF, closes, hnt]
    rw [hg]
    refine finv_frame c n _ g h hlive (fun f' => by rw [hb, hbr', ← hsf.1]) (fun f' => ?_) hdel
    have := hpend f'
    simp at this
    exact this.symm
  · have hrt : retried = false := by simpa using hrt
    subst hrt
    have hcnt := cntOf_scenFin n.base.br k _ _ br' evs hsf
    obtain ⟨e, hfd, _⟩ := hcnt k.feat
    have hcnt' : ∀ f', cntOf (stepN c n (.notif id failed false)).base.br f' =
        if f' = k.feat then (if c.nFeat k.feat == e.2 + 1 then 0 else e.2 + 1) else cntOf n.base.br f' := by
      intro f'
      obtain ⟨e', hfd', hh⟩ := hcnt f'
      rw [hfd] at hfd'
      have : e' = e := (Option.some.inj hfd').symm
      subst this
      rw [hb, hbr']
      exact hh
    have hcntk : cntOf n.base.br k.feat = e.2 := by simp [cntOf, cntL, hfd]
    have hpk : pendFinal n.base k.feat = 1 + pendFinal (stepN c n (.notif id failed false)).base k.feat := by
      have := hpend k.feat; simpa using this
    have hpo : ∀ f', f' ≠ k.feat → pendFinal (stepN c n (.notif id failed false)).base f' = pendFinal n.base f' := by
      intro f' hne
      have := hpend f'
      have hh : (k.feat == f') = false := by simp; exact fun x => hne x.symm
      simp [hh] at this
      exact this.symm
    -- the feature of the notification is inserted and not closed
    have hki : k.feat ∈ g.insd := by
      by_cases hni : k.feat ∈ g.insd
      · exact hni
      · have := (h.fresh k.feat hni).2.1
        omega
    have hkc : k.feat ∉ g.closed := by
      intro hcl
      have := h.closedPend k.feat hcl
      omega
    have hclose : closes c n.base = if c.nFeat k.feat == e.2 + 1 then some k.feat else none := by
      simp [closes, hnt, hfd]
    cases hcl : (c.nFeat k.feat == e.2 + 1) with
    | true =>
      -- the last scenario of the feature: it is closed
      have hg : gstepF c n g (.notif id failed false) = { g with closed := k.feat :: g.closed } := by
        simp [gstepF, hclose, hcl]
      rw [hg]
      obtain ⟨ft, hft, hlen⟩ := nFeat_pos c k.feat e.2 hcl
      have hcount := h.count k.feat ft hft hki hkc
      rw [hcntk, hlen, hpk] at hcount
      have hl0 : liveCnt n.base ft = 0 := by omega
      have hp0 : pendFinal (stepN c n (.notif id failed false)).base k.feat = 0 := by omega
      refine ⟨?_, ?_, ?_, ?_, hdel, ?_⟩
      · intro f' ft' hft' hc'
        rw [hlive]
        rcases mem_cons.mp hc' with rfl | hc'
        · have : ft' = ft := by rw [hft] at hft'; exact (Option.some.inj hft').symm
          rw [this]; exact hl0
        · exact h.closedLive f' ft' hft' hc'
      · intro f' hc'
        rcases mem_cons.mp hc' with rfl | hc'
        · exact hp0
        · have hne : f' ≠ k.feat := fun he => hkc (he ▸ hc')
          rw [hpo f' hne]; exact h.closedPend f' hc'
      · intro f' ft' hft' hi hc'
        have hne : f' ≠ k.feat := fun he => hc' (he ▸ mem_cons_self)
        have hc'' : f' ∉ g.closed := fun hh => hc' (mem_cons_of_mem _ hh)
        rw [hcnt', if_neg hne, hlive, hpo f' hne]
        exact h.count f' ft' hft' hi hc''
      · intro f' hi
        have hne : f' ≠ k.feat := fun he => hi (he ▸ hki)
        obtain ⟨z1, z2, z3⟩ := h.fresh f' hi
        exact ⟨by rw [hcnt', if_neg hne]; exact z1, by rw [hpo f' hne]; exact z2, fun ft' hft' => by rw [hlive]; exact z3 ft' hft'⟩
      · intro f' hc'
        rcases mem_cons.mp hc' with rfl | hc'
        · exact hki
        · exact h.closedIns f' hc'
    | false =>
      have hg : gstepF c n g (.notif id failed false) = g := by simp [gstepF, hclose, hcl]
      rw [hg]
      refine ⟨?_, ?_, ?_, ?_, hdel, h.closedIns⟩
      · intro f' ft' hft' hc'; rw [hlive]; exact h.closedLive f' ft' hft' hc'
      · intro f' hc'
        have hne : f' ≠ k.feat := fun he => hkc (he ▸ hc')
        rw [hpo f' hne]; exact h.closedPend f' hc'
      · intro f' ft' hft' hi hc'
        rw [hcnt', hlive]
        by_cases hne : f' = k.feat
        · subst hne
          have := h.count _ ft' hft' hi hc'
          rw [hcntk, hpk] at this
          simp only [if_true, hcl, Bool.false_eq_true, if_false]
          omega
        · rw [if_neg hne, hpo f' hne]; exact h.count f' ft' hft' hi hc'
      · intro f' hi
        have hne : f' ≠ k.feat := fun he => hi (he ▸ hki)
        obtain ⟨z1, z2, z3⟩ := h.fresh f' hi
        exact ⟨by rw [hcnt', if_neg hne]; exact z1, by rw [hpo f' hne]; exact z2, fun ft' hft' => by rw [hlive]; exact z3 ft' hft'⟩

/-! ## every label, every run -/

open Cuke.SchedExit in
theorem step_tinv (c : SCfg) (hwf : WF c) (n : NState) (g : Gh) (gc : List Nat × List Nat) (l : Label)
    (hn : NInv c n) (hr : RInv c n.base) (hci : CInv n.base gc) (h : Exiting n.base ∨ FInv c n g)
    (hc : NClean (stepN c n l) = true) :
    Exiting (stepN c n l).base ∨ FInv c (stepN c n l) (gstepF c n g l) := by
  have hb := stepN_base c n l
  have hc0 : Clean0 (stepL c n.base l) = true := by
    simp only [NClean, Bool.and_eq_true] at hc
    have := hc.1
    rwa [hb] at this
  rcases h with hex | hfi
  · left
    rw [hb]
    exact (exiting_step c n.base l hex hc0).1
  · have simple : SameCore n.base (stepL c n.base l) → SameBN n.base (stepL c n.base l) →
        (stepN c n l).delivered = n.delivered → gstepF c n g l = g →
        Exiting (stepN c n l).base ∨ FInv c (stepN c n l) (gstepF c n g l) := by
      intro h1 h2 h3 h4
      right
      rw [h4]
      exact finv_simple c n _ g hfi (hb ▸ h1) (hb ▸ h2) h3
    cases l with
    | pOk f => exact Or.inr (pOk_finv c n f g hfi hc)
    | ins t a b => exact Or.inr (ins_finv c hwf n t a b g gc hfi hn hci hc)
    | get2 t sl gt b r => exact Or.inr (get2_finv c n t sl gt b r g gc hfi hci hc)
    | disp k sl => exact Or.inr (disp_finv c n k sl g hfi)
    | endA id f r t => exact Or.inr (endA_finv c hwf n id f r t g hfi hn hr hc)
    | notif id f r => exact Or.inr (notif_finv c hwf n id f r g hfi hc)
    | idle f sl =>
      cases f with
      | true =>
        left
        rw [hb]
        exact idle_true_exiting c n.base sl (clean0_all _ hc0).1
      | false => exact simple (core_idle c _ false sl) (bn_idle_false c _ sl) rfl rfl
    | hookTake => exact simple (core_hookTake c _) (bn_hookTake c _) rfl rfl
    | hookRestore => exact simple (core_hookRestore c _) (bn_hookRestore c _) rfl rfl
    | exit => exact simple (core_exit c _) (bn_exit c _) rfl rfl
    | tx e => exact simple (core_tx c _ e) (bn_tx c _ e) rfl rfl
    | pErr => exact simple (core_pErr c _) (bn_pErr c _) rfl rfl
    | pEnd => exact simple (core_pEnd c _) (bn_pEnd c _) rfl rfl
    | pPend => exact simple (core_pPend c _) (bn_pPend c _) rfl rfl
    | pWake => exact simple (core_pWake c _) (bn_pWake c _) rfl rfl
    | pFinish => exact simple (core_pFinish c _) (bn_pFinish c _) rfl rfl
    | get1 t a ns nc => exact simple (core_get1 c _ t a ns nc) (bn_get1 c _ t a ns nc) rfl rfl
    | idleContinue => exact simple (core_idleContinue c _) (bn_idleContinue c _) rfl rfl
    | idleYield => exact simple (core_idleYield c _) (bn_idleYield c _) rfl rfl
    | idleSlept => exact simple (core_idleSlept c _) (bn_idleSlept c _) rfl rfl
    | cons b => exact simple (core_cons c _ b) (bn_cons c _ b) rfl rfl
    | brk => exact simple (core_brk c _) (bn_brk c _) rfl rfl
    | rx e => exact simple (core_rx c _ e) (bn_rx c _ e) rfl rfl
    | cbIn a b t => exact simple (core_cbIn c _ a b t) (bn_cbIn c _ a b t) rfl rfl
    | cbOut a b t => exact simple (core_cbOut c _ a b t) (bn_cbOut c _ a b t) rfl rfl
    | envMove => exact simple (core_env c _) (bn_env c _) rfl rfl
    | poll => exact simple (core_poll c _) (bn_poll c _) rfl rfl
    | verdict b x y z => exact simple (core_verdict c _ b x y z) (bn_verdict c _ b x y z) rfl rfl
    | other => exact simple (core_other c _) (bn_other c _) rfl rfl

/-- the ghost only grows -/
theorem closed_mono (c : SCfg) (n : NState) (g : Gh) (l : Label) (f : Nat) (h : f ∈ g.closed) :
    f ∈ (gstepF c n g l).closed := by
  unfold gstepF
  split
  · split <;> exact h
  · split
    · exact mem_cons_of_mem _ h
    · exact h
  · exact h

/-- run of both layers with all ghosts -/
def runF (c : SCfg) (ls : List Label) (x : NState × Gh × (List Nat × List Nat)) : NState × Gh × (List Nat × List Nat) :=
  ls.foldl (fun x l => (stepN c x.1 l, gstepF c x.1 x.2.1 l, gstep c x.1.base x.2.2 l)) x

theorem runF_state (c : SCfg) (ls : List Label) (x : NState × Gh × (List Nat × List Nat)) :
    (runF c ls x).1 = ls.foldl (stepN c) x.1 := by
  induction ls generalizing x with
  | nil => rfl
  | cons l rest ih => simp only [runF, foldl_cons] at ih ⊢; exact ih _

theorem runF_closed_mono (c : SCfg) (ls : List Label) (x : NState × Gh × (List Nat × List Nat)) (f : Nat)
    (h : f ∈ x.2.1.closed) : f ∈ (runF c ls x).2.1.closed := by
  induction ls generalizing x with
  | nil => exact h
  | cons l rest ih =>
    simp only [runF, foldl_cons]
    exact ih _ (closed_mono c x.1 x.2.1 l f h)

open Cuke.SchedExit in
/-- all invariants together, over a whole run -/
theorem runF_inv (c : SCfg) (hwf : WF c) (ls : List Label) (x : NState × Gh × (List Nat × List Nat))
    (hn : NInv c x.1) (hr : RInv c x.1.base) (hci : CInv x.1.base x.2.2) (h : Exiting x.1.base ∨ FInv c x.1 x.2.1)
    (hc : NClean (ls.foldl (stepN c) x.1) = true) :
    NInv c (runF c ls x).1 ∧ RInv c (runF c ls x).1.base ∧
      (Exiting (runF c ls x).1.base ∨ FInv c (runF c ls x).1 (runF c ls x).2.1) := by
  induction ls generalizing x with
  | nil => exact ⟨hn, hr, h⟩
  | cons l rest ih =>
    simp only [foldl_cons] at hc
    have h1 : NClean (stepN c x.1 l) = true := nclean_foldl_mono c rest _ hc
    have hc0 : Clean0 (stepL c x.1.base l) = true := by
      simp only [NClean, Bool.and_eq_true] at h1
      have := h1.1
      rwa [stepN_base] at this
    have hcl := (clean0_all _ hc0).2.2
    have hn' := step_ninv c hwf x.1 x.2.2 l hn hci h1
    have hr' : RInv c (stepN c x.1 l).base := by
      rw [stepN_base]; exact step_rinv c x.1.base l hr (clean_good _ hcl).2
    have hci' : CInv (stepN c x.1 l).base (gstep c x.1.base x.2.2 l) := by
      rw [stepN_base]; exact step_cinv c x.1.base x.2.2 l hci hcl
    have h' := step_tinv c hwf x.1 x.2.1 x.2.2 l hn hr hci h h1
    exact ih (stepN c x.1 l, gstepF c x.1 x.2.1 l, gstep c x.1.base x.2.2 l) hn' hr' hci' h' hc

/-- the notification that counts the last scenario of `f` makes the model owe `Feature::Finished` for `f` -/
theorem closes_owes_finished (c : SCfg) (s : SState) (id : Nat) (failed retried : Bool) (f : Nat)
    (hcl : closes c s = some f) (hc : Clean0 (stepL c s (.notif id failed retried)) = true) :
    Exp.one (Ev.featFinished f) ∈ (stepL c s (.notif id failed retried)).expect := by
  obtain ⟨k, rest, br', evs, hnt, hsf, _, _, hexp⟩ := notif_clean c s id failed retried hc
  unfold closes at hcl
  simp only [hnt] at hcl
  by_cases hr : retried = true
  · simp [hr] at hcl
  · have hr : retried = false := by simpa using hr
    subst hr
    simp only [Bool.false_eq_true, if_false] at hcl
    obtain ⟨e, hfd, h1, _⟩ := scenFin_feats s.br k _ _ br' evs hsf
    simp only [hfd] at hcl
    split at hcl
    · rename_i hcond
      have hf : k.feat = f := by simpa using hcl
      rw [← hf]
      exact hexp _ (h1 hcond).2
    · cases hcl

/-! ## from the initial state -/

def init0 : NState × Gh × (List Nat × List Nat) := ({}, {}, ([], []))

theorem rinv_init (c : SCfg) : RInv c ({} : SState) := by
  intro e he
  simp [ents, Queues.empty] at he

theorem accF_state (c : SCfg) (ls : List Label) : (runF c ls init0).1 = acceptN c ls := runF_state c ls init0

theorem runF_append (c : SCfg) (a b : List Label) (x : NState × Gh × (List Nat × List Nat)) :
    runF c (a ++ b) x = runF c b (runF c a x) := by simp [runF, foldl_append]

open Cuke.SchedExit in
theorem accF_inv (c : SCfg) (hwf : WF c) (ls : List Label) (hc : NClean (acceptN c ls) = true) :
    RInv c (acceptN c ls).base ∧
      (Exiting (acceptN c ls).base ∨ FInv c (acceptN c ls) (runF c ls init0).2.1) := by
  have := runF_inv c hwf ls init0 (ninv_init c) (rinv_init c) cinv_init (Or.inr (finv_init c)) hc
  rw [accF_state] at this
  exact ⟨this.2.1, this.2.2⟩

/-- the closing notification is recorded in the ghost, for the rest of the run -/
theorem closes_recorded (c : SCfg) (pre post : List Label) (id : Nat) (failed retried : Bool) (f : Nat)
    (hcl : closes c (acceptN c pre).base = some f) :
    f ∈ (runF c (pre ++ .notif id failed retried :: post) init0).2.1.closed := by
  rw [runF_append]
  have : runF c (.notif id failed retried :: post) (runF c pre init0) =
      runF c post (stepN c (runF c pre init0).1 (.notif id failed retried),
        gstepF c (runF c pre init0).1 (runF c pre init0).2.1 (.notif id failed retried),
        gstep c (runF c pre init0).1.base (runF c pre init0).2.2 (.notif id failed retried)) := rfl
  rw [this]
  apply runF_closed_mono
  simp only [gstepF, accF_state, hcl]
  exact mem_cons_self

end Cuke.SchedFin
