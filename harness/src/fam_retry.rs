//! C18: `retry.resolve` — real `Basic::run` (CLI/builder merge) + real
//! `RetryOptions::parse_from_tags`, observed through the `retry_options` hook.

use std::{cell::RefCell, collections::BTreeMap, rc::Rc, time::Duration};

use cucumber::{
    runner::{self, basic::RetryOptions},
    Runner as _,
};
use futures::{executor::block_on, stream, StreamExt as _};

use crate::{common::*, fam_filter::NoWorld};

const RETRY_TAGS: &[&str] = &[
    "retry", "retry(3)", "retry(0)", "retry(1)", "retry.after(3s)", "retry(5).after(15s)",
    "retry(2).after(20ms)", "retryable", "retry(x)", "retry(3", "retry.after(zz)",
    "retry(2).after(1s", "retry(+2)", "retry()", "retry(2)x.after(1s)", "retry.after",
    "retry(18446744073709551616)", "retry(18446744073709551615)", "retry.after()",
    "retry(1).after(1h 5min)", "retry(١)", "retry(2).after(3s).after(5s)", "retry( 2)",
    "retry(07)", "retry.after(0s)", "retry(2).after(1s)x", "retry(2))", "retry)(",
    "retry.after(1s)(2)", "retry(4).after",
];
const OTHER_TAGS: &[&str] = &["a", "b", "serial", "flaky", "re", "Retry", "@retry"];
const DURS: &[u64] = &[0, 1, 20_000_000, 3_000_000_000];

fn gen_taglist(rng: &mut Rng, p_retry: usize) -> Vec<String> {
    let n = rng.below(4);
    (0..n)
        .map(|_| {
            if rng.chance(p_retry, 10) {
                (*rng.pick(RETRY_TAGS)).to_owned()
            } else {
                (*rng.pick(OTHER_TAGS)).to_owned()
            }
        })
        .collect()
}

pub fn gen_resolve(rng: &mut Rng, idx: usize) -> Case {
    let _ = idx;
    let p = *rng.pick(&[0usize, 2, 5, 8]);
    let sc_tags = gen_taglist(rng, p);
    let in_rule = rng.chance(1, 2);
    let rule_tags = gen_taglist(rng, p);
    let feat_tags = gen_taglist(rng, p);
    let opt_n = |rng: &mut Rng| rng.chance(1, 2).then(|| rng.below(4));
    let opt_d = |rng: &mut Rng| rng.chance(1, 2).then(|| *rng.pick(DURS));
    let pool: &[&str] = &["a", "b", "serial", "flaky", "retry", "retry(3)"];
    let opt_f = |rng: &mut Rng| rng.chance(1, 3).then(|| gen_tagop(rng, 2, pool));
    let (c_retry, c_after, c_filter) = (opt_n(rng), opt_d(rng), opt_f(rng));
    let (b_retry, b_after, b_filter) = (opt_n(rng), opt_d(rng), opt_f(rng));

    // duration oracle: every substring between a '(' and a later ')' of every tag
    let mut table: BTreeMap<String, Option<u128>> = BTreeMap::new();
    for t in sc_tags.iter().chain(&rule_tags).chain(&feat_tags) {
        let idx: Vec<(usize, char)> = t.char_indices().collect();
        for (i, c) in &idx {
            if *c != '(' {
                continue;
            }
            for (j, d) in &idx {
                if *d == ')' && j > i {
                    let sub = &t[i + 1..*j];
                    table.insert(
                        sub.to_owned(),
                        humantime::parse_duration(sub).ok().map(|d| d.as_nanos()),
                    );
                }
            }
        }
    }

    let scen = ScenSpec { id: 1, name: "s-1".into(), tags: sc_tags.clone(), steps: vec![], line: 10 };
    let fs = FeatSpec {
        id: 0,
        name: "f-0".into(),
        path: None,
        tags: feat_tags.clone(),
        bg: vec![],
        scens: if in_rule { vec![] } else { vec![scen.clone()] },
        rules: if in_rule {
            vec![RuleSpec { id: 2, name: "r-2".into(), tags: rule_tags.clone(), bg: vec![], scens: vec![scen] }]
        } else {
            vec![]
        },
    };

    let seen: Rc<RefCell<Vec<Option<RetryOptions>>>> = Rc::default();
    let seen2 = Rc::clone(&seen);
    let r = runner::Basic::<NoWorld>::default()
        .retries(b_retry)
        .retry_after(b_after.map(Duration::from_nanos))
        .retry_filter(b_filter.clone())
        .retry_options(move |f, r, s, cli| {
            let o = RetryOptions::parse_from_tags(f, r, s, cli);
            seen2.borrow_mut().push(o);
            o
        });
    let cli = runner::basic::Cli {
        concurrency: None,
        fail_fast: false,
        retry: c_retry,
        retry_after: c_after.map(Duration::from_nanos),
        retry_tag_filter: c_filter.clone(),
    };
    let evs = block_on(r.run(stream::iter(vec![Ok(mk_feat(&fs))]), cli).collect::<Vec<_>>());
    drop(evs);
    let seen = seen.borrow();
    assert_eq!(seen.len(), 1);
    let imp = match seen[0] {
        None => "-".to_owned(),
        Some(o) => format!(
            "{} {} {}",
            o.retries.current,
            o.retries.left,
            o.after.map_or_else(|| "-".to_owned(), |d| d.as_nanos().to_string())
        ),
    };
    let tl = |v: &Vec<String>| show_list(v, |t| hex(t));
    let on = |x: &Option<usize>| show_opt(x.as_ref(), |n| n.to_string());
    let od = |x: &Option<u64>| show_opt(x.as_ref(), |n| n.to_string());
    let of = |x: &Option<gherkin::tagexpr::TagOperation>| show_opt(x.as_ref(), show_tagop);
    let tbl: Vec<(String, Option<u128>)> = table.into_iter().collect();
    let req = format!(
        "retry.resolve {} {} {} {} {} {} {} {} {} {}",
        tl(&sc_tags),
        if in_rule { tl(&rule_tags) } else { "-".to_owned() },
        tl(&feat_tags),
        on(&c_retry), od(&c_after), of(&c_filter),
        on(&b_retry), od(&b_after), of(&b_filter),
        show_list(&tbl, |(k, v)| format!("{} {}", hex(k), show_opt(v.as_ref(), |n| n.to_string()))),
    );
    let has_retry_tag = sc_tags.iter().chain(&feat_tags).chain(if in_rule { rule_tags.iter() } else { [].iter() })
        .any(|t| t.starts_with("retry"));
    Case {
        req,
        imp: imp.clone(),
        class: format!(
            "tag{}rule{}cli{}{}{}b{}{}{}/{}",
            b(has_retry_tag), b(in_rule),
            b(c_retry.is_some()), b(c_after.is_some()), b(c_filter.is_some()),
            b(b_retry.is_some()), b(b_after.is_some()), b(b_filter.is_some()),
            if imp == "-" { "none" } else { "some" },
        ),
        nontrivial: has_retry_tag || c_retry.is_some() || c_after.is_some() || c_filter.is_some()
            || b_retry.is_some() || b_after.is_some() || b_filter.is_some(),
    }
}
