import Cuke.Model.Writers
import Cuke.Model.Exit
import Cuke.Props.C12
import Cuke.Props.C11
import Cuke.Props.C13
/-!
# C01 — Run verdict: failed iff a parse error or a final scenario failure occurred
The verdict is `execFailed` of the statistics pipeline (`Stats::execution_has_failed`), which
`run_and_exit` turns into a panic / non-zero exit.
-/
namespace Cuke.C01
open Cuke List Cuke.C12

/-! ## Exact characterisation of the code's verdict (unconditional) -/

theorem defaultFailed_iff (s : StatsVec) :
    s.defaultFailed = true ↔ s.failed > 0 ∨ s.parsingErrors > 0 ∨ s.hookErrors > 0 := by
  simp [StatsVec.defaultFailed, or_assoc]

/-- `Summarize`'s verdict after a stream whose first run-Finished is shown: failed iff the stream
    (up to run-Finished) holds a parser error, a Failed step that is not retried-classified
    (no retry left, no retries at all, or not-found), or ANY Failed hook. -/
theorem summVerdict_iff (cat) (w : W) (pre post : List Ev) (h : ∀ e ∈ pre, e.isFinished = false) :
    execFailed (.summ w) (runW cat (.summ w) (pre ++ Ev.finished :: post)).1 = true ↔
      ∃ e ∈ pre, e.isParseErr = true ∨ isFinalStepFailure e = true ∨ e.isHookFailed = true := by
  have hg := stats_getters cat w pre post h
  simp only at hg
  obtain ⟨_, _, hf, _, hp, hh⟩ := hg
  simp only [execFailed]
  rw [defaultFailed_iff, hf, hp, hh]
  simp only [gt_iff_lt, countP_pos_iff]
  constructor
  · rintro (⟨e, he, h1⟩ | ⟨e, he, h1⟩ | ⟨e, he, h1⟩)
    · exact ⟨e, he, Or.inr (Or.inl h1)⟩
    · exact ⟨e, he, Or.inl h1⟩
    · exact ⟨e, he, Or.inr (Or.inr h1)⟩
  · rintro ⟨e, he, h1 | h1 | h1⟩
    · exact Or.inr (Or.inl ⟨e, he, h1⟩)
    · exact Or.inl ⟨e, he, h1⟩
    · exact Or.inr (Or.inr ⟨e, he, h1⟩)

/-- The verdict does not depend on how concurrently running scenarios interleave, nor on the
    order in which `Normalize` forwards them: any permutation of the events gives the same verdict. -/
theorem verdict_perm_invariant (cat) (w : W) (pre pre' post post' : List Ev)
    (h : ∀ e ∈ pre, e.isFinished = false) (hp : pre ~ pre') :
    execFailed (.summ w) (runW cat (.summ w) (pre ++ Ev.finished :: post)).1 =
      execFailed (.summ w) (runW cat (.summ w) (pre' ++ Ev.finished :: post')).1 := by
  have h' : ∀ e ∈ pre', e.isFinished = false := fun e he => h e (hp.symm.subset he)
  have a := summVerdict_iff cat w pre post h
  have b := summVerdict_iff cat w pre' post' h'
  have : (∃ e ∈ pre, e.isParseErr = true ∨ isFinalStepFailure e = true ∨ e.isHookFailed = true) ↔
      (∃ e ∈ pre', e.isParseErr = true ∨ isFinalStepFailure e = true ∨ e.isHookFailed = true) :=
    ⟨fun ⟨e, he, x⟩ => ⟨e, hp.subset he, x⟩, fun ⟨e, he, x⟩ => ⟨e, hp.symm.subset he, x⟩⟩
  rw [this] at a
  rw [Bool.eq_iff_iff, a, b]

/-! ## Normalize keeps the verdict -/

/-- **A statistics writer behind `Normalize` reports the same verdict** as it would without it
    (`.summarized().normalized()`): for every contract-abiding concurrent stream, whatever order
    `Normalize` releases the events in. (`Summarize<Normalize<_>>`, the default pipeline, is an instance of
    `summVerdict_iff` with `w := .norm _`.) Uses C11 (`norm_T1_finished_last`) and C13 (`norm_prefilter`). -/
theorem normalize_keeps_verdict (cat) (w : W) (pre : List Ev) (h : ∀ e ∈ pre, e.isFinished = false)
    (hs : C11.SafeRun Norm.init (pre ++ [Ev.finished]) = true) :
    execFailed (.norm (.summ w)) (runW cat (.norm (.summ w)) (pre ++ [Ev.finished])).1 =
      execFailed (.summ w) (runW cat (.summ w) (pre ++ [Ev.finished])).1 := by
  have hnf : ∀ e ∈ pre, e ≠ Ev.finished := by
    intro e he heq
    have := h e he
    rw [heq] at this
    cases this
  obtain ⟨n, outs, pre', hrun, hout, hp⟩ := C11.norm_T1_finished_last pre hnf hs
  rw [C13.norm_prefilter cat (.summ w) _ n outs hrun, hout]
  show execFailed (.summ w) (runW cat (.summ w) (pre' ++ [Ev.finished])).1 = _
  exact verdict_perm_invariant cat w pre' pre [] [] (fun e he => h e (hp.subset he)) hp

/-- non-vacuity: an interleaved stream with a final failure behind `Normalize` -/
example : C11.SafeRun Norm.init C11.exStream = true ∧
    execFailed (.norm (.summ (.leaf 0))) (runW (catx 1) (.norm (.summ (.leaf 0))) C11.exStream).1 = false := by
  decide +kernel

/-! ## Combinators keep the verdict -/

theorem max_defaultFailed (a b : StatsVec) :
    (a.max b).defaultFailed = (a.defaultFailed || b.defaultFailed) := by
  rw [Bool.eq_iff_iff]
  simp only [Bool.or_eq_true, defaultFailed_iff, StatsVec.max]
  simp only [Nat.max_def]
  by_cases h1 : a.failed ≤ b.failed <;> by_cases h2 : a.parsingErrors ≤ b.parsingErrors <;>
    by_cases h3 : a.hookErrors ≤ b.hookErrors <;> simp [h1, h2, h3] <;> omega

theorem add_defaultFailed (a b : StatsVec) :
    (a.add b).defaultFailed = (a.defaultFailed || b.defaultFailed) := by
  rw [Bool.eq_iff_iff]
  simp only [Bool.or_eq_true, defaultFailed_iff, StatsVec.add]
  omega

/-- `Tee`: failed iff either side reports a failure (pointwise max of the counters). -/
theorem tee_verdict (l r : W) (sl : St l) (sr : St r) :
    execFailed (.tee l r) (sl, sr) = ((statsOf l sl).defaultFailed || (statsOf r sr).defaultFailed) :=
  max_defaultFailed _ _

/-- `Or`: failed iff either side reports a failure (pointwise sum of the counters). -/
theorem or_verdict (c : OrPred) (l r : W) (sl : St l) (sr : St r) :
    execFailed (.or c l r) (sl, sr) = ((statsOf l sl).defaultFailed || (statsOf r sr).defaultFailed) :=
  add_defaultFailed _ _

/-- `FailOnSkipped`: the verdict is the inner pipeline's verdict on the transformed stream. -/
theorem fos_verdict (cat) (p : FosPred) (w : W) (evs : List Ev) :
    execFailed (.fos p w) (runW cat (.fos p w) evs).1 =
      execFailed w (runW cat w (evs.map (fosMap (p.eval cat)))).1 := by
  rw [C13.fos_is_map]; rfl

/-- `Repeat` around (or inside) the summary does not change the verdict: replayed events arrive after
    run-Finished, when the counters are frozen. -/
theorem repeat_verdict (cat) (f : RepFilter) (w : W) (pre post : List Ev)
    (hpre : ∀ e ∈ pre, e.isFinished = false) (hpost : ∀ e ∈ post, e.isFinished = false) :
    execFailed (.rep f (.summ w)) (runW cat (.rep f (.summ w)) (pre ++ Ev.finished :: post)).1 =
      execFailed (.summ w) (runW cat (.summ w) (pre ++ Ev.finished :: post)).1 := by
  have h := C13.repeat_output cat f (.summ w) (pre ++ Ev.finished :: post)
  rw [C13.repeat_once f.eval pre post hpre hpost] at h
  have e1 : execFailed (.rep f (.summ w)) (runW cat (.rep f (.summ w)) (pre ++ Ev.finished :: post)).1 =
      execFailed (.summ w) (runW cat (.rep f (.summ w)) (pre ++ Ev.finished :: post)).1.2 := rfl
  rw [e1]
  have e2 := congrArg Prod.fst h
  simp only at e2
  rw [e2]
  have a := summ_state cat w (pre ++ [Ev.finished] ++ filter f.eval (pre ++ [Ev.finished]) ++ post)
  have b := summ_state cat w (pre ++ Ev.finished :: post)
  have v1 := counters_eq_stream cat pre (filter f.eval (pre ++ [Ev.finished]) ++ post) hpre
  have v2 := counters_eq_stream cat pre post hpre
  simp only [execFailed, statsOf]
  rw [a, b]
  have ee : pre ++ [Ev.finished] ++ filter f.eval (pre ++ [Ev.finished]) ++ post =
      pre ++ Ev.finished :: (filter f.eval (pre ++ [Ev.finished]) ++ post) := by simp [append_assoc]
  rw [ee]
  have hv := v1.trans v2.symm
  have c1 := congrArg CVec.stepsFailed hv
  have c2 := congrArg CVec.parsingErrors hv
  have c3 := congrArg CVec.failedHooks hv
  simp only [vec] at c1 c2 c3
  simp only [StatsVec.defaultFailed, c1, c2, c3]

/-! ## Link to the property's wording -/

/-- retry counter of an event: `none` = no retries configured -/
def retOf : Ev → Option Retries
  | .scen _ ret _ => ret
  | _ => none

/-- the attempt this event belongs to will not be retried (no budget, or none left) -/
def noRetryLeft (e : Ev) : Bool :=
  match retOf e with
  | none => true
  | some r => r.left == 0

/-- a failure event (failed step or failed hook) of an attempt that has no retry left -/
def isFinalFailureEvent (e : Ev) : Bool := (e.isStepFailed || e.isHookFailed) && noRetryLeft e

/-- not-found failures only arise from `fail_on_skipped` and are final by definition -/
def isNotFoundFailure : Ev → Bool
  | .scen _ _ (.bg _ (.failed .notFound)) => true
  | .scen _ _ (.step _ (.failed .notFound)) => true
  | _ => false

theorem finalStepFailure_iff (e : Ev) :
    isFinalStepFailure e = true ↔ e.isStepFailed = true ∧ (noRetryLeft e = true ∨ isNotFoundFailure e = true) := by
  cases e with
  | scen k ret se =>
    cases se with
    | bg i r =>
      cases r with
      | failed err =>
        cases ret with
        | none => simp [isFinalStepFailure, isRetriedFailure, Ev.isStepFailed, Ev.scenEv?, ScenEv.isStepFailed, ScenEv.stepRes?, StepRes.isFailed, noRetryLeft, retOf]
        | some rr =>
          cases err <;> simp [isFinalStepFailure, isRetriedFailure, Ev.isStepFailed, Ev.scenEv?, ScenEv.isStepFailed, ScenEv.stepRes?, StepRes.isFailed, noRetryLeft, retOf, isNotFoundFailure] <;> omega
      | _ => simp [isFinalStepFailure, Ev.isStepFailed, Ev.scenEv?, ScenEv.isStepFailed, ScenEv.stepRes?, StepRes.isFailed]
    | step i r =>
      cases r with
      | failed err =>
        cases ret with
        | none => simp [isFinalStepFailure, isRetriedFailure, Ev.isStepFailed, Ev.scenEv?, ScenEv.isStepFailed, ScenEv.stepRes?, StepRes.isFailed, noRetryLeft, retOf]
        | some rr =>
          cases err <;> simp [isFinalStepFailure, isRetriedFailure, Ev.isStepFailed, Ev.scenEv?, ScenEv.isStepFailed, ScenEv.stepRes?, StepRes.isFailed, noRetryLeft, retOf, isNotFoundFailure] <;> omega
      | _ => simp [isFinalStepFailure, Ev.isStepFailed, Ev.scenEv?, ScenEv.isStepFailed, ScenEv.stepRes?, StepRes.isFailed]
    | _ => simp [isFinalStepFailure, Ev.isStepFailed, Ev.scenEv?, ScenEv.isStepFailed, ScenEv.stepRes?]
  | _ => simp [isFinalStepFailure, Ev.isStepFailed, Ev.scenEv?]

/-- The property's full statement at event level: the run is reported failed iff a parser error was
    delivered or some failure event (failed step / failed hook; a skipped step turned into not-found by
    `fail_on_skipped`) belongs to an attempt with no retry left. -/
def C01_full (cat : Catalog) (w : W) : Prop :=
  ∀ pre post : List Ev, (∀ e ∈ pre, e.isFinished = false) →
    (execFailed (.summ w) (runW cat (.summ w) (pre ++ Ev.finished :: post)).1 = true ↔
      ∃ e ∈ pre, e.isParseErr = true ∨ isFinalFailureEvent e = true ∨ isNotFoundFailure e = true)

/-- **Proved part**: the full statement holds for every stream in which no hook fails inside an attempt
    that still has a retry left (the history of finding F-C01 is excluded, nothing else). -/
theorem C01_verdict_partial (cat) (w : W) (pre post : List Ev) (h : ∀ e ∈ pre, e.isFinished = false)
    (hhook : ∀ e ∈ pre, e.isHookFailed = true → noRetryLeft e = true) :
    execFailed (.summ w) (runW cat (.summ w) (pre ++ Ev.finished :: post)).1 = true ↔
      ∃ e ∈ pre, e.isParseErr = true ∨ isFinalFailureEvent e = true ∨ isNotFoundFailure e = true := by
  rw [summVerdict_iff cat w pre post h]
  constructor
  · rintro ⟨e, he, h1 | h1 | h1⟩
    · exact ⟨e, he, Or.inl h1⟩
    · obtain ⟨a, b | b⟩ := (finalStepFailure_iff e).mp h1
      · exact ⟨e, he, Or.inr (Or.inl (by simp [isFinalFailureEvent, a, b]))⟩
      · exact ⟨e, he, Or.inr (Or.inr b)⟩
    · exact ⟨e, he, Or.inr (Or.inl (by simp [isFinalFailureEvent, h1, hhook e he h1]))⟩
  · rintro ⟨e, he, h1 | h1 | h1⟩
    · exact ⟨e, he, Or.inl h1⟩
    · simp only [isFinalFailureEvent, Bool.and_eq_true, Bool.or_eq_true] at h1
      obtain ⟨a | a, b⟩ := h1
      · exact ⟨e, he, Or.inr (Or.inl ((finalStepFailure_iff e).mpr ⟨a, Or.inl b⟩))⟩
      · exact ⟨e, he, Or.inr (Or.inr a)⟩
    · have : e.isStepFailed = true := by
        unfold isNotFoundFailure at h1
        split at h1 <;> simp_all [Ev.isStepFailed, Ev.scenEv?, ScenEv.isStepFailed, ScenEv.stepRes?, StepRes.isFailed]
      exact ⟨e, he, Or.inr (Or.inl ((finalStepFailure_iff e).mpr ⟨this, Or.inr h1⟩))⟩

/-- **The full statement is false of the code** (finding F-C01): a hook failing only in an attempt that
    is retried, followed by a passing last attempt, makes the run fail. Witness: `C12.streamA`. -/
theorem C01_full_false : ¬ C01_full (catx 1) (.leaf 0) := by
  intro h
  have hs : ∀ e ∈ streamA.dropLast, e.isFinished = false := by decide +kernel
  have := (h streamA.dropLast [] hs).mp (by decide +kernel)
  revert this
  decide +kernel

/-- the excluded histories are exactly "hook failure with a retry left" — the witness has one -/
example : ∃ e ∈ streamA, e.isHookFailed = true ∧ noRetryLeft e = false := by decide +kernel

/-- non-vacuity of the partial theorem: a stream satisfying its hypotheses that does fail finally -/
example : (∀ e ∈ streamB.dropLast, e.isHookFailed = true → noRetryLeft e = true) ∧
    execFailed (.summ (.leaf 0)) (runW (catx 1) (.summ (.leaf 0)) streamB).1 = true := by decide +kernel

/-! ## the process verdict: `Cucumber::run_and_exit` (src/cucumber.rs `filter_run_and_exit`) -/

/-- `run_and_exit` panics (the test binary exits non-zero) exactly when the statistics writer says the
    execution has failed — for every pipeline and every event stream. -/
theorem run_and_exit_panics_iff (cat : Catalog) (w : W) (evs : List Ev) :
    (runAndExit cat w evs).isSome = execFailed w (runW cat w evs).1 := by
  simp only [runAndExit, exitOutcome]
  cases execFailed w (runW cat w evs).1 <;> simp

/-- … hence, for the default `summarized()` pipeline, exactly on the streams characterised by
    `summVerdict_iff`: a parse error, a step failure classified as final, or a failed hook before
    run-Finished. -/
theorem run_and_exit_summarized (cat : Catalog) (w : W) (pre post : List Ev)
    (h : ∀ e ∈ pre, e.isFinished = false) :
    (runAndExit cat (.summ w) (pre ++ Ev.finished :: post)).isSome = true ↔
      ∃ e ∈ pre, e.isParseErr = true ∨ isFinalStepFailure e = true ∨ e.isHookFailed = true := by
  rw [run_and_exit_panics_iff]
  exact summVerdict_iff cat w pre post h

/-- the panic message names exactly the non-zero counters, in the order steps / parsing / hooks -/
theorem exit_message_parts (s : StatsVec) :
    (exitParts s).length = (if s.failed > 0 then 1 else 0) + (if s.parsingErrors > 0 then 1 else 0)
      + (if s.hookErrors > 0 then 1 else 0) := by
  unfold exitParts
  split <;> split <;> split <;> simp

/-- a failed execution always has something to say: the message is never empty when the verdict comes from
    the default formula (`defaultFailed`) -/
theorem exit_message_nonempty (s : StatsVec) (h : s.defaultFailed = true) : exitParts s ≠ [] := by
  unfold StatsVec.defaultFailed at h
  unfold exitParts
  simp only [Bool.or_eq_true, decide_eq_true_eq] at h
  rcases h with (h | h) | h <;> simp [h]

/-- no run, no failure: returns normally -/
example : runAndExit (catx 1) (.summ (.leaf 0)) [] = none := by decide +kernel
/-- the F-C01 witness stream panics with one hook error -/
example : (runAndExit (catx 1) (.summ (.leaf 0)) streamA).isSome = true := by decide +kernel

end Cuke.C01
