import Cuke.Lemmas.SchedBrackets
import Cuke.Lemmas.SchedConserve
/-!
  C03, an ORDER clause over whole runs of the scheduler LTS: a scenario event is only ever sent after the
  `Feature::Started` of its feature (and the `Rule::Started` of its rule). For every log replayed without any
  disagreement: the features / rules of a batch are open in the bookkeeping when `get` returns; by the bracket
  ledger their Started is sent or owed; at dispatch nothing is owed any more; and scenario events are only accepted
  from dispatched attempts.
-/
namespace Cuke.SchedOrd
open Cuke List Cuke.BrL Cuke.SchedL Cuke.SchedInv Cuke.SchedBr Cuke.SchedCons

set_option linter.unusedSimpArgs false
set_option linter.unusedVariables false

/-- no disagreement at all -/
def Clean0 (s : SState) : Bool := s.dis.isEmpty

theorem clean0_all (s : SState) (h : Clean0 s = true) : Good s = true ∧ GoodB s = true ∧ Clean s = true := by
  have : s.dis = [] := by simpa [Clean0] using h
  simp [Good, GoodB, Clean, this]

theorem clean0_step_mono (c : SCfg) (s : SState) (l : Label) (h : Clean0 (stepL c s l) = true) : Clean0 s = true := by
  have hp := dis_prefix c s l
  have : (stepL c s l).dis = [] := by simpa [Clean0] using h
  rw [this] at hp
  have : s.dis = [] := by
    obtain ⟨t, ht⟩ := hp
    cases hs : s.dis with
    | nil => rfl
    | cons a as => rw [hs] at ht; cases ht
  simp [Clean0, this]

/-- the feature (and rule) of `e` is open in the bookkeeping -/
def OpenIn (b : Brackets) (e : Entry) : Prop :=
  e.key.feat ∈ keysF b ∧ ∀ r, e.key.rule = some r → (e.key.feat, r) ∈ keysR b

/-- its Started event(s) have been sent -/
def StartedIn (out : List Ev) (e : Entry) : Prop :=
  Ev.featStarted e.key.feat ∈ out ∧ ∀ r, e.key.rule = some r → Ev.ruleStarted e.key.feat r ∈ out

def OInv (s : SState) : Prop :=
  BInv s ∧ (∀ e ∈ s.batch, OpenIn s.br e) ∧ (∀ e ∈ s.running, StartedIn s.out e)

/-! ## `start_scenarios` opens every feature / rule of the batch -/

theorem addFeats_mem {α} [BEq α] [LawfulBEq α] (fs : List α) (acc : List (α × Nat) × List α) (f : α)
    (h : f ∈ fs ∨ f ∈ acc.1.map (·.1)) : f ∈ (addFeats fs acc).1.map (·.1) := by
  induction fs generalizing acc with
  | nil =>
    rcases h with h | h
    · cases h
    · exact h
  | cons x xs ih =>
    simp only [addFeats, foldl_cons]
    apply ih
    rcases h with h | h
    · rcases mem_cons.mp h with rfl | h
      · right
        split
        · rename_i hany
          obtain ⟨e, he, hef⟩ := any_eq_true.mp hany
          have : e.1 = f := by simpa using hef
          exact mem_map.mpr ⟨e, he, this⟩
        · simp
      · exact Or.inl h
    · right
      split
      · exact h
      · simp only [map_append, mem_append]; exact Or.inl h

theorem mem_dedupAdj {α} [BEq α] [LawfulBEq α] (l : List α) (x : α) (h : x ∈ l) : x ∈ dedupAdj l := by
  induction l with
  | nil => cases h
  | cons a rest ih =>
    cases rest with
    | nil => simpa [dedupAdj] using h
    | cons b rest2 =>
      simp only [dedupAdj]
      split
      · rename_i hab
        have : a = b := by simpa using hab
        rcases mem_cons.mp h with rfl | h
        · exact ih (by simp [this])
        · exact ih h
      · rcases mem_cons.mp h with rfl | h
        · simp
        · exact mem_cons_of_mem _ (ih h)

theorem startScenarios_opens (b : Brackets) (batch : List Entry) (e : Entry) (he : e ∈ batch) :
    OpenIn (startScenarios b batch).1 e := by
  obtain ⟨hf, hr, _⟩ := startScenarios_parts b batch
  constructor
  · simp only [keysF, hf]
    apply addFeats_mem
    left
    exact mem_dedupAdj _ _ (mem_map.mpr ⟨e, he, rfl⟩)
  · intro r hrule
    simp only [keysR, hr]
    apply addFeats_mem
    left
    apply mem_dedupAdj
    simp only [mem_filterMap]
    exact ⟨e, he, by simp [hrule]⟩

/-- an open feature's / rule's Started is sent or owed (bracket ledger) -/
theorem open_started_in_hist (s : SState) (hb : BInv s) (e : Entry) (ho : OpenIn s.br e) :
    Ev.featStarted e.key.feat ∈ hist s ∧ ∀ r, e.key.rule = some r → Ev.ruleStarted e.key.feat r ∈ hist s := by
  constructor
  · have := (hb.1.2 e.key.feat).1 ho.1
    have hpos : 0 < cnt (.featStarted e.key.feat) (hist s) := by omega
    simpa [cnt] using count_pos_iff.mp hpos
  · intro r hr
    have := (hb.2.2 e.key.feat r).1 (ho.2 r hr)
    have hpos : 0 < cnt (.ruleStarted e.key.feat r) (hist s) := by omega
    simpa [cnt] using count_pos_iff.mp hpos

/-! ## what each label leaves alone -/

syntax "fld_simp" : tactic
macro_rules
  | `(tactic| fld_simp) => `(tactic|
      (simp only [stepL]
       repeat' split
       all_goals (first
         | rfl
         | (simp [SState.note, SState.inPhase, SState.checkExpectDone, SState.followQueues] <;> (repeat' split) <;> simp [SState.note]))))

theorem br_tx (c : SCfg) (s : SState) (e : Ev) : (stepL c s (.tx e)).br = s.br := by fld_simp
theorem br_pErr (c : SCfg) (s : SState) : (stepL c s .pErr).br = s.br := by fld_simp
theorem br_pEnd (c : SCfg) (s : SState) : (stepL c s .pEnd).br = s.br := by fld_simp
theorem br_hookTake (c : SCfg) (s : SState) : (stepL c s .hookTake).br = s.br := by fld_simp
theorem br_hookRestore (c : SCfg) (s : SState) : (stepL c s .hookRestore).br = s.br := by fld_simp
theorem br_disp (c : SCfg) (s : SState) (n : Nat) (sl : Slots) : (stepL c s (.disp n sl)).br = s.br := by fld_simp

theorem run_cons (c : SCfg) (s : SState) (b : Bool) : (stepL c s (.cons b)).running = s.running := by fld_simp
theorem run_brk (c : SCfg) (s : SState) : (stepL c s .brk).running = s.running := by fld_simp
theorem run_hookTake (c : SCfg) (s : SState) : (stepL c s .hookTake).running = s.running := by fld_simp
theorem run_get2 (c : SCfg) (s : SState) (t : Nat) (sl : Slots) (g : List Nat) (b : Bool) (r : Nat) :
    (stepL c s (.get2 t sl g b r)).running = s.running := by
  rw [get2_eq]
  obtain ⟨_, _, f3⟩ := SchedRetry.get2e_fields s sl r
  unfold get2R
  simp only
  split
  · split <;> simp [SState.note, f3]
  · simp [SState.note, f3]

/-- only `tx` extends the stream that was sent -/
theorem out_tx (c : SCfg) (s : SState) (e : Ev) : (stepL c s (.tx e)).out = s.out ++ [e] := by fld_simp

theorem out_same (c : SCfg) (s : SState) (l : Label) (h : ∀ e, l ≠ .tx e) : (stepL c s l).out = s.out := by
  cases l with
  | tx e => exact absurd rfl (h e)
  | hookTake => fld_simp
  | hookRestore => fld_simp
  | exit => fld_simp
  | pOk f => fld_simp
  | pErr => fld_simp
  | pEnd => fld_simp
  | pPend => fld_simp
  | pWake => fld_simp
  | pFinish => fld_simp
  | ins t a b => fld_simp
  | get1 t a ns nc => fld_simp
  | get2 t sl g b r =>
    rw [get2_eq]
    have hg : ∀ (x : SState), (x.checkExpectDone "at loop top").out = x.out := by
      intro x; unfold SState.checkExpectDone; split <;> simp [SState.note]
    have ha : (get2a s).out = s.out := by
      simp only [get2a, SState.inPhase]
      repeat' split
      all_goals simp [SState.note]
    have hc : (get2c s).out = s.out := by simp only [get2c, hg]; exact ha
    have hd : (get2d s sl).out = s.out := by unfold get2d; split <;> simp [SState.note, hc]
    have he : (get2e s sl r).out = s.out := by unfold get2e; split <;> simp [SState.note, hd]
    unfold get2R
    simp only
    split
    · split <;> simp [SState.note, he]
    · simp [SState.note, he]
  | idle f sl => rw [SchedBr.idle_eq]; unfold SchedBr.idleR; split <;> simp [(SchedBr.idle4_fields c s f sl).1]
  | idleContinue => fld_simp
  | idleYield => fld_simp
  | idleSlept => fld_simp
  | disp n sl => fld_simp
  | cons b => fld_simp
  | notif id f r =>
    have := (frame_notif c s id f r)
    -- `notif` touches `expect` / `br` only
    rw [SchedBr.notif_eq]
    unfold SchedBr.notifR
    split
    · simp [SState.note, SchedBr.notif1, (SchedBr.inPhase_fields _ _ _).1]
    · simp only [SchedBr.notifD]
      split <;> simp [SState.note, SchedBr.notifC, SchedBr.notifA, SchedBr.notif1, SState.checkExpectDone, SState.inPhase] <;>
        (repeat' split) <;> simp [SState.note]
  | brk => fld_simp
  | endA id f r t => fld_simp
  | rx e => fld_simp
  | cbIn a b t => fld_simp
  | cbOut a b t => fld_simp
  | envMove => fld_simp
  | poll => fld_simp
  | verdict b x y z => fld_simp
  | other => fld_simp

/-! ## one label -/

theorem b_endA (c : SCfg) (s : SState) (id : Nat) (f r : Bool) (t : Nat) : (stepL c s (.endA id f r t)).batch = s.batch := by fld_simp

theorem run_endA (c : SCfg) (s : SState) (id : Nat) (f r : Bool) (t : Nat) :
    ∀ e ∈ (stepL c s (.endA id f r t)).running, e ∈ s.running := by
  rw [endA_eq]
  unfold endR
  simp only
  split
  · intro e he; simpa [SState.note] using he
  · split
    · intro e he; exact mem_of_mem_eraseP he
    · intro e he; exact mem_of_mem_eraseP (by simpa [SState.note] using he)

theorem w2_notif (c : SCfg) (s : SState) (id : Nat) (f r : Bool) :
    s.phase = .afterGet2 → (stepL c s (.notif id f r)).dis.any (fun d => d.cls == .I) = true := by
  intro hp
  rw [SchedBr.notif_eq]
  have h1 : (SchedBr.notif1 s).dis.any (fun d => d.cls == .I) = true := by
    simp [SchedBr.notif1, SState.inPhase, hp, SState.note, List.any_append]
  have hpre : (SchedBr.notif1 s).dis <+: (SchedBr.notifR c s id f r).dis := by
    unfold SchedBr.notifR
    split
    · exact note_prefix _ _ _
    · have hA : ∀ nid f' r', (SchedBr.notif1 s).dis <+: (SchedBr.notifA (SchedBr.notif1 s) id f r nid f' r').dis := by
        intro nid f' r'; unfold SchedBr.notifA; split
        · exact List.prefix_refl _
        · exact note_prefix _ _ _
      rename_i nid k f' r' rest _
      have hC : (SchedBr.notifA (SchedBr.notif1 s) id f r nid f' r').dis <+:
          (SchedBr.notifC (SchedBr.notif1 s) id f r nid f' r' rest).dis := by
        unfold SchedBr.notifC; exact ced_prefix _ _
      have hD : (SchedBr.notifC (SchedBr.notif1 s) id f r nid f' r' rest).dis <+:
          (SchedBr.notifD c (SchedBr.notifC (SchedBr.notif1 s) id f r nid f' r' rest) k r).dis := by
        unfold SchedBr.notifD; split
        · exact note_prefix _ _ _
        · exact List.prefix_refl _
      exact ((hA nid f' r').trans hC).trans hD
  exact SchedSerial.any_of_prefix _ _ hpre h1

theorem oinv_keep (s s' : SState) (hb : BInv s') (hbr : s'.br = s.br) (hba : s'.batch = s.batch)
    (hru : ∀ e ∈ s'.running, e ∈ s.running) (hout : ∀ x ∈ s.out, x ∈ s'.out) (h : OInv s) : OInv s' := by
  refine ⟨hb, ?_, ?_⟩
  · rw [hba, hbr]; exact h.2.1
  · intro e he
    obtain ⟨h1, h2⟩ := h.2.2 e (hru e he)
    exact ⟨hout _ h1, fun r hr => hout _ (h2 r hr)⟩

theorem step_oinv (c : SCfg) (s : SState) (l : Label) (h : OInv s) (hbatch : s.phase ≠ .afterGet2 → s.batch = [])
    (hc : Clean0 (stepL c s l) = true) : OInv (stepL c s l) := by
  obtain ⟨hgood, hgb, hclean⟩ := clean0_all _ hc
  have hb := step_binv c s l h.1 hgb
  have same_out : (∀ e, l ≠ .tx e) → ∀ x ∈ s.out, x ∈ (stepL c s l).out := fun hne x hx => by rw [out_same c s l hne]; exact hx
  have fr : ∀ (hf : FrameOK s (stepL c s l)) (hbr : (stepL c s l).br = s.br) (hne : ∀ e, l ≠ .tx e), OInv (stepL c s l) :=
    fun hf hbr hne => oinv_keep s _ hb hbr hf.2.2.2.2 (fun e he => by rw [hf.2.1] at he; exact he) (same_out hne) h
  cases l with
  | tx e =>
    exact oinv_keep s _ hb (br_tx c s e) (frame_tx c s e).2.2.2.2 (fun x hx => by rw [(frame_tx c s e).2.1] at hx; exact hx)
      (fun x hx => by rw [out_tx]; exact mem_append_left _ hx) h
  | other => exact fr (frame_other c s) (s3_other c s).2.2 (fun _ hh => by cases hh)
  | verdict b x y z => exact fr (frame_verdict c s b x y z) (s3_verdict c s b x y z).2.2 (fun _ hh => by cases hh)
  | poll => exact fr (frame_poll c s) (s3_poll c s).2.2 (fun _ hh => by cases hh)
  | rx e => exact fr (frame_rx c s e) (s3_rx c s e).2.2 (fun _ hh => by cases hh)
  | cbIn a b t => exact fr (frame_cbIn c s a b t) (s3_cbIn c s a b t).2.2 (fun _ hh => by cases hh)
  | cbOut a b t => exact fr (frame_cbOut c s a b t) (s3_cbOut c s a b t).2.2 (fun _ hh => by cases hh)
  | envMove => exact fr (frame_env c s) (s3_env c s).2.2 (fun _ hh => by cases hh)
  | pPend => exact fr (frame_pPend c s) (s3_pPend c s).2.2 (fun _ hh => by cases hh)
  | pWake => exact fr (frame_pWake c s) (s3_pWake c s).2.2 (fun _ hh => by cases hh)
  | pOk f => exact fr (frame_pOk c s f) (s3_pOk c s f).2.2 (fun _ hh => by cases hh)
  | pFinish => exact fr (frame_pFinish c s) (s3_pFinish c s).2.2 (fun _ hh => by cases hh)
  | ins t a b => exact fr (frame_ins c s t a b) (s3_ins c s t a b).2.2 (fun _ hh => by cases hh)
  | pErr => exact fr (frame_pErr c s) (br_pErr c s) (fun _ hh => by cases hh)
  | pEnd => exact fr (frame_pEnd c s) (br_pEnd c s) (fun _ hh => by cases hh)
  | hookRestore => exact fr (frame_hookRestore c s) (br_hookRestore c s) (fun _ hh => by cases hh)
  | hookTake =>
    exact oinv_keep s _ hb (br_hookTake c s) (b_hookTake c s) (fun e he => by rw [run_hookTake] at he; exact he)
      (same_out (fun _ hh => by cases hh)) h
  | exit =>
    exact oinv_keep s _ hb (s3_exit c s).2.2 (b_exit c s) (fun e he => by rw [(phase_exit c s).2.1] at he; exact he)
      (same_out (fun _ hh => by cases hh)) h
  | get1 t a ns nc =>
    exact oinv_keep s _ hb (s3_get1 c s t a ns nc).2.2 (b_get1 c s t a ns nc)
      (fun e he => by rw [(phase_get1 c s t a ns nc).2.1] at he; exact he) (same_out (fun _ hh => by cases hh)) h
  | idleYield =>
    exact oinv_keep s _ hb (s3_idleYield c s).2.2 (b_idleYield c s) (fun e he => by rw [(phase_idleYield c s).2.1] at he; exact he)
      (same_out (fun _ hh => by cases hh)) h
  | idleSlept =>
    exact oinv_keep s _ hb (s3_idleSlept c s).2.2 (b_idleSlept c s) (fun e he => by rw [(phase_idleSlept c s).2.1] at he; exact he)
      (same_out (fun _ hh => by cases hh)) h
  | idleContinue =>
    exact oinv_keep s _ hb (s3_idleContinue c s).2.2 (b_idleContinue c s)
      (fun e he => by rw [(phase_idleContinue c s).2.1] at he; exact he) (same_out (fun _ hh => by cases hh)) h
  | cons b =>
    exact oinv_keep s _ hb (s3_cons c s b).2.2 (b_cons c s b) (fun e he => by rw [run_cons] at he; exact he)
      (same_out (fun _ hh => by cases hh)) h
  | brk =>
    exact oinv_keep s _ hb (s3_brk c s).2.2 (b_brk c s) (fun e he => by rw [run_brk] at he; exact he)
      (same_out (fun _ hh => by cases hh)) h
  | endA id f r t =>
    exact oinv_keep s _ hb (s3_endA c s id f r t).2.2 (b_endA c s id f r t) (run_endA c s id f r t)
      (same_out (fun _ hh => by cases hh)) h
  | notif id f r =>
    -- a clean notification is drained in phase `draining`: nothing is handed out at that moment
    have hph : s.phase ≠ .afterGet2 := by
      intro hp
      have := w2_notif c s id f r hp
      rw [good_no_I _ hgood] at this; cases this
    have hb0 := hbatch hph
    have hfr := frame_notif c s id f r
    refine ⟨hb, ?_, ?_⟩
    · intro e he; rw [hfr.2.2.2.2, hb0] at he; cases he
    · intro e he
      rw [hfr.2.1] at he
      obtain ⟨h1, h2⟩ := h.2.2 e he
      exact ⟨same_out (fun _ hh => by cases hh) _ h1, fun r' hr => same_out (fun _ hh => by cases hh) _ (h2 r' hr)⟩
  | idle f sl =>
    have hb0 : s.batch = [] := by
      cases hbb : s.batch with
      | nil => rfl
      | cons x xs =>
        exfalso
        have := idle_needs_empty_batch c s f sl (by simp [hbb])
        rw [good_no_I _ hgood] at this; cases this
    refine ⟨hb, ?_, ?_⟩
    · intro e he; rw [b_idle, hb0] at he; cases he
    · intro e he
      rw [(phase_idle c s f sl).2.1] at he
      obtain ⟨h1, h2⟩ := h.2.2 e he
      exact ⟨same_out (fun _ hh => by cases hh) _ h1, fun r' hr => same_out (fun _ hh => by cases hh) _ (h2 r' hr)⟩
  | disp n sl =>
    -- at dispatch nothing is owed any more: what the ledger owes for the batch's features has been sent
    have hexp : expEvents s.expect = [] := by
      rw [disp_eq] at hgb
      have g5 : GoodB (disp5 s n sl) = true := hgb
      have g4 : GoodB (disp4 s n) = true := goodB_of_prefix _ _ (SchedBr.chk_prefix' _ _ _ _) g5
      have g3 : GoodB (disp3 s) = true := goodB_of_prefix _ _ (SchedBr.chk_prefix' _ _ _ _) g4
      have g1 : GoodB (disp1 s) = true := g3
      unfold disp1 SState.checkExpectDone at g1
      have hf := SchedBr.inPhase_fields ({ s with pos := s.pos + 1 } : SState) [.afterGet2] "dispatch"
      split at g1
      · rename_i he
        rw [hf.2.2] at he
        exact expEvents_empty _ he
      · exact absurd rfl (goodB_note _ _ _ g1).2
    have hhist : hist s = s.out := by simp [hist, hexp]
    obtain ⟨d1, d2, d3⟩ := SchedRetry.disp5_fields s n sl
    have hrun : (stepL c s (.disp n sl)).running = s.running ++ s.batch := by
      rw [disp_eq]; simp [dispR, d2, d3]
    have hbat : (stepL c s (.disp n sl)).batch = [] := by rw [disp_eq]; rfl
    refine ⟨hb, ?_, ?_⟩
    · intro e he; rw [hbat] at he; cases he
    · intro e he
      rw [hrun] at he
      have hsame := same_out (fun _ hh => by cases hh)
      rcases mem_append.mp he with he | he
      · obtain ⟨h1, h2⟩ := h.2.2 e he
        exact ⟨hsame _ h1, fun r' hr => hsame _ (h2 r' hr)⟩
      · obtain ⟨h1, h2⟩ := open_started_in_hist s h.1 e (h.2.1 e he)
        rw [hhist] at h1 h2
        exact ⟨hsame _ h1, fun r' hr => hsame _ (h2 r' hr)⟩
  | get2 t sl gt b r =>
    refine ⟨hb, ?_, ?_⟩
    · -- the batch just handed out: `start_scenarios` opened its features and rules
      obtain ⟨_, hrq⟩ := clean_good _ hclean
      rw [get2_eq] at hrq ⊢
      unfold get2R at hrq ⊢
      simp only at hrq ⊢
      split
      · split
        · intro e he; exact startScenarios_opens _ _ e he
        · intro e he; exact startScenarios_opens _ _ e he
      · rename_i hne
        simp only [hne, Bool.false_eq_true, if_false] at hrq
        exact absurd rfl (SchedRetry.goodRQ_note _ _ _ (show SchedRetry.GoodRQ ((get2e s sl r).note .Q _) = true from hrq)).2.2
    · intro e he
      rw [run_get2] at he
      obtain ⟨h1, h2⟩ := h.2.2 e he
      exact ⟨same_out (fun _ hh => by cases hh) _ h1, fun r' hr => same_out (fun _ hh => by cases hh) _ (h2 r' hr)⟩

/-! ## whole runs -/

theorem oinv_init : OInv {} := by
  refine ⟨binv_init, ?_, ?_⟩
  · intro e he; cases he
  · intro e he; cases he

theorem run_both (c : SCfg) (ls : List Label) (sg : SState × (List Nat × List Nat)) (hci : CInv sg.1 sg.2) (hoi : OInv sg.1)
    (hc : Clean0 (runG c ls sg).1 = true) : OInv (runG c ls sg).1 := by
  induction ls generalizing sg with
  | nil => exact hoi
  | cons l rest ih =>
    have hmono : ∀ (ls : List Label) (s : SState), Clean0 (ls.foldl (stepL c) s) = true → Clean0 s = true := by
      intro ls
      induction ls with
      | nil => intro s h; exact h
      | cons l rest ih2 => intro s h; exact clean0_step_mono c s l (ih2 _ h)
    have hstate : (runG c (l :: rest) sg).1 = rest.foldl (stepL c) (stepL c sg.1 l) := by
      rw [runG_state]; rfl
    have h1 : Clean0 (stepL c sg.1 l) = true := hmono rest _ (by rw [← hstate]; exact hc)
    have hci' := step_cinv c sg.1 sg.2 l hci (clean0_all _ h1).2.2
    have hoi' := step_oinv c sg.1 l hoi hci.2 h1
    exact ih (stepL c sg.1 l, gstep c sg.1 sg.2 l) hci' hoi' (by
      have : runG c rest (stepL c sg.1 l, gstep c sg.1 sg.2 l) = runG c (l :: rest) sg := rfl
      rw [this]; exact hc)

theorem accept_oinv (c : SCfg) (ls : List Label) (hc : Clean0 (accept c ls) = true) : OInv (accept c ls) := by
  have hst : (runG c ls ({}, ([], []))).1 = accept c ls := runG_state c ls _
  have := run_both c ls ({}, ([], [])) cinv_init oinv_init (by rw [hst]; exact hc)
  rw [hst] at this
  exact this

/-- a scenario event accepted without disagreement comes from a dispatched attempt with that key -/
theorem tx_scen_running (c : SCfg) (s : SState) (k : ScenKey) (ret : Option Retries) (se : ScenEv)
    (hc : Clean0 (stepL c s (.tx (.scen k ret se))) = true) : ∃ e ∈ s.running, e.key = k := by
  cases hf : findRunning ({ ({ s with pos := s.pos + 1 } : SState) with out := s.out ++ [.scen k ret se] } : SState) k ret with
  | some e =>
    have hm : e ∈ s.running := mem_of_find?_eq_some hf
    have hp := find?_some hf
    simp only [Bool.and_eq_true, beq_iff_eq] at hp
    exact ⟨e, hm, hp.1⟩
  | none =>
    exfalso
    have : (stepL c s (.tx (.scen k ret se))).dis ≠ [] := by
      simp only [stepL, hf, Option.isSome_none, Bool.false_eq_true, if_false, SState.note]
      simp
    exact this (by simpa [Clean0] using hc)

end Cuke.SchedOrd
