import Cuke.Model.Wire
import Cuke.Model.Ev
/-! Wire encoding of events and catalogs (DESIGN Appendix A). -/
namespace Cuke.Driver
open Cuke Cuke.Wire

def retP : P (Option Retries) := opt (do let c ← nat; let l ← nat; pure ({ current := c, left := l } : Retries))

def stepResP : P StepRes := do
  let t ← tok
  match t with
  | "st" => pure .started
  | "ok" => pure .passed
  | "skip" => pure .skipped
  | "fail" => do
    let k ← tok
    match k with
    | "nf" => pure (.failed .notFound)
    | "amb" => pure (.failed .ambiguous)
    | "pan" => do let p ← nat; pure (.failed (.panic p))
    | _ => fail
  | _ => fail

def hookResP : P HookRes := do
  let t ← tok
  match t with
  | "st" => pure .started
  | "ok" => pure .passed
  | "fail" => do let p ← nat; pure (.failed p)
  | _ => fail

def scenEvP : P ScenEv := do
  let t ← tok
  match t with
  | "st" => pure .started
  | "fin" => pure .finished
  | "log" => do let m ← nat; pure (.log m)
  | "hk" => do
    let w ← tok
    let ty ← (match w with | "b" => pure HookTy.before | "a" => pure HookTy.after | _ => fail)
    let r ← hookResP
    pure (.hook ty r)
  | "bg" => do let i ← nat; let r ← stepResP; pure (.bg i r)
  | "step" => do let i ← nat; let r ← stepResP; pure (.step i r)
  | _ => fail

def keyP : P ScenKey := do
  let f ← nat
  let r ← opt nat
  let s ← nat
  pure { feat := f, rule := r, scen := s }

def evP : P Ev := do
  let t ← tok
  match t with
  | "S" => pure .started
  | "X" => pure .finished
  | "PF" => do
    let f ← nat; let r ← nat; let s ← nat; let st ← nat; let pe ← nat
    pure (.parsingFinished f r s st pe)
  | "PE" => do let i ← nat; pure (.parseErr i)
  | "F+" => do let f ← nat; pure (.featStarted f)
  | "F-" => do let f ← nat; pure (.featFinished f)
  | "R+" => do let f ← nat; let r ← nat; pure (.ruleStarted f r)
  | "R-" => do let f ← nat; let r ← nat; pure (.ruleFinished f r)
  | "A" => do
    let k ← keyP
    let ret ← retP
    let e ← scenEvP
    pure (.scen k ret e)
  | _ => fail

def showRet : Option Retries → String
  | none => "-"
  | some r => s!"{r.current} {r.left}"

def showStepRes : StepRes → String
  | .started => "st"
  | .passed => "ok"
  | .skipped => "skip"
  | .failed .notFound => "fail nf"
  | .failed .ambiguous => "fail amb"
  | .failed (.panic p) => s!"fail pan {p}"

def showHookRes : HookRes → String
  | .started => "st"
  | .passed => "ok"
  | .failed p => s!"fail {p}"

def showScenEv : ScenEv → String
  | .started => "st"
  | .finished => "fin"
  | .log m => s!"log {m}"
  | .hook .before r => s!"hk b {showHookRes r}"
  | .hook .after r => s!"hk a {showHookRes r}"
  | .bg i r => s!"bg {i} {showStepRes r}"
  | .step i r => s!"step {i} {showStepRes r}"

def showKey (k : ScenKey) : String := s!"{k.feat} {showOpt toString k.rule} {k.scen}"

def showEv : Ev → String
  | .started => "S"
  | .finished => "X"
  | .parsingFinished f r s st pe => s!"PF {f} {r} {s} {st} {pe}"
  | .parseErr i => s!"PE {i}"
  | .featStarted f => s!"F+ {f}"
  | .featFinished f => s!"F- {f}"
  | .ruleStarted f r => s!"R+ {f} {r}"
  | .ruleFinished f r => s!"R- {f} {r}"
  | .scen k ret e => s!"A {showKey k} {showRet ret} {showScenEv e}"

/-- catalog: `<nfeat> (fid tags <nrules> (rid tags)) <nscen> (key tags nsteps)` -/
structure CatData where
  feats : List (Nat × List String × List (Nat × List String))
  scens : List (ScenKey × List String × Nat)

def catP : P CatData := do
  let feats ← list (do
    let f ← nat; let tags ← list str
    let rules ← list (do let r ← nat; let t ← list str; pure (r, t))
    pure (f, tags, rules))
  let scens ← list (do let k ← keyP; let t ← list str; let n ← nat; pure (k, t, n))
  pure { feats, scens }

def CatData.toCatalog (c : CatData) : Catalog :=
  { featTags := fun f => match c.feats.find? (fun e => e.1 == f) with | some e => e.2.1 | none => []
    ruleTags := fun f r =>
      match c.feats.find? (fun e => e.1 == f) with
      | some e => (match e.2.2.find? (fun x => x.1 == r) with | some x => x.2 | none => [])
      | none => []
    scenTags := fun k => match c.scens.find? (fun e => e.1 == k) with | some e => e.2.1 | none => []
    nsteps := fun k => match c.scens.find? (fun e => e.1 == k) with | some e => e.2.2 | none => 0 }

end Cuke.Driver
