import Cuke.Lemmas.SchedFin
/-!
  C05 over whole runs: **a budget of N yields at most N + 1 attempts.** For every log clean in both acceptor layers,
  the (scenario, `current`) pairs of the attempts that were dispatched are pairwise distinct — the waiting entry of a
  scenario always carries a HIGHER `current` than every attempt of it dispatched before (the successor is built by
  `next_try` from the attempt in flight) — and every `current` is bounded by the resolved budget
  (`C05.lts_attempt_within_budget`), so a scenario is dispatched at most N + 1 times.
-/
namespace Cuke.SchedCount
open Cuke List Cuke.SchedL Cuke.SchedInv Cuke.SchedRetry Cuke.SchedCons Cuke.SchedOrd Cuke.SchedSeq Cuke.SchedFin

set_option linter.unusedSimpArgs false
set_option linter.unusedVariables false

/-- the retry counter an entry carries (`0` without retry options) -/
def cur (ret : Option RetryOptions) : Nat := (ret.map (·.retries.current)).getD 0

def sc (e : Entry) : Nat × Nat := (e.key.scen, cur e.ret)

def waiting (s : SState) : List Entry := s.q.serial ++ s.q.conc ++ s.batch

theorem cur_next (r : Option RetryOptions) (o : RetryOptions) (h : nextTry r true = some o) : cur (some o) = cur r + 1 := by
  unfold nextTry at h
  cases r with
  | none => cases h
  | some r0 =>
    simp only [if_true] at h
    unfold RetryOptions.nextTry Retries.nextTry at h
    by_cases hl : r0.retries.left = 0
    · simp [hl] at h
    · simp only [hl, if_false, Option.some.injEq] at h
      subst h
      simp [cur]

/-! ## where the waiting entries of the next state come from -/

/-- `INS`: every queued entry afterwards was queued before, or belongs to the delivered feature, or is the successor
    (built by `next_try`) of an attempt in flight — stated for an arbitrary predicate on (key, retry options) -/
theorem ins_queue_ind (c : SCfg) (s : SState) (t : Nat) (ps pc : List QE) (P : ScenKey → Option RetryOptions → Prop)
    (hold : ∀ e ∈ s.q.serial ++ s.q.conc, P e.key e.ret)
    (hfresh : ∀ f, s.pendingFeat = some f → ∀ e0 ∈ newEntries c ((c.feat? f).getD ⟨f, [], [], []⟩), P e0.key e0.ret)
    (hretry : ∀ p ∈ s.running, s.pendingFeat = none → ∀ o, nextTry p.ret true = some o → P p.key (some o))
    (hg : GoodRQ (stepL c s (.ins t ps pc)) = true) :
    ∀ e' ∈ (stepL c s (.ins t ps pc)).q.serial ++ (stepL c s (.ins t ps pc)).q.conc, P e'.key e'.ret := by
  rw [ins_eq] at hg ⊢
  generalize hX : insR c s t ps pc = X at hg ⊢
  unfold insR at hX
  simp only at hX
  split at hX
  · rename_i f hpf
    unfold insFresh at hX
    simp only at hX
    split at hX
    · subst hX
      intro e he
      simp only [mem_append] at he
      have hmodel : ∀ x, x ∈ (insertInitial s.q ((newEntries c ((c.feat? f).getD ⟨f, [], [], []⟩)).filter (·.serial))
            ((newEntries c ((c.feat? f).getD ⟨f, [], [], []⟩)).filter (fun e => !e.serial))).serial ++
          (insertInitial s.q ((newEntries c ((c.feat? f).getD ⟨f, [], [], []⟩)).filter (·.serial))
            ((newEntries c ((c.feat? f).getD ⟨f, [], [], []⟩)).filter (fun e => !e.serial))).conc → P x.key x.ret := by
        intro x hx
        rcases mem_insertInitial _ _ _ x hx with h1 | h1 | h1
        · exact hold x h1
        · exact hfresh f hpf x (mem_filter.mp h1).1
        · exact hfresh f hpf x (mem_filter.mp h1).1
      rcases he with he | he
      · obtain ⟨x, hx, h1, _, h3⟩ := mem_adoptIds _ _ e he
        rw [h1, h3]; exact hmodel x (mem_append_left _ hx)
      · obtain ⟨x, hx, h1, _, h3⟩ := mem_adoptIds _ _ e he
        rw [h1, h3]; exact hmodel x (mem_append_right _ hx)
    · subst hX
      rw [not_good_follow _ c .Q _ ps pc (Or.inr rfl)] at hg
      cases hg
  · rename_i hpf
    unfold insRetry at hX
    simp only at hX
    split at hX
    · rename_i ser p hfresh'
      split at hX
      · subst hX
        rw [not_good_follow _ c .R _ ps pc (Or.inl rfl)] at hg
        cases hg
      · rename_i e0r hrun
        split at hX
        · subst hX
          rw [not_good_follow _ c .R _ ps pc (Or.inl rfl)] at hg
          cases hg
        · rename_i ne hne
          split at hX
          · subst hX
            simp only [Option.map_eq_some_iff] at hne
            obtain ⟨o, ho, rfl⟩ := hne
            have hpar : e0r ∈ s.running := mem_of_find?_eq_some hrun
            intro e he
            simp only [mem_append] at he
            have hmodel : ∀ x, x ∈ (insertRetried s.q { e0r with id := p.id, ret := some o } t).serial ++
                (insertRetried s.q { e0r with id := p.id, ret := some o } t).conc → P x.key x.ret := by
              intro x hx
              rcases mem_insertRetried _ _ _ x hx with h1 | ⟨h1, _, h3⟩
              · exact hold x h1
              · rw [h1, h3]; exact hretry e0r hpar hpf o ho
            rcases he with he | he
            · obtain ⟨x, hx, h1, _, h3⟩ := mem_adoptIds _ _ e he
              rw [h1, h3]; exact hmodel x (mem_append_left _ hx)
            · obtain ⟨x, hx, h1, _, h3⟩ := mem_adoptIds _ _ e he
              rw [h1, h3]; exact hmodel x (mem_append_right _ hx)
          · subst hX
            rw [not_good_follow _ c .Q _ ps pc (Or.inr rfl)] at hg
            cases hg
    · subst hX
      rw [not_good_follow _ c .Q _ ps pc (Or.inr rfl)] at hg
      cases hg

/-- `get`: what is handed out and what stays queued was queued before -/
theorem get2_waiting (c : SCfg) (s : SState) (t : Nat) (sl : Slots) (got : List Nat) (b : Bool) (r : Nat) :
    ∀ e ∈ waiting (stepL c s (.get2 t sl got b r)), e ∈ s.q.serial ++ s.q.conc := by
  rw [get2_eq]
  obtain ⟨f1, _, _⟩ := get2e_fields s sl r
  intro e he
  unfold get2R at he
  simp only at he
  split at he
  · -- the model's batch
    have he' : e ∈ (getBatch (get2ready (get2e s sl r) t got) (get2e s sl r).slots.ask (get2e s sl r).q).2.1.serial ++
        (getBatch (get2ready (get2e s sl r) t got) (get2e s sl r).slots.ask (get2e s sl r).q).2.1.conc ++
        (getBatch (get2ready (get2e s sl r) t got) (get2e s sl r).slots.ask (get2e s sl r).q).1 := by
      split at he <;> simpa [waiting, SState.note] using he
    rw [← f1]
    apply mem_getBatch (get2ready (get2e s sl r) t got) (get2e s sl r).slots.ask (get2e s sl r).q e
    simp only [mem_append] at he'
    rcases he' with (h | h) | h
    · exact Or.inr (Or.inl h)
    · exact Or.inr (Or.inr h)
    · exact Or.inl h
  · -- the implementation's batch (a Q disagreement): still taken from the queues
    simp only [waiting, SState.note, mem_append, mem_filter, mem_filterMap] at he
    rw [← f1]
    simp only [mem_append]
    rcases he with (h | h) | ⟨i, _, h⟩
    · exact Or.inl h.1
    · exact Or.inr h.1
    · have := mem_of_find?_eq_some h
      simpa [mem_append] using this

/-! ## the invariant -/

/-- ghost: the (scenario, `current`) pairs of the attempts dispatched so far -/
def dstep (s : SState) (d : List (Nat × Nat)) : Label → List (Nat × Nat)
  | .disp _ _ => d ++ s.batch.map sc
  | _ => d

structure DInv (c : SCfg) (n : NState) (d : List (Nat × Nat)) : Prop where
  nd : d.Nodup
  /-- a waiting entry is newer than every dispatched attempt of its scenario -/
  wait : ∀ e ∈ waiting n.base, ∀ k, (e.key.scen, k) ∈ d → k < cur e.ret
  /-- an attempt in flight is recorded, and is the newest dispatched attempt of its scenario -/
  run : ∀ e ∈ n.base.running, sc e ∈ d ∧ ∀ k, (e.key.scen, k) ∈ d → k ≤ cur e.ret
  /-- only scenarios of delivered, inserted features were ever dispatched -/
  known : ∀ x k, (x, k) ∈ d → ∀ ft ∈ c.feats, x ∈ scenIds ft → ft.id ∈ n.delivered ∧ n.base.pendingFeat ≠ some ft.id

theorem dinv_init (c : SCfg) : DInv c {} [] := by
  refine ⟨nodup_nil, ?_, ?_, ?_⟩
  · intro e he; simp [waiting, Queues.empty] at he
  · intro e he; cases he
  · intro x k h; cases h

theorem dinv_simple (c : SCfg) (n n' : NState) (d : List (Nat × Nat)) (h : DInv c n d) (hc : SameCore n.base n'.base)
    (hd : n'.delivered = n.delivered) : DInv c n' d := by
  obtain ⟨h1, h2, h3, h4⟩ := hc
  refine ⟨h.nd, ?_, ?_, ?_⟩
  · intro e he; apply h.wait e; simpa [waiting, h1, h2] using he
  · intro e he; apply h.run e; rwa [h3] at he
  · rw [hd, h4]; exact h.known

/-! ## label by label -/

theorem pOk_dinv (c : SCfg) (n : NState) (f : Nat) (d : List (Nat × Nat)) (h : DInv c n d)
    (hc : NClean (stepN c n (.pOk f)) = true) : DInv c (stepN c n (.pOk f)) d := by
  obtain ⟨h1, h2, h3, h4⟩ := pOk_core c n.base f
  have hb := stepN_base c n (.pOk f)
  have hnew : f ∉ n.delivered ∧ (stepN c n (.pOk f)).delivered = f :: n.delivered := by
    simp only [NClean, Bool.and_eq_true] at hc
    have hn := hc.2
    unfold stepN at hn ⊢
    simp only at hn ⊢
    split at hn
    · simp [NState.note] at hn
    · rename_i hcont
      split
      · rename_i h'; exact absurd h' hcont
      · exact ⟨by simpa using hcont, rfl⟩
  obtain ⟨hf, hd⟩ := hnew
  refine ⟨h.nd, ?_, ?_, ?_⟩
  · intro e he; apply h.wait e; rw [hb] at he; simpa [waiting, h1, h2] using he
  · intro e he; apply h.run e; rw [hb, h3] at he; exact he
  · intro x k hx ft hft hxf
    obtain ⟨d1, d2⟩ := h.known x k hx ft hft hxf
    rw [hd, hb]
    refine ⟨mem_cons_of_mem _ d1, ?_⟩
    rcases h4 with h4 | h4
    · rw [h4]; exact d2
    · rw [h4]
      intro heq
      have : f = ft.id := by simpa using heq
      exact hf (this ▸ d1)

theorem ins_dinv (c : SCfg) (n : NState) (t : Nat) (ps pc : List QE) (d : List (Nat × Nat)) (h : DInv c n d)
    (hc : NClean (stepN c n (.ins t ps pc)) = true) : DInv c (stepN c n (.ins t ps pc)) d := by
  have hb := stepN_base c n (.ins t ps pc)
  simp only [NClean, Bool.and_eq_true] at hc
  have hc0 := hc.1
  rw [hb] at hc0
  have hg := (clean_good _ (clean0_all _ hc0).2.2).2
  obtain ⟨_, frun, _, _, fbat⟩ := frame_ins c n.base t ps pc
  have hpn := ins_pending c n.base t ps pc
  have hd : (stepN c n (.ins t ps pc)).delivered = n.delivered := by
    unfold stepN; simp only; split
    · rfl
    · split <;> simp [NState.note]
  have hq := ins_queue_ind c n.base t ps pc (fun key ret => ∀ k, (key.scen, k) ∈ d → k < cur ret)
    (fun e he => h.wait e (by simp only [waiting, mem_append] at he ⊢; exact Or.inl he))
    (by
      intro f hpf e0 he0 k hk
      exfalso
      cases hfd : c.feat? f with
      | none => simp [hfd, newEntries, featScenarios] at he0
      | some ft =>
        rw [hfd] at he0
        obtain ⟨hm, hid⟩ := feat?_spec c f ft hfd
        have hx : e0.key.scen ∈ scenIds ft := by
          simp only [newEntries, mem_map] at he0
          obtain ⟨rs, hrs, rfl⟩ := he0
          simp only [scenIds, mem_map]
          exact ⟨rs, hrs, rfl⟩
        exact (h.known _ k hk ft hm hx).2 (by rw [hpf, hid]))
    (by
      intro p hp _ o ho k hk
      have := (h.run p hp).2 k hk
      rw [cur_next p.ret o ho]
      omega)
    hg
  refine ⟨h.nd, ?_, ?_, ?_⟩
  · intro e he
    rw [hb] at he
    simp only [waiting, mem_append] at he
    rcases he with he | he
    · exact hq e (by simp only [mem_append]; exact he)
    · rw [fbat] at he
      exact h.wait e (by simp only [waiting, mem_append]; exact Or.inr he)
  · intro e he; rw [hb, frun] at he; exact h.run e he
  · intro x k hx ft hft hxf
    rw [hd, hb, hpn]
    exact ⟨(h.known x k hx ft hft hxf).1, by simp⟩

theorem get2_dinv (c : SCfg) (n : NState) (t : Nat) (sl : Slots) (got : List Nat) (b : Bool) (r : Nat)
    (d : List (Nat × Nat)) (h : DInv c n d) : DInv c (stepN c n (.get2 t sl got b r)) d := by
  have hb := stepN_base c n (.get2 t sl got b r)
  have hd : (stepN c n (.get2 t sl got b r)).delivered = n.delivered := rfl
  refine ⟨h.nd, ?_, ?_, ?_⟩
  · intro e he
    rw [hb] at he
    have := get2_waiting c n.base t sl got b r e he
    exact h.wait e (by simp only [waiting, mem_append] at this ⊢; exact Or.inl this)
  · intro e he; rw [hb, run_get2] at he; exact h.run e he
  · rw [hd, hb, get2_pending]; exact h.known

theorem endA_dinv (c : SCfg) (n : NState) (id : Nat) (failed retried : Bool) (t : Nat) (d : List (Nat × Nat))
    (h : DInv c n d) : DInv c (stepN c n (.endA id failed retried t)) d := by
  have hb := stepN_base c n (.endA id failed retried t)
  have hd : (stepN c n (.endA id failed retried t)).delivered = n.delivered := by
    unfold stepN; simp only; split
    · rfl
    · split <;> simp [NState.note]
  have hfields : (stepL c n.base (.endA id failed retried t)).q = n.base.q ∧
      (stepL c n.base (.endA id failed retried t)).batch = n.base.batch ∧
      (∀ e ∈ (stepL c n.base (.endA id failed retried t)).running, e ∈ n.base.running) ∧
      (stepL c n.base (.endA id failed retried t)).pendingFeat = n.base.pendingFeat := by
    rw [endA_eq]
    unfold endR
    simp only
    split
    · simp [SState.note]
    · split
      · refine ⟨rfl, rfl, fun e he => mem_of_mem_eraseP he, rfl⟩
      · refine ⟨rfl, rfl, fun e he => mem_of_mem_eraseP he, rfl⟩
  obtain ⟨g1, g2, g3, g4⟩ := hfields
  refine ⟨h.nd, ?_, ?_, ?_⟩
  · intro e he; apply h.wait e; rw [hb] at he; simpa [waiting, g1, g2] using he
  · intro e he; rw [hb] at he; exact h.run e (g3 e he)
  · rw [hd, hb, g4]; exact h.known

theorem nodup_of_map_nodup {α β : Type} (g : α → β) (m : List α) (h : (m.map g).Nodup) : m.Nodup := by
  induction m with
  | nil => exact nodup_nil
  | cons a m ih =>
    simp only [map_cons, nodup_cons] at h ⊢
    exact ⟨fun ha => h.1 (mem_map_of_mem ha), ih h.2⟩

theorem same_scen_in_nodup (l : List Entry) (hnd : (l.map (·.key.scen)).Nodup) (a b : Entry) (ha : a ∈ l) (hb : b ∈ l)
    (h : a.key.scen = b.key.scen) : a = b := by
  induction l with
  | nil => cases ha
  | cons x l ih =>
    simp only [map_cons, nodup_cons, mem_map, not_exists, not_and] at hnd
    rcases mem_cons.mp ha with rfl | ha'
    · rcases mem_cons.mp hb with rfl | hb'
      · rfl
      · exact absurd h.symm (hnd.1 b hb')
    · rcases mem_cons.mp hb with rfl | hb'
      · exact absurd h (hnd.1 a ha')
      · exact ih hnd.2 ha' hb'

theorem disp_dinv (c : SCfg) (n : NState) (k : Nat) (sl : Slots) (d : List (Nat × Nat)) (h : DInv c n d) (hn : NInv c n)
    (hc : NClean (stepN c n (.disp k sl)) = true) :
    DInv c (stepN c n (.disp k sl)) (d ++ n.base.batch.map sc) := by
  have hb := stepN_base c n (.disp k sl)
  simp only [NClean, Bool.and_eq_true] at hc
  have hcn := hc.2
  have hov : overlaps n.base.batch n.base.running = false ∧ (stepN c n (.disp k sl)).delivered = n.delivered := by
    unfold stepN at hcn ⊢
    simp only at hcn ⊢
    split at hcn
    · simp [NState.note] at hcn
    · rename_i hno
      split
      · rename_i h'; exact absurd h' hno
      · exact ⟨by simpa using hno, rfl⟩
  obtain ⟨hov, hd⟩ := hov
  have hdis := overlaps_false _ _ hov
  obtain ⟨f1, f2, f3⟩ := disp5_fields n.base k sl
  have hq' : (stepL c n.base (.disp k sl)).q = n.base.q := by rw [disp_eq]; simp [dispR, f1]
  have hbat' : (stepL c n.base (.disp k sl)).batch = [] := by rw [disp_eq]; simp [dispR]
  have hrun' : (stepL c n.base (.disp k sl)).running = n.base.running ++ n.base.batch := by rw [disp_eq]; simp [dispR, f2, f3]
  have hpf : (stepL c n.base (.disp k sl)).pendingFeat = n.base.pendingFeat := by
    rw [disp_eq]; simp [dispR, disp5_pending]
  -- the scenarios waiting are pairwise distinct
  have hqnd : ((n.base.q.serial ++ n.base.q.conc ++ n.base.batch).map (·.key.scen)).Nodup := hn.qnd
  have hbnd : (n.base.batch.map (·.key.scen)).Nodup := by
    rw [map_append] at hqnd
    exact (nodup_append.mp hqnd).2.1
  have hbw : ∀ b ∈ n.base.batch, b ∈ waiting n.base := fun b hb => by simp only [waiting, mem_append]; exact Or.inr hb
  refine ⟨?_, ?_, ?_, ?_⟩
  · rw [nodup_append]
    refine ⟨h.nd, ?_, ?_⟩
    · apply nodup_of_map_nodup Prod.fst
      simpa [sc, Function.comp_def] using hbnd
    · intro a ha b' hb' hab
      simp only [mem_map] at hb'
      obtain ⟨e, he, rfl⟩ := hb'
      have := h.wait e (hbw e he) (cur e.ret) (by rw [hab] at ha; exact ha)
      omega
  · intro e he k' hk'
    rw [hb] at he
    simp only [waiting, hq', hbat', append_nil] at he
    rcases mem_append.mp hk' with hk' | hk'
    · exact h.wait e (by simp only [waiting, mem_append]; exact Or.inl (mem_append.mp he)) k' hk'
    · exfalso
      simp only [mem_map] at hk'
      obtain ⟨b, hbm, hsc⟩ := hk'
      have hscen : b.key.scen = e.key.scen := by simpa [sc] using congrArg Prod.fst hsc
      have := same_scen_in_nodup _ hqnd b e (by simp only [mem_append]; exact Or.inr hbm)
        (by simp only [mem_append]; exact Or.inl (mem_append.mp he)) hscen
      subst this
      -- `b` is in the queues and in the batch: twice in a duplicate-free list
      rw [map_append] at hqnd
      exact (nodup_append.mp hqnd).2.2 _ (mem_map_of_mem he) _ (mem_map_of_mem hbm) rfl
  · intro e he
    rw [hb, hrun'] at he
    rcases mem_append.mp he with he | he
    · obtain ⟨r1, r2⟩ := h.run e he
      refine ⟨mem_append_left _ r1, ?_⟩
      intro k' hk'
      rcases mem_append.mp hk' with hk' | hk'
      · exact r2 k' hk'
      · exfalso
        simp only [mem_map] at hk'
        obtain ⟨b, hbm, hsc⟩ := hk'
        have hscen : b.key.scen = e.key.scen := by simpa [sc] using congrArg Prod.fst hsc
        apply hdis b.key.scen (by simp only [scens, mem_map]; exact ⟨b, hbm, rfl⟩)
        simp only [scens, mem_map]
        exact ⟨e, he, hscen.symm⟩
    · refine ⟨mem_append_right _ (mem_map_of_mem he), ?_⟩
      intro k' hk'
      rcases mem_append.mp hk' with hk' | hk'
      · have := h.wait e (hbw e he) k' hk'; omega
      · simp only [mem_map] at hk'
        obtain ⟨b, hbm, hsc⟩ := hk'
        have hscen : b.key.scen = e.key.scen := by simpa [sc] using congrArg Prod.fst hsc
        have hbe := same_scen_in_nodup _ hbnd b e hbm he hscen
        subst hbe
        have : cur b.ret = k' := by simpa [sc] using congrArg Prod.snd hsc
        omega
  · intro x k' hx ft hft hxf
    rw [hd, hb, hpf]
    rcases mem_append.mp hx with hx | hx
    · exact h.known x k' hx ft hft hxf
    · simp only [mem_map] at hx
      obtain ⟨b, hbm, hsc⟩ := hx
      have hxb : x = b.key.scen := by simpa [sc] using (congrArg Prod.fst hsc).symm
      refine hn.deliv x (Or.inl ?_) ft hft hxf
      rw [hxb]
      simp only [Qs, scens, mem_map]
      exact ⟨b, by simp only [mem_append]; exact Or.inr hbm, rfl⟩

/-! ## every label, every run -/

theorem step_dinv (c : SCfg) (n : NState) (d : List (Nat × Nat)) (l : Label) (h : DInv c n d) (hn : NInv c n)
    (hc : NClean (stepN c n l) = true) : DInv c (stepN c n l) (dstep n.base d l) := by
  have hb := stepN_base c n l
  have simple : SameCore n.base (stepL c n.base l) → (stepN c n l).delivered = n.delivered → dstep n.base d l = d →
      DInv c (stepN c n l) (dstep n.base d l) := by
    intro h1 h2 h3
    rw [h3]
    exact dinv_simple c n _ d h (hb ▸ h1) h2
  cases l with
  | pOk f => exact pOk_dinv c n f d h hc
  | ins t a b => exact ins_dinv c n t a b d h hc
  | get2 t sl gt b r => exact get2_dinv c n t sl gt b r d h
  | disp k sl => exact disp_dinv c n k sl d h hn hc
  | endA id f r t => exact endA_dinv c n id f r t d h
  | notif id f r => exact simple (core_notif c _ id f r) rfl rfl
  | idle f sl => exact simple (core_idle c _ f sl) rfl rfl
  | hookTake => exact simple (core_hookTake c _) rfl rfl
  | hookRestore => exact simple (core_hookRestore c _) rfl rfl
  | exit => exact simple (core_exit c _) rfl rfl
  | tx e => exact simple (core_tx c _ e) rfl rfl
  | pErr => exact simple (core_pErr c _) rfl rfl
  | pEnd => exact simple (core_pEnd c _) rfl rfl
  | pPend => exact simple (core_pPend c _) rfl rfl
  | pWake => exact simple (core_pWake c _) rfl rfl
  | pFinish => exact simple (core_pFinish c _) rfl rfl
  | get1 t a ns nc => exact simple (core_get1 c _ t a ns nc) rfl rfl
  | idleContinue => exact simple (core_idleContinue c _) rfl rfl
  | idleYield => exact simple (core_idleYield c _) rfl rfl
  | idleSlept => exact simple (core_idleSlept c _) rfl rfl
  | cons b => exact simple (core_cons c _ b) rfl rfl
  | brk => exact simple (core_brk c _) rfl rfl
  | rx e => exact simple (core_rx c _ e) rfl rfl
  | cbIn a b t => exact simple (core_cbIn c _ a b t) rfl rfl
  | cbOut a b t => exact simple (core_cbOut c _ a b t) rfl rfl
  | envMove => exact simple (core_env c _) rfl rfl
  | poll => exact simple (core_poll c _) rfl rfl
  | verdict b x y z => exact simple (core_verdict c _ b x y z) rfl rfl
  | other => exact simple (core_other c _) rfl rfl

/-- the dispatch log of a run -/
def runD (c : SCfg) (ls : List Label) (x : NState × List (Nat × Nat) × (List Nat × List Nat)) :
    NState × List (Nat × Nat) × (List Nat × List Nat) :=
  ls.foldl (fun x l => (stepN c x.1 l, dstep x.1.base x.2.1 l, gstep c x.1.base x.2.2 l)) x

theorem runD_state (c : SCfg) (ls : List Label) (x : NState × List (Nat × Nat) × (List Nat × List Nat)) :
    (runD c ls x).1 = ls.foldl (stepN c) x.1 := by
  induction ls generalizing x with
  | nil => rfl
  | cons l rest ih => simp only [runD, foldl_cons] at ih ⊢; exact ih _

theorem runD_inv (c : SCfg) (hwf : WF c) (ls : List Label) (x : NState × List (Nat × Nat) × (List Nat × List Nat))
    (hn : NInv c x.1) (hci : CInv x.1.base x.2.2) (h : DInv c x.1 x.2.1)
    (hc : NClean (ls.foldl (stepN c) x.1) = true) : DInv c (runD c ls x).1 (runD c ls x).2.1 := by
  induction ls generalizing x with
  | nil => exact h
  | cons l rest ih =>
    simp only [foldl_cons] at hc
    have h1 : NClean (stepN c x.1 l) = true := nclean_foldl_mono c rest _ hc
    have hc0 : Clean0 (stepL c x.1.base l) = true := by
      simp only [NClean, Bool.and_eq_true] at h1
      have := h1.1
      rwa [stepN_base] at this
    have hcl := (clean0_all _ hc0).2.2
    have hn' := step_ninv c hwf x.1 x.2.2 l hn hci h1
    have hci' : CInv (stepN c x.1 l).base (gstep c x.1.base x.2.2 l) := by
      rw [stepN_base]; exact step_cinv c x.1.base x.2.2 l hci hcl
    exact ih (stepN c x.1 l, dstep x.1.base x.2.1 l, gstep c x.1.base x.2.2 l) hn' hci' (step_dinv c x.1 x.2.1 l h hn h1) hc

/-- the (scenario, `current`) pairs dispatched in a run, in order -/
def dispatched (c : SCfg) (ls : List Label) : List (Nat × Nat) := (runD c ls ({}, [], ([], []))).2.1

theorem dispatched_inv (c : SCfg) (hwf : WF c) (ls : List Label) (hc : NClean (acceptN c ls) = true) :
    DInv c (acceptN c ls) (dispatched c ls) := by
  have := runD_inv c hwf ls ({}, [], ([], [])) (ninv_init c) cinv_init (dinv_init c) hc
  rw [runD_state] at this
  exact this

/-- a duplicate-free list of numbers below `n` has at most `n` elements -/
theorem nodup_bounded_length (l : List Nat) (n : Nat) (hnd : l.Nodup) (hb : ∀ k ∈ l, k < n) : l.length ≤ n := by
  induction n generalizing l with
  | zero =>
    cases l with
    | nil => simp
    | cons a _ => exact absurd (hb a mem_cons_self) (by omega)
  | succ n ih =>
    -- remove `n` (at most once) and apply the induction hypothesis
    have h1 : (l.erase n).Nodup := hnd.erase n
    have h2 : ∀ k ∈ l.erase n, k < n := by
      intro k hk
      have hk' := (hnd.mem_erase_iff).mp hk
      have := hb k hk'.2
      omega
    have := ih (l.erase n) h1 h2
    by_cases hm : n ∈ l
    · rw [length_erase_of_mem hm] at this; omega
    · rw [erase_of_not_mem hm] at this; omega

/-- every dispatched pair is the pair of an entry of the batch handed out at some moment of the run -/
theorem dispatched_from_batch (c : SCfg) (ls : List Label) (x : NState × List (Nat × Nat) × (List Nat × List Nat))
    (p : Nat × Nat) (hp : p ∈ (runD c ls x).2.1) :
    p ∈ x.2.1 ∨ ∃ pre suf, ls = pre ++ suf ∧ ∃ e ∈ (pre.foldl (stepN c) x.1).base.batch, sc e = p := by
  induction ls generalizing x with
  | nil => exact Or.inl hp
  | cons l rest ih =>
    have := ih (stepN c x.1 l, dstep x.1.base x.2.1 l, gstep c x.1.base x.2.2 l) hp
    rcases this with h | ⟨pre, suf, hsplit, e, he, hsc⟩
    · -- added by this very label?
      cases l with
      | disp k sl =>
        simp only [dstep, mem_append, mem_map] at h
        rcases h with h | ⟨e, he, hsc⟩
        · exact Or.inl h
        · exact Or.inr ⟨[], .disp k sl :: rest, rfl, e, he, hsc⟩
      | _ => exact Or.inl h
    · exact Or.inr ⟨l :: pre, suf, by rw [hsplit]; rfl, e, he, hsc⟩

end Cuke.SchedCount
