import Cuke.Lemmas.SchedTrip
/-!
  C03, the run-level brackets over WHOLE runs: in every log replayed without a disagreement, counting over the events
  sent so far and the events still owed (`hist`), there is exactly one run-`Started` from the moment `execute` takes the
  panic hook on, and exactly one run-`Finished` from the exit decision on — none before. With nothing owed at the end
  (`finalChecks`), the SENT stream of a complete run holds exactly one of each.
-/
namespace Cuke.SchedRunLevel
open Cuke List Cuke.BrL Cuke.SchedL Cuke.SchedInv Cuke.SchedOrd Cuke.SchedCons Cuke.SchedSpin Cuke.SchedBr

set_option linter.unusedSimpArgs false
set_option linter.unusedVariables false

/-- the two run-level bracket events -/
def isRunEv (x : Ev) : Prop := x = .started ∨ x = .finished

theorem cnt_brackets (x : Ev) (hx : isRunEv x) (l : List Ev) (h : ∀ e ∈ l, isBr e = true) : cnt x l = 0 := by
  apply cnt_zero_of_not_mem
  intro hm
  have := h x hm
  rcases hx with rfl | rfl <;> simp [isBr] at this

theorem startScenarios_isBr (b : Brackets) (l : List Entry) : ∀ e ∈ (startScenarios b l).2, isBr e = true := by
  intro e he
  simp only [startScenarios, mem_append, mem_map] at he
  rcases he with ⟨f, _, rfl⟩ | ⟨fr, _, rfl⟩ <;> rfl

theorem scenarioFinished_isBr (b : Brackets) (k : ScenKey) (r : Bool) (nR nF : Nat) (b' : Brackets) (evs : List Ev)
    (h : scenarioFinished b k r nR nF = some (b', evs)) : ∀ e ∈ evs, isBr e = true := by
  unfold scenarioFinished at h
  cases r with
  | true =>
    simp only [if_true, Option.some.injEq, Prod.mk.injEq] at h
    obtain ⟨_, hev⟩ := h; subst hev
    intro e he; cases he
  | false =>
    simp only [Bool.false_eq_true, if_false] at h
    cases hf : b.feats.find? (fun e => e.1 == k.feat) with
    | none =>
      cases hk : k.rule with
      | none => simp [hk, hf] at h
      | some rr =>
        cases hr : b.rules.find? (fun e => e.1 == (k.feat, rr)) with
        | none => simp [hk, hr] at h
        | some p =>
          obtain ⟨p1, c2⟩ := p
          by_cases hc : (nR == c2 + 1) = true <;> simp [hk, hr, hc, hf] at h
    | some q =>
      obtain ⟨q1, c⟩ := q
      cases hk : k.rule with
      | none =>
        by_cases hc : (nF == c + 1) = true
        · simp [hk, hf, hc] at h
          obtain ⟨_, hev⟩ := h; subst hev
          intro e he; simp only [mem_singleton] at he; rw [he]; rfl
        · simp [hk, hf, hc] at h
          obtain ⟨_, hev⟩ := h; subst hev
          intro e he; cases he
      | some rr =>
        cases hr : b.rules.find? (fun e => e.1 == (k.feat, rr)) with
        | none => simp [hk, hr] at h
        | some p =>
          obtain ⟨p1, c2⟩ := p
          by_cases hc2 : (nR == c2 + 1) = true <;> by_cases hc : (nF == c + 1) = true <;>
            simp [hk, hr, hc2, hf, hc] at h <;>
            (obtain ⟨_, hev⟩ := h; subst hev; intro e he; simp at he <;>
             (first | (rcases he with rfl | rfl <;> rfl) | (subst he; rfl)))

theorem finishAll_isBr (b : Brackets) : (∀ e ∈ (finishAll b).1, isBr e = true) ∧ (∀ e ∈ (finishAll b).2, isBr e = true) := by
  constructor <;> (intro e he; simp only [finishAll, mem_map] at he; obtain ⟨x, _, rfl⟩ := he; rfl)

/-! ### what each label does to `hist` (sent ++ owed) -/

theorem hist_same3 (s s' : SState) (h : Same3 s s') : hist s' = hist s := by
  unfold hist; rw [h.1, h.2.1]

theorem cnt_perm (x : Ev) (a b : List Ev) (h : a ~ b) : cnt x a = cnt x b := by
  unfold cnt; exact h.count_eq x

theorem rl_tx_core (s : SState) (e x : Ev) (cls : DClass) (msg : String) (hs : s.dis = []) (s' : SState)
    (hs' : s' = (match takeExp e s.expect with
        | some rest => ({ ({ s with pos := s.pos + 1 } : SState) with out := s.out ++ [e], expect := rest } : SState)
        | none => (({ ({ s with pos := s.pos + 1 } : SState) with out := s.out ++ [e] } : SState).note cls msg)))
    (hd : s'.dis = []) : cnt x (hist s') = cnt x (hist s) := by
  cases ht : takeExp e s.expect with
  | some rest =>
    rw [ht] at hs'
    subst hs'
    have hp := takeExp_perm e s.expect rest ht
    have h1 := cnt_perm x _ _ hp
    simp only [hist, cnt_append]
    simp only [cnt, count_cons, count_nil] at h1 ⊢
    omega
  | none =>
    rw [ht] at hs'
    subst hs'
    simp [SState.note, hs] at hd

/-- an event is sent: owed → sent, or a scenario event joins the sent ones -/
theorem rl_tx (c : SCfg) (s : SState) (e : Ev) (x : Ev) (hx : isRunEv x) (hs : s.dis = [])
    (hc : (stepL c s (.tx e)).dis = []) : cnt x (hist (stepL c s (.tx e))) = cnt x (hist s) := by
  cases e with
  | scen k ret se =>
    have : hist (stepL c s (.tx (.scen k ret se))) = s.out ++ [.scen k ret se] ++ expEvents s.expect := by
      simp only [stepL, hist]; split <;> simp [SState.note]
    rw [this]
    simp only [hist, cnt_append]
    have : cnt x [Ev.scen k ret se] = 0 := by
      apply cnt_zero_of_not_mem; rcases hx with rfl | rfl <;> simp
    omega
  | started => exact rl_tx_core s .started x .I _ hs _ rfl hc
  | finished => exact rl_tx_core s .finished x .I _ hs _ rfl hc
  | parsingFinished a b d f g => exact rl_tx_core s (.parsingFinished a b d f g) x .I _ hs _ rfl hc
  | parseErr i => exact rl_tx_core s (.parseErr i) x .I _ hs _ rfl hc
  | featStarted f => exact rl_tx_core s (.featStarted f) x .B _ hs _ rfl hc
  | featFinished f => exact rl_tx_core s (.featFinished f) x .B _ hs _ rfl hc
  | ruleStarted f r => exact rl_tx_core s (.ruleStarted f r) x .B _ hs _ rfl hc
  | ruleFinished f r => exact rl_tx_core s (.ruleFinished f r) x .B _ hs _ rfl hc

theorem ip_fields (s : SState) (ok : List Phase) (what : String) :
    ((({ s with pos := s.pos + 1 } : SState).inPhase ok what).out = s.out) ∧
    ((({ s with pos := s.pos + 1 } : SState).inPhase ok what).br = s.br) ∧
    ((({ s with pos := s.pos + 1 } : SState).inPhase ok what).expect = s.expect) := by
  unfold SState.inPhase; split <;> simp [SState.note]

theorem rl_owe (s s' : SState) (x y : Ev) (ho : s'.out = s.out) (he : s'.expect = s.expect ++ [.one y]) :
    cnt x (hist s') = cnt x (hist s) + cnt x [y] := by
  unfold hist; rw [ho, he, expEvents_append]; simp only [expEvents, cnt_append, append_nil]; omega

theorem rl_hookTake (c : SCfg) (s : SState) (x : Ev) :
    cnt x (hist (stepL c s .hookTake)) = cnt x (hist s) + cnt x [.started] := by
  have hf := ip_fields s [.init] "panic hook taken"
  exact rl_owe s _ x .started (by simp [stepL, hf.1]) (by simp [stepL, hf.2.2])

theorem rl_pErr (c : SCfg) (s : SState) (x : Ev) (hx : isRunEv x) :
    cnt x (hist (stepL c s .pErr)) = cnt x (hist s) := by
  have := rl_owe s (stepL c s .pErr) x (.parseErr s.nextPE) (by simp only [stepL]; split <;> simp [SState.note])
    (by simp only [stepL]; split <;> simp [SState.note])
  rw [this]
  have : cnt x [Ev.parseErr s.nextPE] = 0 := by apply cnt_zero_of_not_mem; rcases hx with rfl | rfl <;> simp
  omega

theorem rl_pEnd (c : SCfg) (s : SState) (x : Ev) (hx : isRunEv x) :
    cnt x (hist (stepL c s .pEnd)) = cnt x (hist s) := by
  have := rl_owe s (stepL c s .pEnd) x (.parsingFinished s.cFeatures s.cRules s.cScenarios s.cSteps s.cErrors) rfl rfl
  rw [this]
  have : cnt x [Ev.parsingFinished s.cFeatures s.cRules s.cScenarios s.cSteps s.cErrors] = 0 := by
    apply cnt_zero_of_not_mem; rcases hx with rfl | rfl <;> simp
  omega

/-- owing more BRACKET events changes no run-level count -/
theorem rl_owe_brackets (s s' : SState) (x : Ev) (hx : isRunEv x) (l : List Ev) (hl : ∀ e ∈ l, isBr e = true)
    (ho : s'.out = s.out) (he : expEvents s'.expect = expEvents s.expect ++ l) : cnt x (hist s') = cnt x (hist s) := by
  unfold hist; rw [ho, he]
  simp only [cnt_append]
  have := cnt_brackets x hx l hl
  omega

theorem rl_notif (c : SCfg) (s : SState) (id : Nat) (f r : Bool) (x : Ev) (hx : isRunEv x) (hs : s.dis = [])
    (hc : (stepL c s (.notif id f r)).dis = []) : cnt x (hist (stepL c s (.notif id f r))) = cnt x (hist s) := by
  cases hn : s.notifs with
  | nil =>
    exfalso
    cases hp : s.phase <;> simp [stepL, SState.inPhase, SState.note, hp, hn, hs] at hc
  | cons y rest =>
    obtain ⟨nid, k, f', r'⟩ := y
    cases he : expEmpty s.expect with
    | false =>
      exfalso
      cases hp : s.phase <;> cases hcnd : (nid == id && f' == f && r' == r && !s.tripDue) <;>
        cases hsf : scenarioFinished s.br k r (c.nRule k.feat (k.rule.getD 0)) (c.nFeat k.feat) <;>
        simp [stepL, SState.inPhase, SState.note, SState.checkExpectDone, hp, hn, hcnd, he, hsf, hs] at hc
    | true =>
      have hee := expEvents_empty _ he
      cases hsf : scenarioFinished s.br k r (c.nRule k.feat (k.rule.getD 0)) (c.nFeat k.feat) with
      | none =>
        exfalso
        cases hp : s.phase <;> cases hcnd : (nid == id && f' == f && r' == r && !s.tripDue) <;>
          simp [stepL, SState.inPhase, SState.note, SState.checkExpectDone, hp, hn, hcnd, he, hsf, hs] at hc
      | some p =>
        obtain ⟨br', evs⟩ := p
        refine rl_owe_brackets s _ x hx evs (scenarioFinished_isBr _ _ _ _ _ _ _ hsf) ?_ ?_
        · cases hp : s.phase <;> cases hcnd : (nid == id && f' == f && r' == r && !s.tripDue) <;>
            simp [stepL, SState.inPhase, SState.note, SState.checkExpectDone, hp, hn, hcnd, he, hsf, hs] at hc ⊢
        · rw [hee]
          cases hp : s.phase <;> cases hcnd : (nid == id && f' == f && r' == r && !s.tripDue) <;>
            simp [stepL, SState.inPhase, SState.note, SState.checkExpectDone, hp, hn, hcnd, he, hsf, hs, expEvents_map_one] at hc ⊢

theorem rl_disp (c : SCfg) (s : SState) (n : Nat) (sl : Slots) (x : Ev) (hs : s.dis = [])
    (hc : (stepL c s (.disp n sl)).dis = []) : cnt x (hist (stepL c s (.disp n sl))) = cnt x (hist s) := by
  have : hist (stepL c s (.disp n sl)) = hist s := by
    rw [disp_eq] at hc ⊢
    unfold dispR disp5 disp4 disp3 disp1 chk at hc ⊢
    cases hp : s.phase <;> cases he : expEmpty s.expect <;> cases h1 : (n == s.batch.length) <;>
      cases h2 : (sl == s.slots.onDispatch s.batch.length) <;>
      simp [SState.inPhase, SState.checkExpectDone, SState.note, hp, he, h1, h2, hs, hist, expEvents_empty] at hc ⊢
    all_goals simp [expEvents_empty _ he, expEvents]
  rw [this]

theorem rl_hookRestore (c : SCfg) (s : SState) (x : Ev) (hs : s.dis = [])
    (hc : (stepL c s .hookRestore).dis = []) : cnt x (hist (stepL c s .hookRestore)) = cnt x (hist s) := by
  have : hist (stepL c s .hookRestore) = hist s := by
    cases hp : s.phase <;> cases he : expEmpty s.expect <;> cases hh : s.hookTaken <;>
      simp [stepL, SState.inPhase, SState.note, SState.checkExpectDone, hp, he, hh, hs, hist] at hc ⊢
    all_goals simp [expEvents_empty _ he, expEvents]
  rw [this]

theorem rl_idle (c : SCfg) (s : SState) (fin sl : Bool) (x : Ev) (hx : isRunEv x) :
    cnt x (hist (stepL c s (.idle fin sl))) = cnt x (hist s) + (if fin then cnt x [.finished] else 0) := by
  rw [idle_eq]
  obtain ⟨f1, f2, f3⟩ := idle4_fields c s fin sl
  unfold idleR
  cases fin with
  | false => simp only [Bool.false_eq_true, if_false, hist, f1, f3, Nat.add_zero]
  | true =>
    simp only [if_true, hist, f1, f3, expEvents_append, cnt_append]
    have hb := finishAll_isBr (idle4 c s true sl).br
    have h1 := cnt_brackets x hx _ hb.1
    have h2 := cnt_brackets x hx _ hb.2
    simp only [expEvents, cnt_append, append_nil]
    omega

theorem rl_get2 (c : SCfg) (s : SState) (t2 : Nat) (slots : Slots) (got : List Nat) (sleep : Bool) (running : Nat)
    (x : Ev) (hx : isRunEv x) (hs : s.dis = []) (hc : (stepL c s (.get2 t2 slots got sleep running)).dis = []) :
    cnt x (hist (stepL c s (.get2 t2 slots got sleep running))) = cnt x (hist s) := by
  rw [get2_eq] at hc ⊢
  have hcc : (get2a s).dis <+: (get2c s).dis := by
    unfold get2c; exact ced_prefix ({ get2a s with phase := .afterGet2 } : SState) _
  have hcd : (get2c s).dis <+: (get2d s slots).dis := by
    unfold get2d; split
    · exact List.prefix_refl _
    · exact note_prefix _ _ _
  have hde : (get2d s slots).dis <+: (get2e s slots running).dis := by
    unfold get2e; split
    · exact List.prefix_refl _
    · exact note_prefix _ _ _
  have her : (get2e s slots running).dis <+: (get2R s t2 slots got sleep running).dis := by
    unfold get2R
    simp only
    split
    · split
      · exact List.prefix_refl _
      · exact note_prefix _ _ _
    · exact note_prefix _ _ _
  have hE : (get2e s slots running).dis = [] := by rw [hc] at her; exact List.prefix_nil.mp her
  have hD : (get2d s slots).dis = [] := by rw [hE] at hde; exact List.prefix_nil.mp hde
  have hC : (get2c s).dis = [] := by rw [hD] at hcd; exact List.prefix_nil.mp hcd
  have hA : (get2a s).dis = [] := by rw [hC] at hcc; exact List.prefix_nil.mp hcc
  -- `get2a` leaves `out` / `expect` alone
  have fa : (get2a s).out = s.out ∧ (get2a s).expect = s.expect := by
    unfold get2a SState.inPhase
    simp only
    repeat' split
    all_goals simp [SState.note]
  -- the expectation check passed: nothing was owed
  have hemp : expEmpty s.expect = true := by
    cases he : expEmpty s.expect with
    | true => rfl
    | false =>
      exfalso
      unfold get2c SState.checkExpectDone at hC
      simp only [fa.2, he, Bool.false_eq_true, if_false, SState.note] at hC
      simp at hC
  have fc : (get2c s).out = s.out ∧ (get2c s).expect = [] := by
    unfold get2c SState.checkExpectDone
    simp only [fa.2, hemp, if_true, fa.1, and_self]
  have eD : get2d s slots = get2c s := by
    unfold get2d at hD ⊢
    split
    · rfl
    · rename_i hne; rw [if_neg hne] at hD; simp [SState.note] at hD
  have eE : get2e s slots running = get2c s := by
    unfold get2e at hE ⊢
    split
    · exact eD
    · rename_i hne; rw [if_neg hne] at hE; simp [SState.note] at hE
  have hee := expEvents_empty _ hemp
  unfold get2R at hc ⊢
  simp only [eE] at hc ⊢
  split
  · rename_i hg
    refine rl_owe_brackets s _ x hx _ (startScenarios_isBr (get2c s).br
      (getBatch (get2ready (get2c s) t2 got) (get2c s).slots.ask (get2c s).q).1) ?_ ?_
    · split <;> simp [SState.note, fc.1]
    · rw [hee]
      split <;> simp [SState.note, fc.2, expEvents_append, expEvents_map_one, expEvents]
  · rename_i hg
    rw [if_neg hg] at hc
    simp [SState.note] at hc

/-! ### the invariant -/

/-- before the run (0), inside the loop (1), after the exit decision (2) -/
def pc : Phase → Nat
  | .init => 0
  | .exiting | .exited => 2
  | _ => 1

def RInv (s : SState) : Prop :=
  cnt .started (hist s) = (if pc s.phase = 0 then 0 else 1) ∧
  cnt .finished (hist s) = (if pc s.phase = 2 then 1 else 0)

theorem rinv_init : RInv ({} : SState) := by simp [RInv, hist, cnt, expEvents, pc]

theorem rinv_step (c : SCfg) (s : SState) (l : Label) (h : RInv s) (hc : Clean0 (stepL c s l) = true) :
    RInv (stepL c s l) := by
  have hs0 : Clean0 s = true := clean0_step_mono c s l hc
  have hs : s.dis = [] := by simpa [Clean0] using hs0
  have hd : (stepL c s l).dis = [] := by simpa [Clean0] using hc
  have hS : isRunEv .started := Or.inl rfl
  have hF : isRunEv .finished := Or.inr rfl
  have keep : ∀ s' : SState, (∀ x, isRunEv x → cnt x (hist s') = cnt x (hist s)) → pc s'.phase = pc s.phase → RInv s' := by
    intro s' hcnt hp
    unfold RInv
    rw [hcnt _ hS, hcnt _ hF, hp]
    exact h
  have same3 : ∀ s' : SState, Same3 s s' → pc s'.phase = pc s.phase → RInv s' :=
    fun s' h3 hp => keep s' (fun x _ => by rw [hist_same3 s s' h3]) hp
  have ph : ∀ {s' : SState}, vw s' = vw s → pc s'.phase = pc s.phase := by
    intro s' hv
    have : s'.phase = s.phase := congrArg V.phase hv
    rw [this]
  cases l with
  | other => exact same3 _ (s3_other c s) (ph (vw_other c s))
  | verdict b x y z => exact same3 _ (s3_verdict c s b x y z) (ph (vw_verdict c s b x y z))
  | rx e => exact same3 _ (s3_rx c s e) (ph (vw_rx c s e))
  | cbIn a b t => exact same3 _ (s3_cbIn c s a b t) (ph (vw_cbIn c s a b t))
  | cbOut a b t => exact same3 _ (s3_cbOut c s a b t) (ph (vw_cbOut c s a b t))
  | envMove => exact same3 _ (s3_env c s) (ph (vw_env c s))
  | pPend => exact same3 _ (s3_pPend c s) (ph (vw_pPend c s))
  | pWake => exact same3 _ (s3_pWake c s) (ph (vw_pWake c s))
  | pOk f => exact same3 _ (s3_pOk c s f) (ph (vw_pOk c s f))
  | pFinish => exact same3 _ (s3_pFinish c s) (ph (vw_pFinish c s))
  | ins t a b => exact same3 _ (s3_ins c s t a b) (ph (vw_ins c s t a b))
  | brk => exact same3 _ (s3_brk c s) (ph (vw_brk c s hs hd).2)
  | poll =>
    refine same3 _ (s3_poll c s) ?_
    have : (stepL c s .poll).phase = s.phase := congrArg V.phase (vw_poll c s)
    rw [this]
  | endA id f r t =>
    refine same3 _ (s3_endA c s id f r t) ?_
    have : (stepL c s (.endA id f r t)).phase = s.phase := congrArg V.phase (vw_endA c s id f r t hs hd)
    rw [this]
  | get1 t ask ns nc =>
    obtain ⟨hp, hv⟩ := vw_get1 c s t ask ns nc hs hd
    refine same3 _ (s3_get1 c s t ask ns nc) ?_
    have : (stepL c s (.get1 t ask ns nc)).phase = .afterGet1 := congrArg V.phase hv
    rw [this]; rcases hp with hp | hp <;> simp [hp, pc]
  | idleYield =>
    obtain ⟨hp, hv⟩ := vw_idleYield c s hs hd
    refine same3 _ (s3_idleYield c s) ?_
    have : (stepL c s .idleYield).phase = .idle2 := congrArg V.phase hv
    rw [this, hp]; simp [pc]
  | idleSlept =>
    obtain ⟨hp, hv⟩ := vw_idleSlept c s hs hd
    refine same3 _ (s3_idleSlept c s) ?_
    have : (stepL c s .idleSlept).phase = .idle2 := congrArg V.phase hv
    rw [this, hp]; simp [pc]
  | idleContinue =>
    obtain ⟨hp, _, hv⟩ := vw_idleContinue c s hs hd
    refine same3 _ (s3_idleContinue c s) ?_
    have : (stepL c s .idleContinue).phase = .loopTop := congrArg V.phase hv
    rw [this]; rcases hp with hp | hp <;> simp [hp, pc]
  | cons got =>
    obtain ⟨hp, _, hv⟩ := vw_cons c s got hs hd
    refine same3 _ (s3_cons c s got) ?_
    have : (stepL c s (.cons got)).phase = .draining := congrArg V.phase hv
    rw [this, hp]; simp [pc]
  | exit =>
    obtain ⟨hp, _, hv⟩ := vw_exit c s hs hd
    refine same3 _ (s3_exit c s) ?_
    have : (stepL c s .exit).phase = .exited := congrArg V.phase hv
    rw [this, hp]; simp [pc]
  | tx e => exact keep _ (fun x hx => rl_tx c s e x hx hs hd) (ph (vw_tx c s e))
  | pErr => exact keep _ (fun x hx => rl_pErr c s x hx) (ph (vw_pErr c s))
  | pEnd => exact keep _ (fun x hx => rl_pEnd c s x hx) (ph (vw_pEnd c s))
  | notif id f r => exact keep _ (fun x hx => rl_notif c s id f r x hx hs hd) (ph (vw_notif c s id f r))
  | hookRestore =>
    refine keep _ (fun x _ => rl_hookRestore c s x hs hd) ?_
    have : (stepL c s .hookRestore).phase = s.phase := congrArg V.phase (vw_hookRestore c s hs hd).2
    rw [this]
  | disp n sl =>
    obtain ⟨hp, hv⟩ := vw_disp c s n sl hs hd
    refine keep _ (fun x _ => rl_disp c s n sl x hs hd) ?_
    have : (stepL c s (.disp n sl)).phase = .selecting := congrArg V.phase hv
    rw [this, hp]; simp [pc]
  | get2 t2 slots got sleep running =>
    have hp := get2_phase c s t2 slots got sleep running hs hd
    have e1 := (get2_fields c s t2 slots got sleep running).1
    rw [← get2_eq c] at e1
    refine keep _ (fun x hx => rl_get2 c s t2 slots got sleep running x hx hs hd) ?_
    rw [e1]; rcases hp with hp | hp | hp <;> simp [hp, pc]
  | hookTake =>
    obtain ⟨hp, hv⟩ := vw_hookTake c s hs hd
    have e1 : (stepL c s .hookTake).phase = .loopTop := congrArg V.phase hv
    unfold RInv at h ⊢
    rw [rl_hookTake c s .started, rl_hookTake c s .finished, e1, h.1, h.2, hp]
    simp [pc, cnt]
  | idle fin sl =>
    obtain ⟨hp, _, _, _, hv⟩ := vw_idle c s fin sl hs hd
    have e1 : (stepL c s (.idle fin sl)).phase = if fin then .exiting else .idle1 := congrArg V.phase hv
    unfold RInv at h ⊢
    rw [rl_idle c s fin sl .started hS, rl_idle c s fin sl .finished hF, e1, h.1, h.2, hp]
    cases fin <;> simp [pc, cnt]

theorem rinv_accept (c : SCfg) (ls : List Label) (hc : Clean0 (accept c ls) = true) : RInv (accept c ls) := by
  have gen : ∀ (ls : List Label) (s : SState), RInv s → Clean0 (ls.foldl (stepL c) s) = true →
      RInv (ls.foldl (stepL c) s) := by
    intro ls
    induction ls with
    | nil => intro s h _; exact h
    | cons l rest ih =>
      intro s h hc
      simp only [foldl_cons] at hc ⊢
      exact ih _ (rinv_step c s l h (clean0_foldl_mono c rest _ hc)) hc
  exact gen ls {} rinv_init hc

end Cuke.SchedRunLevel
