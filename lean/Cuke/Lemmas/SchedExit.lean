import Cuke.Lemmas.SchedOrder
/-!
  C03 / C08, an ORDER clause over whole runs: once `execute` has taken its exit (`is_finished` was true: the label
  `idle true _`), no scenario event is sent any more — so the Finished brackets `finish_all_rules_and_features` emits
  there, and run-Finished, come after every scenario event. For every log replayed without any disagreement.
-/
namespace Cuke.SchedExit
open Cuke List Cuke.SchedL Cuke.SchedInv Cuke.SchedOrd Cuke.SchedCons

set_option linter.unusedSimpArgs false
set_option linter.unusedVariables false

/-- `execute` has left its loop: nothing is in flight, nothing is handed out -/
def Exiting (s : SState) : Prop :=
  (s.phase = .exiting ∨ s.phase = .exited) ∧ s.running = [] ∧ s.batch = []

syntax "wrongphaseE_simp" : tactic
macro_rules
  | `(tactic| wrongphaseE_simp) => `(tactic|
      (intro hsel
       rcases hsel with hsel | hsel <;>
       (simp only [stepL]; repeat' split
        all_goals (simp [SState.note, SState.inPhase, SState.checkExpectDone, hsel, List.any_append] <;> (repeat' split) <;>
          simp [SState.note, List.any_append]))))

theorem we_get1 (c : SCfg) (s : SState) (t : Nat) (ask : Option Nat) (ns nc : Nat) :
    (s.phase = .exiting ∨ s.phase = .exited) → (stepL c s (.get1 t ask ns nc)).dis.any (fun d => d.cls == .I) = true := by wrongphaseE_simp
theorem we_idleYield (c : SCfg) (s : SState) :
    (s.phase = .exiting ∨ s.phase = .exited) → (stepL c s .idleYield).dis.any (fun d => d.cls == .I) = true := by wrongphaseE_simp
theorem we_idleSlept (c : SCfg) (s : SState) :
    (s.phase = .exiting ∨ s.phase = .exited) → (stepL c s .idleSlept).dis.any (fun d => d.cls == .I) = true := by wrongphaseE_simp
theorem we_idleContinue (c : SCfg) (s : SState) :
    (s.phase = .exiting ∨ s.phase = .exited) → (stepL c s .idleContinue).dis.any (fun d => d.cls == .I) = true := by wrongphaseE_simp
theorem we_hookTake (c : SCfg) (s : SState) :
    (s.phase = .exiting ∨ s.phase = .exited) → (stepL c s .hookTake).dis.any (fun d => d.cls == .I) = true := by wrongphaseE_simp
theorem we_brk (c : SCfg) (s : SState) :
    (s.phase = .exiting ∨ s.phase = .exited) → (stepL c s .brk).dis.any (fun d => d.cls == .I) = true := by wrongphaseE_simp
theorem we_cons (c : SCfg) (s : SState) (b : Bool) :
    (s.phase = .exiting ∨ s.phase = .exited) → (stepL c s (.cons b)).dis.any (fun d => d.cls == .I) = true := by wrongphaseE_simp

theorem we_idle (c : SCfg) (s : SState) (f sl : Bool) (hp : s.phase = .exiting ∨ s.phase = .exited) :
    (stepL c s (.idle f sl)).dis.any (fun d => d.cls == .I) = true := by
  rw [idle_dis']
  have hA : (idleA s).dis.any (fun d => d.cls == .I) = true := by
    rcases hp with hp | hp <;> simp [idleA, SState.inPhase, hp, SState.note, List.any_append]
  have hB : (idleB s f).dis = (idleA s).dis := rfl
  have hC := SchedSerial.any_of_prefix _ _ (SchedSerial.chk_prefix (idleB s f)
    ((idleB s f).running.isEmpty && (idleB s f).endedUnconsumed == 0 && (idleB s f).batch.isEmpty) .I
    "idle branch taken although something is running or runnable") (by rw [hB]; exact hA)
  exact SchedSerial.any_of_prefix _ _ (SchedSerial.chk_prefix _ _ _ _) hC

theorem we_disp (c : SCfg) (s : SState) (n : Nat) (sl : Slots) (hp : s.phase = .exiting ∨ s.phase = .exited) :
    (stepL c s (.disp n sl)).dis.any (fun d => d.cls == .I) = true := by
  rw [disp_eq]
  have h0 : ((({ s with pos := s.pos + 1 } : SState).inPhase [.afterGet2] "dispatch")).dis.any (fun d => d.cls == .I) = true := by
    rcases hp with hp | hp <;> simp [SState.inPhase, hp, SState.note, List.any_append]
  have h1 : (disp1 s).dis.any (fun d => d.cls == .I) = true := SchedSerial.any_of_prefix _ _ (ced_prefix _ _) h0
  have h3 : (disp3 s).dis = (disp1 s).dis := rfl
  have h4 : (disp4 s n).dis.any (fun d => d.cls == .I) = true :=
    SchedSerial.any_of_prefix _ _ (SchedSerial.chk_prefix _ _ _ _) (by rw [h3]; exact h1)
  exact SchedSerial.any_of_prefix _ _ (SchedSerial.chk_prefix _ _ _ _) h4

theorem we_get2 (c : SCfg) (s : SState) (t2 : Nat) (slots : Slots) (got : List Nat) (sleep : Bool) (running : Nat)
    (hp : s.phase = .exiting ∨ s.phase = .exited) :
    (stepL c s (.get2 t2 slots got sleep running)).dis.any (fun d => d.cls == .I) = true := by
  rw [get2_eq]
  have ha : (get2a s).dis.any (fun d => d.cls == .I) = true := by
    rcases hp with hp | hp <;> simp [get2a, hp, SState.inPhase, SState.note, List.any_append]
  exact SchedSerial.any_of_prefix _ _ (SchedSerial.get2_chain s t2 slots got sleep running) ha

theorem we_notif (c : SCfg) (s : SState) (id : Nat) (f r : Bool) (hp : s.phase = .exiting ∨ s.phase = .exited) :
    (stepL c s (.notif id f r)).dis.any (fun d => d.cls == .I) = true := by
  rw [SchedBr.notif_eq]
  have h1 : (SchedBr.notif1 s).dis.any (fun d => d.cls == .I) = true := by
    rcases hp with hp | hp <;> simp [SchedBr.notif1, SState.inPhase, hp, SState.note, List.any_append]
  have hpre : (SchedBr.notif1 s).dis <+: (SchedBr.notifR c s id f r).dis := by
    unfold SchedBr.notifR
    split
    · exact note_prefix _ _ _
    · rename_i nid k f' r' rest _
      have hA : (SchedBr.notif1 s).dis <+: (SchedBr.notifA (SchedBr.notif1 s) id f r nid f' r').dis := by
        unfold SchedBr.notifA; split
        · exact List.prefix_refl _
        · exact note_prefix _ _ _
      have hC : (SchedBr.notifA (SchedBr.notif1 s) id f r nid f' r').dis <+:
          (SchedBr.notifC (SchedBr.notif1 s) id f r nid f' r' rest).dis := by
        unfold SchedBr.notifC; exact ced_prefix _ _
      have hD : (SchedBr.notifC (SchedBr.notif1 s) id f r nid f' r' rest).dis <+:
          (SchedBr.notifD c (SchedBr.notifC (SchedBr.notif1 s) id f r nid f' r' rest) k r).dis := by
        unfold SchedBr.notifD; split
        · exact note_prefix _ _ _
        · exact List.prefix_refl _
      exact (hA.trans hC).trans hD
  exact SchedSerial.any_of_prefix _ _ hpre h1

/-- taking the exit: nothing is running or handed out (else class I), and the phase is `exiting` -/
theorem idle_true_exiting (c : SCfg) (s : SState) (sl : Bool) (hg : Good (stepL c s (.idle true sl)) = true) :
    Exiting (stepL c s (.idle true sl)) := by
  have hb : s.batch = [] := by
    cases hbb : s.batch with
    | nil => rfl
    | cons x xs =>
      exfalso
      have := idle_needs_empty_batch c s true sl (by simp [hbb])
      rw [good_no_I _ hg] at this; cases this
  have hr : s.running = [] := by
    cases hrr : s.running with
    | nil => rfl
    | cons x xs =>
      exfalso
      have : (stepL c s (.idle true sl)).dis.any (fun d => d.cls == .I) = true := by
        rw [idle_dis']
        have hB : (idleB s true).running = s.running := by
          simp only [idleB, idleA, SState.inPhase]; split <;> simp [SState.note]
        have hC : (idleC s true).dis.any (fun d => d.cls == .I) = true := by
          unfold idleC chk
          rw [hB, hrr]
          simp [SState.note, List.any_append]
        exact SchedSerial.any_of_prefix _ _ (SchedSerial.chk_prefix _ _ _ _) hC
      rw [good_no_I _ hg] at this; cases this
  refine ⟨Or.inl ?_, ?_, ?_⟩
  · rw [SchedBr.idle_eq]; simp [SchedBr.idleR, SchedBr.idle4, SState.inPhase]; repeat' split
    all_goals simp [SState.note]
  · rw [(phase_idle c s true sl).2.1]; exact hr
  · rw [b_idle]; exact hb

/-- **after the exit decision nothing is dispatched and nothing of a scenario is sent** -/
theorem exiting_step (c : SCfg) (s : SState) (l : Label) (h : Exiting s) (hc : Clean0 (stepL c s l) = true) :
    Exiting (stepL c s l) ∧ ∀ k ret se, l ≠ .tx (.scen k ret se) := by
  obtain ⟨hgood, _, _⟩ := clean0_all _ hc
  have bad : (stepL c s l).dis.any (fun d => d.cls == .I) = true → False := by
    intro h1; rw [good_no_I _ hgood] at h1; cases h1
  have keep : FrameOK s (stepL c s l) → Exiting (stepL c s l) := by
    intro hf
    exact ⟨by rw [hf.2.2.2.1]; exact h.1, by rw [hf.2.1]; exact h.2.1, by rw [hf.2.2.2.2]; exact h.2.2⟩
  cases l with
  | tx e =>
    refine ⟨keep (frame_tx c s e), ?_⟩
    intro k ret se hl
    cases hl
    obtain ⟨e0, he0, _⟩ := tx_scen_running c s k ret se hc
    rw [h.2.1] at he0; cases he0
  | other => exact ⟨keep (frame_other c s), fun _ _ _ hh => by cases hh⟩
  | verdict b x y z => exact ⟨keep (frame_verdict c s b x y z), fun _ _ _ hh => by cases hh⟩
  | poll => exact ⟨keep (frame_poll c s), fun _ _ _ hh => by cases hh⟩
  | rx e => exact ⟨keep (frame_rx c s e), fun _ _ _ hh => by cases hh⟩
  | cbIn a b t => exact ⟨keep (frame_cbIn c s a b t), fun _ _ _ hh => by cases hh⟩
  | cbOut a b t => exact ⟨keep (frame_cbOut c s a b t), fun _ _ _ hh => by cases hh⟩
  | envMove => exact ⟨keep (frame_env c s), fun _ _ _ hh => by cases hh⟩
  | pPend => exact ⟨keep (frame_pPend c s), fun _ _ _ hh => by cases hh⟩
  | pWake => exact ⟨keep (frame_pWake c s), fun _ _ _ hh => by cases hh⟩
  | pOk f => exact ⟨keep (frame_pOk c s f), fun _ _ _ hh => by cases hh⟩
  | pErr => exact ⟨keep (frame_pErr c s), fun _ _ _ hh => by cases hh⟩
  | pEnd => exact ⟨keep (frame_pEnd c s), fun _ _ _ hh => by cases hh⟩
  | pFinish => exact ⟨keep (frame_pFinish c s), fun _ _ _ hh => by cases hh⟩
  | ins t a b => exact ⟨keep (frame_ins c s t a b), fun _ _ _ hh => by cases hh⟩
  | hookRestore => exact ⟨keep (frame_hookRestore c s), fun _ _ _ hh => by cases hh⟩
  | notif id f r => exact absurd (we_notif c s id f r h.1) bad
  | hookTake => exact absurd (we_hookTake c s h.1) bad
  | get1 t a ns nc => exact absurd (we_get1 c s t a ns nc h.1) bad
  | get2 t sl g b r => exact absurd (we_get2 c s t sl g b r h.1) bad
  | idle f sl => exact absurd (we_idle c s f sl h.1) bad
  | idleYield => exact absurd (we_idleYield c s h.1) bad
  | idleSlept => exact absurd (we_idleSlept c s h.1) bad
  | idleContinue => exact absurd (we_idleContinue c s h.1) bad
  | disp n sl => exact absurd (we_disp c s n sl h.1) bad
  | cons b => exact absurd (we_cons c s b h.1) bad
  | brk => exact absurd (we_brk c s h.1) bad
  | exit =>
    refine ⟨⟨Or.inr (by simp [stepL, SState.inPhase]), ?_, ?_⟩, fun _ _ _ hh => by cases hh⟩
    · rw [(phase_exit c s).2.1]; exact h.2.1
    · rw [b_exit]; exact h.2.2
  | endA id f r t =>
    -- nothing is running: an END here is a class-A disagreement
    exfalso
    have : (stepL c s (.endA id f r t)).dis ≠ [] := by
      rw [endA_eq]; unfold endR; simp [h.2.1, SState.note]
    exact this (by simpa [Clean0] using hc)

theorem exiting_run (c : SCfg) (post : List Label) (s : SState) (h : Exiting s)
    (hc : Clean0 (post.foldl (stepL c) s) = true) : ∀ k ret se, Label.tx (.scen k ret se) ∉ post := by
  induction post generalizing s with
  | nil => intro k ret se hm; cases hm
  | cons l rest ih =>
    have hmono : ∀ (ls : List Label) (s : SState), Clean0 (ls.foldl (stepL c) s) = true → Clean0 s = true := by
      intro ls
      induction ls with
      | nil => intro s h; exact h
      | cons l rest ih2 => intro s h; exact clean0_step_mono c s l (ih2 _ h)
    simp only [foldl_cons] at hc
    obtain ⟨h1, hne⟩ := exiting_step c s l h (hmono rest _ hc)
    intro k ret se hm
    rcases mem_cons.mp hm with hl | hm
    · exact hne k ret se hl.symm
    · exact ih (stepL c s l) h1 hc k ret se hm

end Cuke.SchedExit
