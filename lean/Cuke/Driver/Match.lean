import Cuke.Model.Wire
import Cuke.Model.StepMatch
/-! `match.find` -/
namespace Cuke.Driver
open Cuke Cuke.Wire

def kwP : P Kw := do
  let t ← tok
  match t with
  | "g" => pure .given
  | "w" => pure .when
  | "t" => pure .then_
  | _ => fail

structure KeyInfo where
  key : Nat
  loc : Option Nat
  caps : Option Caps
  names : List (Option String)

def keyInfoP : P KeyInfo := do
  let key ← nat
  let loc ← opt nat
  let caps ← opt (do let w ← str; let gs ← list (opt str); pure ({ whole := w, groups := gs } : Caps))
  let names ← list (opt str)
  pure { key, loc, caps, names }

def lookup (ks : List KeyInfo) (k : Nat) : Option KeyInfo := ks.find? (fun i => i.key == k)

def showFound (ks : List KeyInfo) : Found → String
  | .none => "none"
  | .one k f ms =>
    let loc := match lookup ks k with
      | some i => showOpt toString i.loc
      | none => "?"
    s!"one {loc} {f} {showList (fun (p : Option String × String) => showOpt encodeStr p.1 ++ " " ++ encodeStr p.2) ms}"
  | .ambiguous keys => s!"amb {showList toString keys}"

def handleMatchFind : Toks → Option String :=
  fun ts => runAll (do
    let kw ← kwP
    let regs ← list (do let k ← kwP; let key ← nat; let fn ← nat; pure ({ kw := k, key, fn } : Reg))
    let ks ← list keyInfoP
    let m : Nat → Option Caps := fun k => (lookup ks k).bind (·.caps)
    let names : Nat → List (Option String) := fun k => ((lookup ks k).map (·.names)).getD []
    pure (showFound ks (find regs kw m names))) ts

end Cuke.Driver
