//! Shared helpers: PRNG, wire encoding, abstract feature specs and their
//! conversion into real `gherkin` values.

use std::path::PathBuf;

use gherkin::{LineCol, Span, StepType};

/// splitmix64 — every random choice of a case derives from one state.
#[derive(Clone)]
pub struct Rng(pub u64);

impl Rng {
    pub fn new(seed: u64) -> Self {
        Self(seed.wrapping_mul(0x9E37_79B9_7F4A_7C15) ^ 0xD1B5_4A32_D192_ED03)
    }
    pub fn next(&mut self) -> u64 {
        self.0 = self.0.wrapping_add(0x9E37_79B9_7F4A_7C15);
        let mut z = self.0;
        z = (z ^ (z >> 30)).wrapping_mul(0xBF58_476D_1CE4_E5B9);
        z = (z ^ (z >> 27)).wrapping_mul(0x94D0_49BB_1331_11EB);
        z ^ (z >> 31)
    }
    /// uniform in `0..n` (n > 0)
    pub fn below(&mut self, n: usize) -> usize {
        (self.next() % (n as u64)) as usize
    }
    pub fn range(&mut self, lo: usize, hi_incl: usize) -> usize {
        lo + self.below(hi_incl - lo + 1)
    }
    pub fn chance(&mut self, num: usize, den: usize) -> bool {
        self.below(den) < num
    }
    pub fn pick<'a, T>(&mut self, xs: &'a [T]) -> &'a T {
        &xs[self.below(xs.len())]
    }
    pub fn shuffle<T>(&mut self, xs: &mut [T]) {
        for i in (1..xs.len()).rev() {
            let j = self.below(i + 1);
            xs.swap(i, j);
        }
    }
    pub fn fork(&mut self) -> Rng {
        Rng(self.next())
    }
}

pub fn hex(s: &str) -> String {
    let mut o = String::with_capacity(1 + 2 * s.len());
    o.push('x');
    for b in s.as_bytes() {
        o.push_str(&format!("{b:02x}"));
    }
    o
}

pub fn unhex(t: &str) -> Option<String> {
    let t = t.strip_prefix('x')?;
    if t.len() % 2 != 0 {
        return None;
    }
    let mut bytes = Vec::with_capacity(t.len() / 2);
    for i in (0..t.len()).step_by(2) {
        bytes.push(u8::from_str_radix(&t[i..i + 2], 16).ok()?);
    }
    String::from_utf8(bytes).ok()
}

pub fn show_list<T>(xs: &[T], f: impl Fn(&T) -> String) -> String {
    let mut v = vec![xs.len().to_string()];
    v.extend(xs.iter().map(f));
    v.join(" ")
}

pub fn show_opt<T>(x: Option<&T>, f: impl Fn(&T) -> String) -> String {
    x.map_or_else(|| "-".to_owned(), f)
}

pub fn b(x: bool) -> &'static str {
    if x { "1" } else { "0" }
}

// ---------------------------------------------------------------------------
// abstract specs

#[derive(Clone, Debug)]
pub struct StepSpec {
    pub ty: StepType,
    pub value: String,
}

#[derive(Clone, Debug)]
pub struct ScenSpec {
    pub id: usize,
    pub name: String,
    pub tags: Vec<String>,
    pub steps: Vec<StepSpec>,
    pub line: usize,
}

#[derive(Clone, Debug)]
pub struct RuleSpec {
    pub id: usize,
    pub name: String,
    pub tags: Vec<String>,
    pub bg: Vec<StepSpec>,
    pub scens: Vec<ScenSpec>,
}

#[derive(Clone, Debug)]
pub struct FeatSpec {
    pub id: usize,
    pub name: String,
    pub path: Option<String>,
    pub tags: Vec<String>,
    pub bg: Vec<StepSpec>,
    pub scens: Vec<ScenSpec>,
    pub rules: Vec<RuleSpec>,
}

pub fn mk_step(s: &StepSpec, line: usize) -> gherkin::Step {
    gherkin::Step {
        keyword: match s.ty {
            StepType::Given => "Given ".to_owned(),
            StepType::When => "When ".to_owned(),
            StepType::Then => "Then ".to_owned(),
        },
        ty: s.ty,
        value: s.value.clone(),
        docstring: None,
        table: None,
        span: Span { start: 0, end: 0 },
        position: LineCol { line, col: 5 },
    }
}

pub fn mk_bg(steps: &[StepSpec], line: usize) -> Option<gherkin::Background> {
    (!steps.is_empty()).then(|| gherkin::Background {
        keyword: "Background".to_owned(),
        name: String::new(),
        description: None,
        steps: steps
            .iter()
            .enumerate()
            .map(|(i, s)| mk_step(s, line + 1 + i))
            .collect(),
        span: Span { start: 0, end: 0 },
        position: LineCol { line, col: 3 },
    })
}

pub fn mk_scen(s: &ScenSpec) -> gherkin::Scenario {
    gherkin::Scenario {
        keyword: "Scenario".to_owned(),
        name: s.name.clone(),
        description: None,
        steps: s
            .steps
            .iter()
            .enumerate()
            .map(|(i, st)| mk_step(st, s.line + 1 + i))
            .collect(),
        examples: vec![],
        tags: s.tags.clone(),
        span: Span { start: 0, end: 0 },
        position: LineCol { line: s.line, col: 3 },
    }
}

pub fn mk_rule(r: &RuleSpec, line: usize) -> gherkin::Rule {
    gherkin::Rule {
        keyword: "Rule".to_owned(),
        name: r.name.clone(),
        description: None,
        background: mk_bg(&r.bg, line + 1),
        scenarios: r.scens.iter().map(mk_scen).collect(),
        tags: r.tags.clone(),
        span: Span { start: 0, end: 0 },
        position: LineCol { line, col: 3 },
    }
}

pub fn mk_feat(f: &FeatSpec) -> gherkin::Feature {
    gherkin::Feature {
        keyword: "Feature".to_owned(),
        name: f.name.clone(),
        description: None,
        background: mk_bg(&f.bg, 2),
        scenarios: f.scens.iter().map(mk_scen).collect(),
        rules: f
            .rules
            .iter()
            .enumerate()
            .map(|(i, r)| mk_rule(r, 1000 * (i + 1)))
            .collect(),
        tags: f.tags.clone(),
        span: Span { start: 0, end: 0 },
        position: LineCol { line: 1, col: 1 },
        path: f.path.as_ref().map(PathBuf::from),
    }
}

// ---------------------------------------------------------------------------
// tag expressions

use gherkin::tagexpr::TagOperation;

pub fn show_tagop(t: &TagOperation) -> String {
    match t {
        TagOperation::And(l, r) => format!("A {} {}", show_tagop(l), show_tagop(r)),
        TagOperation::Or(l, r) => format!("O {} {}", show_tagop(l), show_tagop(r)),
        TagOperation::Not(x) => format!("N {}", show_tagop(x)),
        TagOperation::Tag(s) => format!("T {}", hex(s)),
    }
}

pub fn gen_tagop(rng: &mut Rng, depth: usize, pool: &[&str]) -> TagOperation {
    if depth == 0 || rng.chance(1, 4) {
        return TagOperation::Tag((*rng.pick(pool)).to_owned());
    }
    match rng.below(3) {
        0 => TagOperation::And(
            Box::new(gen_tagop(rng, depth - 1, pool)),
            Box::new(gen_tagop(rng, depth - 1, pool)),
        ),
        1 => TagOperation::Or(
            Box::new(gen_tagop(rng, depth - 1, pool)),
            Box::new(gen_tagop(rng, depth - 1, pool)),
        ),
        _ => TagOperation::Not(Box::new(gen_tagop(rng, depth - 1, pool))),
    }
}

/// Fully parenthesised textual form understood by `TagOperation::from_str`.
pub fn tagop_text(t: &TagOperation) -> String {
    match t {
        TagOperation::And(l, r) => format!("({} and {})", tagop_text(l), tagop_text(r)),
        TagOperation::Or(l, r) => format!("({} or {})", tagop_text(l), tagop_text(r)),
        TagOperation::Not(x) => format!("(not {})", tagop_text(x)),
        TagOperation::Tag(s) => format!("@{s}"),
    }
}

pub fn gen_tags(rng: &mut Rng, pool: &[&str], max: usize) -> Vec<String> {
    let n = rng.below(max + 1);
    (0..n).map(|_| (*rng.pick(pool)).to_owned()).collect()
}

/// A case = request line for the model + the implementation's answer.
pub struct Case {
    pub req: String,
    pub imp: String,
    /// coarse classification used for the coverage histogram
    pub class: String,
    /// is the case non-trivial by the family's rule?
    pub nontrivial: bool,
}
