import Cuke.Model.SchedLts
/-
  A second acceptor layered over `stepL` (C05: "attempts of one scenario never overlap", "a scenario is
  attempted again exactly when its previous attempt failed and has budget"). It replays the same log, keeps the
  base acceptor's state untouched and adds three checks about the LINEAGE of attempts, all in program order of
  `Executor::run_scenario` (Finished event → `insert_retried_scenario` (INS) → notification (END)) and of
  `execute` (`get` → dispatch):

  * an attempt gets at most ONE successor entry (a second `INS` for a running attempt is flagged);
  * the `END` of an attempt says `retried` exactly when its successor was inserted before;
  * a batch is dispatched only when no attempt of any of its scenarios is still in flight
    (the successor of an attempt never starts before the attempt's `END`).

  It also records which features the parser delivered and flags a second delivery of the same feature (an
  obligation on the ENVIRONMENT: `FinishedRulesAndFeatures` counts finished scenarios per feature, so the
  bookkeeping of the runner presupposes that a feature is handed to it once).
-/
namespace Cuke

/-- the running attempt a re-insertion belongs to, as the base acceptor identifies it (`none` when the `INS`
    inserts a freshly parsed feature or is not a single new entry) -/
def retryParent (s : SState) (ps pc : List QE) : Option Entry :=
  match s.pendingFeat with
  | some _ => none
  | none =>
    let known := (s.q.serial ++ s.q.conc).map (·.id)
    let fresh := (ps.map (fun p => (true, p)) ++ pc.map (fun p => (false, p))).filter (fun p => !known.contains p.2.id)
    match fresh with
    | [(_, p)] => s.running.find? (fun e => e.key.scen == p.scen)
    | _ => none

structure NState where
  base : SState := {}
  /-- scenarios whose running attempt already has its successor in the queues -/
  reins : List Nat := []
  /-- features delivered by the parser so far -/
  delivered : List Nat := []
  ndis : List Dis := []

def NState.note (n : NState) (c : DClass) (m : String) : NState :=
  { n with ndis := n.ndis ++ [⟨c, n.base.pos, m⟩] }

/-- does some attempt of a scenario of the batch still run? -/
def overlaps (batch running : List Entry) : Bool :=
  batch.any (fun e => running.any (fun r => r.key.scen == e.key.scen))

def stepN (c : SCfg) (n : NState) (l : Label) : NState :=
  let b := n.base
  let n' : NState := { n with base := stepL c b l }
  match l with
  | .pOk f =>
    if n.delivered.contains f then n'.note .I s!"feature {f} delivered to the runner a second time"
    else { n' with delivered := f :: n.delivered }
  | .ins _ ps pc =>
    match retryParent b ps pc with
    | none => n'
    | some e =>
      if n.reins.contains e.key.scen then
        n'.note .R s!"a second successor was inserted for the running attempt of scenario {e.key.scen}"
      else { n' with reins := e.key.scen :: n.reins }
  | .endA id _ retried _ =>
    match b.running.find? (fun e => e.id == id) with
    | none => n'
    | some e =>
      let had := n.reins.contains e.key.scen
      let n' := { n' with reins := n.reins.erase e.key.scen }
      if retried == had then n'
      else n'.note .R s!"attempt {id} of scenario {e.key.scen} ended with retried = {retried}, successor inserted = {had}"
  | .disp _ _ =>
    if overlaps b.batch b.running then
      n'.note .R s!"a batch was dispatched while another attempt of one of its scenarios is still in flight"
    else n'
  | _ => n'

def acceptN (c : SCfg) (ls : List Label) : NState := ls.foldl (stepN c) {}

end Cuke
