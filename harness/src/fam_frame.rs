//! C20 (framing): `trace.frame` — buffers of log frames through the REAL `CollectorWriter::write`
//! (cfg hook `cucumber::tracing::verif_unframe`), compared with the Lean model `Cuke.Frame.unframe`;
//! for well-formed frames the Lean monitor `mon.frame` evaluates the round trip itself.

use crate::common::{hex, show_list, Case, Rng};

const FRAGS: &[&str] = &[
    "a", "b", " ", "_", "__", "___", "__unknown", "unknown", "__cucumber__scenario", "__cucumber", "_scenario", "scenario",
    "__cucumber__scenari", "o", "5", "12", "+", "é", "漢", "\n", "x=1", "__7", "INFO ", "cucumber__scenario", "_cucumber__scenario",
    "__cucumber_", "_unknown", "0", "__unknow", "n",
];

fn gen_text(rng: &mut Rng, marker_bias: bool) -> String {
    let n = rng.below(6);
    let mut s = String::new();
    for _ in 0..n {
        let f = if marker_bias && rng.chance(1, 3) { "__cucumber__scenario" } else { *rng.pick(FRAGS) };
        s.push_str(f);
    }
    s
}

fn gen_good_id(rng: &mut Rng) -> Option<String> {
    if rng.chance(2, 5) {
        None
    } else {
        let v: u64 = match rng.below(5) {
            0 => rng.below(10) as u64,
            1 => rng.below(1000) as u64,
            2 => u64::MAX,
            3 => rng.next(),
            _ => rng.next() >> 40,
        };
        Some(v.to_string())
    }
}

fn gen_weird_id(rng: &mut Rng) -> Option<String> {
    Some((*rng.pick(&["+5", "", "007", "18446744073709551616", "18446744073709551615", "5 ", " 5", "-1", "٣", "+", "1_0", "0x10", "99999999999999999999999", "+0"])).to_owned())
}

fn show_sent(res: &Result<usize, String>, sent: &[(Option<u64>, String)], len: usize) -> String {
    let ok = match res {
        Ok(n) if *n == len => "1",
        Ok(_) => "!len",
        Err(_) => "0",
    };
    format!("{ok} {}", show_list(sent, |(i, t)| format!("{} {}", i.map_or_else(|| "-".to_owned(), |i| i.to_string()), hex(t))))
}

pub fn gen_frame(rng: &mut Rng, idx: usize) -> Case {
    let [end, before, noid] = cucumber::tracing::verif_suffixes();
    let kind = if idx == 0 { 1 } else { rng.below(10) };
    let mut class;
    let mut frames: Vec<(Option<String>, String)> = vec![];
    let buf: String;
    match kind {
        0..=5 => {
            // well-formed frames as the writer side produces them
            let marker = kind == 1 || rng.chance(1, 6);
            let n = if idx == 0 { 1 } else { rng.range(1, 4) };
            for _ in 0..n {
                let text = if idx == 0 { "k __cucumber__scenario z".to_owned() } else { gen_text(rng, marker) };
                frames.push((gen_good_id(rng), text));
            }
            class = format!("wf{n}{}", if frames.iter().any(|f| f.1.contains(end)) { "/marker-in-text" } else { "/clean" });
            buf = frames.iter().map(|(i, t)| format!("{t}{}{end}", i.as_ref().map_or_else(|| noid.to_owned(), |d| format!("{before}{d}")))).collect();
        }
        6..=7 => {
            let n = rng.range(1, 3);
            for _ in 0..n {
                let id = if rng.chance(1, 2) { gen_weird_id(rng) } else { gen_good_id(rng) };
                frames.push((id, gen_text(rng, false)));
            }
            class = "weird-id".to_owned();
            buf = frames.iter().map(|(i, t)| format!("{t}{}{end}", i.as_ref().map_or_else(|| noid.to_owned(), |d| format!("{before}{d}")))).collect();
        }
        _ => {
            // raw: no structure at all (missing terminator, empty pieces, separators only)
            let n = rng.below(8);
            let mut s = String::new();
            for _ in 0..n {
                s.push_str(match rng.below(4) { 0 => end, 1 => before, 2 => noid, _ => *rng.pick(FRAGS) });
            }
            class = "raw".to_owned();
            frames.clear();
            buf = s;
        }
    }
    let (res, sent) = cucumber::tracing::verif_unframe(buf.as_bytes());
    let impl_line = show_sent(&res, &sent, buf.len());
    if res.is_err() { class.push_str("/err"); }
    let mut req = format!("trace.frame {}", hex(&buf));
    let mut imp = impl_line.clone();
    if !frames.is_empty() {
        req.push_str(&format!(
            "\nmon.frame {} {impl_line}",
            show_list(&frames, |(i, t)| format!("{} {}", i.as_ref().map_or_else(|| "-".to_owned(), |d| hex(d)), hex(t)))
        ));
        imp.push_str("\nok");
    }
    Case { req, imp, class, nontrivial: buf.len() > end.len() }
}
