#!/bin/bash
# usage: confirm_seed.sh <worktree> <seed-dir>   (run in a scratch worktree, never in /repo)
# confirms: patch applies + compiles, demo fails with it, full suite passes with it, demo passes without it
set -u
WT=$1; SD=$2
cd "$WT" || exit 2
export CARGO_NET_OFFLINE=true
git checkout -q -- . ; rm -f tests/zz_seed_demo.rs
git apply --check "$SD/patch.diff" || { echo "RESULT patch-does-not-apply"; exit 1; }
cp "$SD/demo.rs" tests/zz_seed_demo.rs
# without the change: the demo must pass
cargo test --offline --all-features --test zz_seed_demo > "$SD/confirm_demo_clean.log" 2>&1; clean_rc=$?
git apply "$SD/patch.diff"
cargo test --offline --all-features --test zz_seed_demo > "$SD/confirm_demo_patched.log" 2>&1; patched_rc=$?
rm -f tests/zz_seed_demo.rs
cargo test --workspace --no-fail-fast --offline > "$SD/confirm_suite_patched.log" 2>&1; suite_rc=$?
git checkout -q -- .
echo "RESULT demo_clean_rc=$clean_rc demo_patched_rc=$patched_rc suite_patched_rc=$suite_rc"
