import Cuke.Lemmas.SchedSpin
import Cuke.Model.AttemptShape
/-!
# C02 — Each scenario attempt emits the canonical, declaration-ordered event sequence
Model: `Cuke.runAttempt` (Cuke/Model/Attempt.lean). The theorems hold for every scenario shape,
every outcome assignment (panics, no-match, ambiguity, World-creation failure) and hook presence.
Interleaving with other scenarios does not enter: an attempt's events are produced by its own
future only (tied to the code by comparing per-attempt projections of interleaved real runs).
-/
namespace Cuke.C02
open Cuke List

/-! ## A declarative description of the canonical sequence -/

/-- Result of the step at position `idx` of the declaration-ordered list, as a function of the
    outcomes only. A World is missing only at position 0 without a before hook. -/
def effRes (sp : AttemptSpec) (idx : Nat) (bg : Bool) (i : Nat) : StepRes :=
  let initFails := (idx == 0 && !sp.hasBefore) && (sp.init != .ok)
  match outOf sp bg i with
  | .noMatch => .skipped
  | .ambiguous => .failed .ambiguous
  | .pass => if initFails then .failed (.panic (initFailPayload sp.init)) else .passed
  | .panic p => if initFails then .failed (.panic (initFailPayload sp.init)) else .failed (.panic p)

/-- Canonical step events: `(Started, Passed)` pairs for the maximal passing prefix, then — if the
    list is not exhausted — `Started, Skipped`, or `Started` with the Failed event deferred. -/
def specSteps (sp : AttemptSpec) : Nat → List (Bool × Nat) → List ScenEv × Stop
  | _, [] => ([], .none)
  | idx, (bg, i) :: rest =>
    match effRes sp idx bg i with
    | .passed =>
      (stepEv bg i .started :: stepEv bg i .passed :: (specSteps sp (idx + 1) rest).1, (specSteps sp (idx + 1) rest).2)
    | .skipped => ([stepEv bg i .started, stepEv bg i .skipped], .skipped)
    | .failed e => ([stepEv bg i .started], .failed (stepEv bg i (.failed e)))
    | .started => ([], .none)

/-- before-hook part: events emitted at once, and the deferred failure if it failed -/
def specBefore (sp : AttemptSpec) : List ScenEv × Stop :=
  if sp.hasBefore then
    match sp.init with
    | .ok =>
      match sp.before with
      | .pass => ([.hook .before .started, .hook .before .passed], .none)
      | .panic p => ([.hook .before .started], .beforeFailed (.hook .before (.failed p)))
    | o => ([.hook .before .started], .beforeFailed (.hook .before (.failed (initFailPayload o))))
  else ([], .none)

def specAfter (sp : AttemptSpec) : List ScenEv :=
  if sp.hasAfter then
    [.hook .after .started, match sp.after with | .pass => .hook .after .passed | .panic p => .hook .after (.failed p)]
  else []

/-- what stops the attempt: the before hook, else the first non-passing step, else nothing -/
def specStop (sp : AttemptSpec) : Stop :=
  match (specBefore sp).2 with
  | .none => (specSteps sp 0 (stepList sp)).2
  | s => s

/-- the canonical sequence -/
def specEvents (sp : AttemptSpec) : List ScenEv :=
  [.started] ++ (specBefore sp).1 ++
    (match (specBefore sp).2 with | .none => (specSteps sp 0 (stepList sp)).1 | _ => []) ++
    (specStop sp).deferred ++ specAfter sp ++ [.finished]

/-! ## The implementation model produces exactly the canonical sequence -/

theorem runStep_events (sp : AttemptSpec) (wid : Nat) (st : ASt) (bg : Bool) (i : Nat) (idx : Nat)
    (hw : st.world.isSome = (decide (idx > 0) || sp.hasBefore)) :
    (match effRes sp idx bg i with
     | .passed => (runStep sp wid st bg i).1.evs = st.evs ++ [stepEv bg i .started, stepEv bg i .passed] ∧
                  (runStep sp wid st bg i).2 = .none ∧ (runStep sp wid st bg i).1.world.isSome = true
     | .skipped => (runStep sp wid st bg i).1.evs = st.evs ++ [stepEv bg i .started, stepEv bg i .skipped] ∧
                  (runStep sp wid st bg i).2 = .skipped
     | .failed e => (runStep sp wid st bg i).1.evs = st.evs ++ [stepEv bg i .started] ∧
                  (runStep sp wid st bg i).2 = .failed (stepEv bg i (.failed e))
     | .started => False) := by
  unfold effRes runStep
  cases ho : outOf sp bg i with
  | noMatch => simp
  | ambiguous => simp
  | pass =>
    cases hworld : st.world with
    | some w =>
      have : (decide (idx > 0) || sp.hasBefore) = true := by rw [← hw, hworld]; rfl
      have hnf : ((idx == 0 && !sp.hasBefore) && (sp.init != .ok)) = false := by
        cases hb : sp.hasBefore <;> simp_all
        omega
      simp [hnf, ensureWorld, hworld, callStep]
    | none =>
      have : (decide (idx > 0) || sp.hasBefore) = false := by rw [← hw, hworld]; rfl
      have h0 : idx = 0 := by simp at this; omega
      have hb : sp.hasBefore = false := by simp at this; exact this.2
      cases hi : sp.init <;> simp [h0, hb, hi, ensureWorld, hworld, callStep]
  | panic p =>
    cases hworld : st.world with
    | some w =>
      have : (decide (idx > 0) || sp.hasBefore) = true := by rw [← hw, hworld]; rfl
      have hnf : ((idx == 0 && !sp.hasBefore) && (sp.init != .ok)) = false := by
        cases hb : sp.hasBefore <;> simp_all
        omega
      simp [hnf, ensureWorld, hworld, callStep]
    | none =>
      have : (decide (idx > 0) || sp.hasBefore) = false := by rw [← hw, hworld]; rfl
      have h0 : idx = 0 := by simp at this; omega
      have hb : sp.hasBefore = false := by simp at this; exact this.2
      cases hi : sp.init <;> simp [h0, hb, hi, ensureWorld, hworld, callStep]

theorem runSteps_events (sp : AttemptSpec) (wid : Nat) (l : List (Bool × Nat)) (st : ASt) (idx : Nat)
    (hw : st.world.isSome = (decide (idx > 0) || sp.hasBefore)) :
    (runSteps sp wid l st).1.evs = st.evs ++ (specSteps sp idx l).1 ∧
    (runSteps sp wid l st).2 = (specSteps sp idx l).2 := by
  induction l generalizing st idx with
  | nil => simp [runSteps, specSteps]
  | cons s rest ih =>
    obtain ⟨bg, i⟩ := s
    have h := runStep_events sp wid st bg i idx hw
    simp only [runSteps, specSteps]
    cases he : effRes sp idx bg i with
    | started => simp [he] at h
    | passed =>
      simp only [he] at h
      obtain ⟨h1, h2, h3⟩ := h
      generalize hr : runStep sp wid st bg i = r at h1 h2 h3
      obtain ⟨st', stop⟩ := r
      simp only at h1 h2 h3
      subst h2
      simp only
      have := ih st' (idx + 1) (by simp [h3])
      rw [this.1, this.2, h1]
      simp
    | skipped =>
      simp only [he] at h
      obtain ⟨h1, h2⟩ := h
      generalize hr : runStep sp wid st bg i = r at h1 h2
      obtain ⟨st', stop⟩ := r
      simp only at h1 h2
      subst h2
      simp [h1]
    | failed e =>
      simp only [he] at h
      obtain ⟨h1, h2⟩ := h
      generalize hr : runStep sp wid st bg i = r at h1 h2
      obtain ⟨st', stop⟩ := r
      simp only at h1 h2
      subst h2
      simp [h1]

theorem runBefore_events (sp : AttemptSpec) (wid : Nat) (st : ASt) (hw : st.world = none) :
    (runBefore sp wid st).1.evs = st.evs ++ (specBefore sp).1 ∧ (runBefore sp wid st).2 = (specBefore sp).2 ∧
    ((specBefore sp).2 = .none → (runBefore sp wid st).1.world.isSome = sp.hasBefore) := by
  unfold runBefore specBefore
  cases hb : sp.hasBefore
  · simp [hw]
  · cases hi : sp.init <;> cases hbf : sp.before <;> simp

/-- **Canonical sequence.** For every spec (shape + outcome assignment), the attempt's events are
    exactly `specEvents`: Started; Before-hook Started and its result; for background steps then own
    steps in declaration order a Started followed by Passed, stopping at the first Skipped / Failed;
    the Failed event (of a step or of the before hook) deferred until after the after hook ran and
    emitted right before the after-hook events; After-hook Started and its result; Finished. -/
theorem runBody_spec (sp : AttemptSpec) (wid : Nat) :
    (runBody sp wid).1.evs = [.started] ++ (specBefore sp).1 ++
      (match (specBefore sp).2 with | .none => (specSteps sp 0 (stepList sp)).1 | _ => []) ∧
    (runBody sp wid).2 = specStop sp := by
  obtain ⟨hb1, hb2, hb3⟩ := runBefore_events sp wid st0 rfl
  unfold runBody specStop
  rw [hb2]
  cases h : (specBefore sp).2 with
  | none =>
    have hs := runSteps_events sp wid (stepList sp) (runBefore sp wid st0).1 0 (by rw [hb3 h]; simp)
    simp only
    rw [hs.1, hs.2, hb1]
    simp [st0]
  | skipped => simp only [hb1]; simp [st0]
  | failed e => simp only [hb1]; simp [st0]
  | beforeFailed e => simp only [hb1]; simp [st0]

theorem afterEvents_eq (sp : AttemptSpec) : afterEvents sp = specAfter sp := rfl

theorem runAttempt_canonical (sp : AttemptSpec) (wid : Nat) :
    (runAttempt sp wid).events = specEvents sp := by
  obtain ⟨h1, h2⟩ := runBody_spec sp wid
  simp only [runAttempt, specEvents, h1, h2, afterEvents_eq]

/-! ## Consequences, in the property's words -/

/-- starts with Started, ends with Finished, and Finished occurs nowhere else: no event after it -/
theorem started_first_finished_last (sp : AttemptSpec) (wid : Nat) :
    ∃ mid, (runAttempt sp wid).events = .started :: mid ++ [.finished] ∧ ScenEv.finished ∉ mid ∧ ScenEv.started ∉ mid := by
  rw [runAttempt_canonical]
  refine ⟨(specBefore sp).1 ++ (match (specBefore sp).2 with | .none => (specSteps sp 0 (stepList sp)).1 | _ => []) ++
    (specStop sp).deferred ++ specAfter sp, by simp [specEvents], ?_, ?_⟩
  all_goals
    have hsteps : ∀ idx l, ScenEv.finished ∉ (specSteps sp idx l).1 ∧ ScenEv.started ∉ (specSteps sp idx l).1 ∧
        ScenEv.finished ∉ (specSteps sp idx l).2.deferred ∧ ScenEv.started ∉ (specSteps sp idx l).2.deferred := by
      intro idx l
      induction l generalizing idx with
      | nil => simp [specSteps, Stop.deferred]
      | cons s rest ih =>
        obtain ⟨bg, i⟩ := s
        simp only [specSteps]
        have ih' := ih (idx + 1)
        cases effRes sp idx bg i <;> cases bg <;> simp [stepEv, Stop.deferred, ih']
        all_goals (first | exact ⟨ih'.2.2.1, ih'.2.2.2⟩ | skip)
    have hbefore : ScenEv.finished ∉ (specBefore sp).1 ∧ ScenEv.started ∉ (specBefore sp).1 ∧
        ScenEv.finished ∉ (specBefore sp).2.deferred ∧ ScenEv.started ∉ (specBefore sp).2.deferred := by
      unfold specBefore
      cases sp.hasBefore <;> cases sp.init <;> cases sp.before <;> simp [Stop.deferred]
    have hafter : ScenEv.finished ∉ specAfter sp ∧ ScenEv.started ∉ specAfter sp := by
      unfold specAfter; cases sp.hasAfter <;> cases sp.after <;> simp
    simp only [mem_append, not_or]
    refine ⟨⟨⟨?_, ?_⟩, ?_⟩, ?_⟩
    · first | exact hbefore.1 | exact hbefore.2.1
    · cases h : (specBefore sp).2 with
      | none => first | exact (hsteps 0 _).1 | exact (hsteps 0 _).2.1
      | _ => simp
    · unfold specStop
      cases h : (specBefore sp).2 with
      | none => first | exact (hsteps 0 _).2.2.1 | exact (hsteps 0 _).2.2.2
      | skipped => simp [Stop.deferred]
      | failed e => have := hbefore; rw [h] at this; first | exact this.2.2.1 | exact this.2.2.2
      | beforeFailed e => have := hbefore; rw [h] at this; first | exact this.2.2.1 | exact this.2.2.2
    · first | exact hafter.1 | exact hafter.2

/-- outcome ↦ event kind: no matching definition ⇒ Skipped; several ⇒ Failed(ambiguous);
    panic ⇒ Failed(payload); World cannot be created ⇒ Failed(payload of the creation failure). -/
theorem stepOutcome_event (sp : AttemptSpec) (idx : Nat) (bg : Bool) (i : Nat) :
    (outOf sp bg i = .noMatch → effRes sp idx bg i = .skipped) ∧
    (outOf sp bg i = .ambiguous → effRes sp idx bg i = .failed .ambiguous) ∧
    (∀ p, outOf sp bg i = .panic p → (idx > 0 ∨ sp.hasBefore = true ∨ sp.init = .ok) →
      effRes sp idx bg i = .failed (.panic p)) ∧
    (outOf sp bg i = .pass → (idx > 0 ∨ sp.hasBefore = true ∨ sp.init = .ok) → effRes sp idx bg i = .passed) ∧
    ((outOf sp bg i = .pass ∨ ∃ p, outOf sp bg i = .panic p) → idx = 0 → sp.hasBefore = false → sp.init ≠ .ok →
      effRes sp idx bg i = .failed (.panic (initFailPayload sp.init))) := by
  unfold effRes
  refine ⟨fun h => by simp [h], fun h => by simp [h], ?_, ?_, ?_⟩
  · intro p h hc
    rcases hc with hc | hc | hc
    · have : (idx == 0) = false := by simp; omega
      simp [h, this]
    · simp [h, hc]
    · simp [h, hc]
  · intro h hc
    rcases hc with hc | hc | hc
    · have : (idx == 0) = false := by simp; omega
      simp [h, this]
    · simp [h, hc]
    · simp [h, hc]
  · intro h h0 hb hi
    have hi' : (sp.init != .ok) = true := by simpa using hi
    rcases h with h | ⟨p, h⟩ <;> simp [h, h0, hb, hi']

/-- The failure event (of a step or of the before hook) always precedes the after-hook events, and
    everything before it is free of failures: the sequence is
    `non-failing events ++ [failure]? ++ after-hook events ++ [Finished]`. -/
theorem failure_before_after_hook (sp : AttemptSpec) (wid : Nat) :
    ∃ pre, (runAttempt sp wid).events = pre ++ (specStop sp).deferred ++ specAfter sp ++ [.finished] ∧
      (∀ e ∈ pre, e.isStepFailed = false ∧ e.isHookFailed = false) := by
  rw [runAttempt_canonical]
  refine ⟨[.started] ++ (specBefore sp).1 ++ (match (specBefore sp).2 with | .none => (specSteps sp 0 (stepList sp)).1 | _ => []),
    by simp [specEvents], ?_⟩
  have hsteps : ∀ idx l, ∀ e ∈ (specSteps sp idx l).1, e.isStepFailed = false ∧ e.isHookFailed = false := by
    intro idx l
    induction l generalizing idx with
    | nil => simp [specSteps]
    | cons s rest ih =>
      obtain ⟨bg, i⟩ := s
      simp only [specSteps]
      cases effRes sp idx bg i <;> cases bg <;>
        simp [stepEv, ScenEv.isStepFailed, ScenEv.stepRes?, StepRes.isFailed, ScenEv.isHookFailed] <;>
        exact ih _
  intro e he
  simp only [mem_append, mem_singleton] at he
  rcases he with (rfl | he) | he
  · simp [ScenEv.isStepFailed, ScenEv.stepRes?, ScenEv.isHookFailed]
  · have hbf : ∀ x ∈ (specBefore sp).1, x.isStepFailed = false ∧ x.isHookFailed = false := by
      unfold specBefore
      cases sp.hasBefore <;> cases sp.init <;> cases sp.before <;>
        simp [ScenEv.isStepFailed, ScenEv.stepRes?, ScenEv.isHookFailed, HookRes.isFailed]
    exact hbf e he
  · cases h : (specBefore sp).2 <;> simp [h] at he
    exact hsteps 0 _ e he

/-- After-hook events are present iff an after hook is set. -/
theorem after_hook_events (sp : AttemptSpec) :
    (sp.hasAfter = false → specAfter sp = []) ∧
    (sp.hasAfter = true → ∃ r, specAfter sp = [.hook .after .started, .hook .after r] ∧
      (r = .passed ↔ sp.after = .pass)) := by
  unfold specAfter
  constructor
  · intro h; simp [h]
  · intro h; simp only [h, if_true]
    cases sp.after <;> simp

/-- Every event of the attempt carries the same retry counter (the runner wraps all of them with
    the one `retry_num`). -/
def attemptEvents (k : ScenKey) (ret : Option Retries) (sp : AttemptSpec) (wid : Nat) : List Ev :=
  (runAttempt sp wid).events.map (Ev.scen k ret)

theorem runAttempt_retries_const (k : ScenKey) (ret : Option Retries) (sp : AttemptSpec) (wid : Nat) :
    ∀ e ∈ attemptEvents k ret sp wid, ∃ se, e = .scen k ret se := by
  intro e he
  simp only [attemptEvents, mem_map] at he
  obtain ⟨se, _, rfl⟩ := he
  exact ⟨se, rfl⟩


/-! ## The grammar recogniser used as a monitor on real concurrent runs accepts every model attempt -/

theorem effRes_ne_started (sp : AttemptSpec) (idx : Nat) (bg : Bool) (i : Nat) : effRes sp idx bg i ≠ .started := by
  unfold effRes
  cases outOf sp bg i <;> simp <;> split <;> simp

theorem stepResultOf_passed (bg : Bool) (i : Nat) : stepResultOf bg i (stepEv bg i .passed) = some true := by
  simp [stepResultOf]

theorem stepResultOf_skipped (bg : Bool) (i : Nat) : stepResultOf bg i (stepEv bg i .skipped) = some false := by
  cases bg <;> simp [stepResultOf, stepEv]

theorem stepResultOf_failed (bg : Bool) (i : Nat) (e : StepErr) :
    stepResultOf bg i (stepEv bg i (.failed e)) = some false := by
  cases bg <;> simp [stepResultOf, stepEv]

/-- the step part of the canonical sequence (with the deferred failure) is consumed exactly -/
theorem stepsShape_spec (sp : AttemptSpec) (l : List (Bool × Nat)) (idx : Nat) (rest : List ScenEv) :
    stepsShape l ((specSteps sp idx l).1 ++ (specSteps sp idx l).2.deferred ++ rest) = some rest := by
  induction l generalizing idx with
  | nil => simp [specSteps, stepsShape, Stop.deferred]
  | cons s tl ih =>
    obtain ⟨bg, i⟩ := s
    simp only [specSteps]
    cases h : effRes sp idx bg i with
    | started => exact absurd h (effRes_ne_started sp idx bg i)
    | passed =>
      simp only [cons_append, stepsShape, if_true, stepResultOf_passed]
      exact ih (idx + 1)
    | skipped =>
      simp [stepsShape, stepResultOf_skipped, Stop.deferred]
    | failed e =>
      simp [stepsShape, stepResultOf_failed, Stop.deferred]

theorem tailShape_spec (sp : AttemptSpec) : tailShape (specAfter sp ++ [.finished]) = true := by
  unfold specAfter
  cases sp.hasAfter <;> simp [tailShape]
  cases sp.after <;> simp [tailShape]

/-- **Every attempt of the model is accepted by the grammar monitor** (so a real attempt the monitor
    rejects is not an attempt of the model). -/
theorem runAttempt_shape (sp : AttemptSpec) (wid : Nat) :
    shapeOk sp.nbg sp.nsteps (runAttempt sp wid).events = true := by
  rw [runAttempt_canonical]
  have hdecl : declSteps sp.nbg sp.nsteps = stepList sp := rfl
  have hsteps := stepsShape_spec sp (stepList sp) 0 (specAfter sp ++ [.finished])
  unfold specEvents specStop
  cases hb : sp.hasBefore with
  | false =>
    simp only [specBefore, hb, Bool.false_eq_true, if_false, append_nil, List.append_assoc, singleton_append, shapeOk]
    simp only [afterBefore, hdecl]
    simp only [List.append_assoc] at hsteps ⊢
    simp [hsteps, tailShape_spec]
  | true =>
    simp only [specBefore, hb, if_true]
    cases hi : sp.init with
    | ok =>
      cases hbf : sp.before with
      | pass =>
        simp only [List.append_assoc, cons_append, nil_append, shapeOk, afterBefore, hdecl]
        simp only [List.append_assoc] at hsteps
        simp [hsteps, tailShape_spec]
      | panic p =>
        simp [shapeOk, Stop.deferred, tailShape_spec]
    | err p => simp [shapeOk, Stop.deferred, tailShape_spec]
    | panic p => simp [shapeOk, Stop.deferred, tailShape_spec]

/-- the monitor is not vacuous: truncated, re-ordered and over-long sequences are rejected -/
example : shapeOk 0 2 [.started, .step 0 .started] = false := by decide
example : shapeOk 0 2 [.started, .step 0 .started, .step 0 .passed, .finished] = false := by decide
example : shapeOk 0 1 [.started, .step 0 .started, .step 0 (.failed .ambiguous), .step 0 .started, .finished] = false := by decide
example : shapeOk 0 1 [.started, .hook .after .started, .step 0 .started, .step 0 .passed, .hook .after .passed, .finished] = false := by decide
example : shapeOk 0 1 [.started, .hook .before .started, .finished] = false := by decide
example : shapeOk 0 1 [.started, .step 0 .started, .step 0 .passed, .finished, .finished] = false := by decide

/-! ## Non-vacuity: a concrete attempt with background, hooks, a panic in the second own step -/
def exSpec : AttemptSpec :=
  { hasBefore := true, hasAfter := true, nbg := 1, nsteps := 3, init := .ok, before := .pass, after := .panic 7,
    bgOut := fun _ => .pass, stepOut := fun i => if i = 1 then .panic 4 else .pass }

example : (runAttempt exSpec 9).events =
    [.started, .hook .before .started, .hook .before .passed, .bg 0 .started, .bg 0 .passed,
     .step 0 .started, .step 0 .passed, .step 1 .started, .step 1 (.failed (.panic 4)),
     .hook .after .started, .hook .after (.failed 7), .finished] := by decide

/-! ## Whole runs of the scheduler LTS: whose events are sent -/

/-- **Every scenario event that is sent belongs to an attempt in flight** — same scenario, same retry counter,
    dispatched and not yet ended — and is sent while `execute` … is inside its loop with the silent panic hook installed
    (`C10.lts_scenario_event_only_while_silenced`). In every log replayed without a disagreement, of any length: no event
    of an attempt is sent before its dispatch or after its `END`, whatever else interleaves. -/
theorem lts_scenario_event_of_attempt_in_flight (c : SCfg) (pre : List Label) (k : ScenKey) (ret : Option Retries)
    (se : ScenEv) (hc : SchedOrd.Clean0 (accept c (pre ++ [.tx (.scen k ret se)])) = true) :
    ∃ e ∈ (accept c pre).running, e.key = k ∧ e.ret.map (·.retries) = ret := by
  have hstep : accept c (pre ++ [.tx (.scen k ret se)]) = stepL c (accept c pre) (.tx (.scen k ret se)) := by
    simp [accept, List.foldl_append]
  rw [hstep] at hc
  have hc0 := SchedOrd.clean0_step_mono c _ _ hc
  exact SchedSpin.tx_scen_clean c _ k ret se (by simpa [SchedOrd.Clean0] using hc0) (by simpa [SchedOrd.Clean0] using hc)

end Cuke.C02
