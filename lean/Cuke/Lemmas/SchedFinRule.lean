import Cuke.Lemmas.SchedFin
/-!
  C03, the same ORDER clause for RULES: **a rule is finished only after the last event of its scenarios (retries
  included).** The counting invariant of Lemmas/SchedFin.lean, keyed by (feature, rule):

      finished scenarios counted for the rule  +  its scenarios that are waiting or in flight
                                               +  its final notifications still to be drained  =  its scenarios
-/
namespace Cuke.SchedFinR
open Cuke List Cuke.SchedL Cuke.SchedInv Cuke.SchedRetry Cuke.SchedCons Cuke.SchedOrd Cuke.SchedSeq Cuke.SchedFin

set_option linter.unusedSimpArgs false
set_option linter.unusedVariables false

/-- the scenarios of rule `r` of a feature (the rule `nRule` looks at: the first one with that id) -/
def ruleScenIds (ft : SFeat) (r : Nat) : List Nat :=
  ((ft.rules.find? (fun x => x.id == r)).map (fun ru => ru.scens.map (·.id))).getD []

/-- well-formed rules: rule ids are distinct inside a feature; a scenario id belongs to one place only -/
structure WFR (c : SCfg) : Prop where
  ruleIds : ∀ ft ∈ c.feats, ∀ ru ∈ ft.rules, ∀ ru' ∈ ft.rules, ru.id = ru'.id → ru = ru'
  ruleNodup : ∀ ft ∈ c.feats, ∀ ru ∈ ft.rules, (ru.scens.map (·.id)).Nodup
  ruleDisj : ∀ ft ∈ c.feats, ∀ ru ∈ ft.rules, ∀ ru' ∈ ft.rules, ∀ x, x ∈ ru.scens.map (·.id) → x ∈ ru'.scens.map (·.id) → ru = ru'
  topDisj : ∀ ft ∈ c.feats, ∀ ru ∈ ft.rules, ∀ x, x ∈ ft.scens.map (·.id) → x ∉ ru.scens.map (·.id)

structure GhR where
  insd : List Nat := []
  closed : List (Nat × Nat) := []

def cntOfR (b : Brackets) (fr : Nat × Nat) : Nat := cntL b.rules fr

def pendFinalR (s : SState) (fr : Nat × Nat) : Nat :=
  s.notifs.countP (fun nt => nt.2.1.feat == fr.1 && nt.2.1.rule == some fr.2 && !nt.2.2.2)

def liveCntR (s : SState) (ft : SFeat) (r : Nat) : Nat :=
  (ruleScenIds ft r).countP (fun x => decide (x ∈ Qs s ∨ x ∈ Rs s))

/-- the rule whose last scenario the next drained notification counts -/
def closesR (c : SCfg) (s : SState) : Option (Nat × Nat) :=
  match s.notifs with
  | (_, k, _, r) :: _ =>
    if r then none else
    match k.rule with
    | none => none
    | some ru =>
      match s.br.rules.find? (fun e => e.1 == (k.feat, ru)) with
      | some e => if c.nRule k.feat ru == e.2 + 1 then some (k.feat, ru) else none
      | none => none
  | [] => none

def gstepR (c : SCfg) (n : NState) (g : GhR) : Label → GhR
  | .ins _ _ _ => match n.base.pendingFeat with | some f => { g with insd := f :: g.insd } | none => g
  | .notif _ _ _ => match closesR c n.base with | some fr => { g with closed := fr :: g.closed } | none => g
  | _ => g

/-! ## basic facts -/

theorem ruleScenIds_spec (ft : SFeat) (r x : Nat) (hx : x ∈ ruleScenIds ft r) :
    ∃ ru ∈ ft.rules, ru.id = r ∧ x ∈ ru.scens.map (·.id) ∧ ruleScenIds ft r = ru.scens.map (·.id) := by
  unfold ruleScenIds at hx ⊢
  cases hfd : ft.rules.find? (fun x => x.id == r) with
  | none => simp [hfd] at hx
  | some ru =>
    simp only [hfd, Option.map_some, Option.getD_some] at hx ⊢
    have hid := find?_some hfd
    exact ⟨ru, mem_of_find?_eq_some hfd, by simpa using hid, hx, rfl⟩

theorem ruleScenIds_sub (ft : SFeat) (r x : Nat) (hx : x ∈ ruleScenIds ft r) : x ∈ scenIds ft := by
  obtain ⟨ru, hru, _, hxr, _⟩ := ruleScenIds_spec ft r x hx
  simp only [mem_map] at hxr
  obtain ⟨sc, hsc, rfl⟩ := hxr
  simp only [scenIds, featScenarios, mem_map, mem_append, mem_flatMap]
  exact ⟨(some ru, sc), Or.inr ⟨ru, hru, sc, hsc, rfl⟩, rfl⟩

theorem ruleScenIds_nodup (c : SCfg) (hwr : WFR c) (ft : SFeat) (hft : ft ∈ c.feats) (r : Nat) : (ruleScenIds ft r).Nodup := by
  unfold ruleScenIds
  cases hfd : ft.rules.find? (fun x => x.id == r) with
  | none => simp
  | some ru => simpa using hwr.ruleNodup ft hft ru (mem_of_find?_eq_some hfd)

theorem ruleScenIds_of_mem (c : SCfg) (hwr : WFR c) (ft : SFeat) (hft : ft ∈ c.feats) (ru : SRule) (hru : ru ∈ ft.rules) :
    ruleScenIds ft ru.id = ru.scens.map (·.id) := by
  unfold ruleScenIds
  cases hfd : ft.rules.find? (fun x => x.id == ru.id) with
  | none =>
    exfalso
    rw [find?_eq_none] at hfd
    exact hfd ru hru (by simp)
  | some ru' =>
    have hid := find?_some hfd
    have : ru' = ru := hwr.ruleIds ft hft ru' (mem_of_find?_eq_some hfd) ru hru (by simpa using hid)
    simp [this]

theorem nRule_eq (c : SCfg) (f r : Nat) (ft : SFeat) (h : c.feat? f = some ft) : c.nRule f r = (ruleScenIds ft r).length := by
  unfold SCfg.nRule ruleScenIds
  simp only [h]
  cases ft.rules.find? (fun x => x.id == r) <;> simp

theorem nRule_pos (c : SCfg) (f r k : Nat) (h : (c.nRule f r == k + 1) = true) :
    ∃ ft, c.feat? f = some ft ∧ (ruleScenIds ft r).length = k + 1 := by
  cases hfd : c.feat? f with
  | none => simp [SCfg.nRule, hfd] at h
  | some ft =>
    refine ⟨ft, rfl, ?_⟩
    rw [← nRule_eq c f r ft hfd]
    simpa using h

theorem liveCntR_congr (s s' : SState) (ft : SFeat) (r : Nat)
    (h : ∀ x ∈ ruleScenIds ft r, (x ∈ Qs s' ∨ x ∈ Rs s') ↔ (x ∈ Qs s ∨ x ∈ Rs s)) : liveCntR s' ft r = liveCntR s ft r := by
  unfold liveCntR
  apply countP_congr
  intro x hx
  simp only [decide_eq_true_eq]
  exact h x hx

theorem liveCntR_zero (s : SState) (ft : SFeat) (r : Nat) :
    liveCntR s ft r = 0 ↔ ∀ x ∈ ruleScenIds ft r, ¬ (x ∈ Qs s ∨ x ∈ Rs s) := by
  unfold liveCntR
  rw [countP_eq_zero]
  simp

theorem liveCntR_all (s : SState) (ft : SFeat) (r : Nat) (h : ∀ x ∈ ruleScenIds ft r, x ∈ Qs s ∨ x ∈ Rs s) :
    liveCntR s ft r = (ruleScenIds ft r).length := by
  unfold liveCntR
  rw [countP_eq_length]
  intro x hx
  simpa using h x hx

theorem liveCntR_of_same (s s' : SState) (hq : ∀ x, x ∈ Qs s' ∨ x ∈ Rs s' ↔ x ∈ Qs s ∨ x ∈ Rs s) (ft : SFeat) (r : Nat) :
    liveCntR s' ft r = liveCntR s ft r := liveCntR_congr s s' ft r (fun x _ => hq x)

theorem pendFinalR_of_same (s s' : SState) (h : s'.notifs = s.notifs) (fr : Nat × Nat) : pendFinalR s' fr = pendFinalR s fr := by
  simp [pendFinalR, h]

/-! ## the rule counters -/

theorem cntOfR_start (b : Brackets) (batch : List Entry) (fr : Nat × Nat) :
    cntOfR (startScenarios b batch).1 fr = cntOfR b fr := by
  unfold startScenarios
  simp only
  unfold cntOfR
  exact cntL_startFold fr _ _

theorem scenFin_rules (b : Brackets) (k : ScenKey) (nR nF : Nat) (b' : Brackets) (evs : List Ev)
    (h : scenarioFinished b k false nR nF = some (b', evs)) :
    (k.rule = none → b'.rules = b.rules) ∧
    (∀ ru, k.rule = some ru → ∃ e, b.rules.find? (fun x => x.1 == (k.feat, ru)) = some e ∧
      ((nR == e.2 + 1) = true → b'.rules = b.rules.filter (fun x => !(x.1 == (k.feat, ru))) ∧ Ev.ruleFinished k.feat ru ∈ evs) ∧
      ((nR == e.2 + 1) = false → b'.rules = b.rules.map (fun x => if x.1 == (k.feat, ru) then (x.1, e.2 + 1) else x))) := by
  unfold scenarioFinished at h
  simp only [Bool.false_eq_true, if_false] at h
  cases hk : k.rule with
  | none =>
    simp only [hk] at h
    refine ⟨fun _ => ?_, fun ru hru => (by cases hru)⟩
    cases hfd : b.feats.find? (fun e => e.1 == k.feat) with
    | none => simp [hfd] at h
    | some e =>
      simp only [hfd] at h
      split at h <;> (simp only [Option.some.injEq, Prod.mk.injEq] at h; rw [← h.1])
  | some ru =>
    simp only [hk] at h
    refine ⟨fun hh => (by cases hh), fun ru' hru' => ?_⟩
    have : ru' = ru := (Option.some.inj hru').symm
    subst this
    cases hfr : b.rules.find? (fun e => e.1 == (k.feat, ru')) with
    | none => simp [hfr] at h
    | some e =>
      obtain ⟨e1, e2⟩ := e
      simp only [hfr] at h
      refine ⟨(e1, e2), rfl, ?_, ?_⟩
      · intro hc
        simp only [hc, if_true] at h
        cases hfd : b.feats.find? (fun e => e.1 == k.feat) with
        | none => simp [hfd] at h
        | some e' =>
          simp only [hfd] at h
          split at h <;> (simp only [Option.some.injEq, Prod.mk.injEq] at h; obtain ⟨hb, hev⟩ := h; subst hb hev; exact ⟨rfl, by simp⟩)
      · intro hc
        simp only [hc, Bool.false_eq_true, if_false] at h
        cases hfd : b.feats.find? (fun e => e.1 == k.feat) with
        | none => simp [hfd] at h
        | some e' =>
          simp only [hfd] at h
          split at h <;> (simp only [Option.some.injEq, Prod.mk.injEq] at h; obtain ⟨hb, _⟩ := h; subst hb; rfl)

theorem cntOfR_scenFin (b : Brackets) (k : ScenKey) (nR nF : Nat) (b' : Brackets) (evs : List Ev)
    (h : scenarioFinished b k false nR nF = some (b', evs)) (fr : Nat × Nat) :
    (k.rule = none → cntOfR b' fr = cntOfR b fr) ∧
    (∀ ru, k.rule = some ru → ∃ e, b.rules.find? (fun x => x.1 == (k.feat, ru)) = some e ∧
      cntOfR b' fr = if fr = (k.feat, ru) then (if nR == e.2 + 1 then 0 else e.2 + 1) else cntOfR b fr) := by
  obtain ⟨h0, h1⟩ := scenFin_rules b k nR nF b' evs h
  refine ⟨fun hk => by unfold cntOfR; rw [h0 hk], fun ru hru => ?_⟩
  obtain ⟨e, hfd, ha, hb⟩ := h1 ru hru
  refine ⟨e, hfd, ?_⟩
  unfold cntOfR
  cases hc : (nR == e.2 + 1) with
  | true =>
    rw [(ha hc).1, cntL_filter]
    by_cases hfk : fr = (k.feat, ru) <;> simp [hfk]
  | false =>
    rw [hb hc, cntL_map _ _ _ _ e hfd rfl]
    by_cases hfk : fr = (k.feat, ru) <;> simp [hfk]

/-! ## the invariant -/

structure RFInv (c : SCfg) (n : NState) (g : GhR) : Prop where
  closedLive : ∀ f ft r, c.feat? f = some ft → (f, r) ∈ g.closed → liveCntR n.base ft r = 0
  closedPend : ∀ fr, fr ∈ g.closed → pendFinalR n.base fr = 0
  count : ∀ f ft r, c.feat? f = some ft → f ∈ g.insd → (f, r) ∉ g.closed →
    cntOfR n.base.br (f, r) + liveCntR n.base ft r + pendFinalR n.base (f, r) = (ruleScenIds ft r).length
  fresh : ∀ f, f ∉ g.insd → ∀ r, cntOfR n.base.br (f, r) = 0 ∧ pendFinalR n.base (f, r) = 0 ∧
    ∀ ft, c.feat? f = some ft → liveCntR n.base ft r = 0
  insdDel : ∀ f ∈ g.insd, f ∈ n.delivered ∧ n.base.pendingFeat ≠ some f
  closedIns : ∀ fr ∈ g.closed, fr.1 ∈ g.insd

theorem rfinv_init (c : SCfg) : RFInv c {} {} := by
  refine ⟨?_, ?_, ?_, ?_, ?_, ?_⟩
  · intro f ft r _ h; cases h
  · intro fr h; cases h
  · intro f ft r _ h; cases h
  · intro f _ r
    refine ⟨rfl, rfl, fun ft _ => ?_⟩
    rw [liveCntR_zero]
    intro x _
    simp [Qs, Rs, scens, Queues.empty]
  · intro f h; cases h
  · intro fr h; cases h

/-- every entry belongs to a scenario of its feature, and to its rule if it has one (to no rule otherwise) -/
theorem ownerR (c : SCfg) (hwf : WF c) (hwr : WFR c) (s : SState) (hr : RInv c s) (e : Entry) (he : e ∈ ents s) :
    ∃ ft, c.feat? e.key.feat = some ft ∧ e.key.scen ∈ scenIds ft ∧
      (∀ r, e.key.rule = some r → e.key.scen ∈ ruleScenIds ft r) ∧
      (e.key.rule = none → ∀ r, e.key.scen ∉ ruleScenIds ft r) := by
  obtain ⟨e0, ⟨ft0, hft0, hmem⟩, hk, _, _⟩ := hr e he
  simp only [newEntries, mem_map] at hmem
  obtain ⟨rs, hrs, rfl⟩ := hmem
  have hcan : c.feat? ft0.id = some ft0 := by
    cases hfd : c.feat? ft0.id with
    | none =>
      exfalso
      unfold SCfg.feat? at hfd
      rw [find?_eq_none] at hfd
      exact hfd ft0 hft0 (by simp)
    | some ft1 =>
      obtain ⟨hm1, hid1⟩ := feat?_spec c _ ft1 hfd
      rw [hwf.ids ft1 hm1 ft0 hft0 hid1]
  refine ⟨ft0, by rw [hk]; exact hcan, ?_, ?_, ?_⟩
  · rw [hk]; simp only [scenIds, mem_map]; exact ⟨rs, hrs, rfl⟩
  · intro r hrule
    rw [hk] at hrule ⊢
    simp only [featScenarios, mem_append, mem_map, mem_flatMap] at hrs
    rcases hrs with ⟨sc, hsc, rfl⟩ | ⟨ru, hru, sc, hsc, rfl⟩
    · simp at hrule
    · simp only [Option.map_some, Option.some.injEq] at hrule
      rw [← hrule, ruleScenIds_of_mem c hwr ft0 hft0 ru hru]
      simp only [mem_map]
      exact ⟨sc, hsc, rfl⟩
  · intro hrule r hx
    rw [hk] at hrule hx
    simp only [featScenarios, mem_append, mem_map, mem_flatMap] at hrs
    rcases hrs with ⟨sc, hsc, rfl⟩ | ⟨ru, hru, sc, hsc, rfl⟩
    · obtain ⟨ru, hru, _, hxr, _⟩ := ruleScenIds_spec ft0 r _ hx
      exact hwr.topDisj ft0 hft0 ru hru _ (by simp only [mem_map]; exact ⟨sc, hsc, rfl⟩) hxr
    · simp at hrule

/-- a scenario id lies in at most one (feature, rule) -/
theorem rule_unique (c : SCfg) (hwf : WF c) (hwr : WFR c) (f f' : Nat) (ft ft' : SFeat) (r r' x : Nat)
    (h : c.feat? f = some ft) (h' : c.feat? f' = some ft') (hx : x ∈ ruleScenIds ft r) (hx' : x ∈ ruleScenIds ft' r') :
    f = f' ∧ r = r' := by
  have hf : f = f' := scenIds_feat? c hwf f f' ft ft' h h' x (ruleScenIds_sub ft r x hx) (ruleScenIds_sub ft' r' x hx')
  subst hf
  have : ft' = ft := by rw [h] at h'; exact (Option.some.inj h').symm
  subst this
  refine ⟨rfl, ?_⟩
  obtain ⟨ru, hru, hid, hxr, _⟩ := ruleScenIds_spec ft' r x hx
  obtain ⟨ru', hru', hid', hxr', _⟩ := ruleScenIds_spec ft' r' x hx'
  have := hwr.ruleDisj ft' (feat?_spec c f ft' h).1 ru hru ru' hru' x hxr hxr'
  rw [← hid, ← hid', this]

theorem rfinv_frame (c : SCfg) (n n' : NState) (g : GhR) (h : RFInv c n g)
    (hl : ∀ ft r, liveCntR n'.base ft r = liveCntR n.base ft r) (hcn : ∀ fr, cntOfR n'.base.br fr = cntOfR n.base.br fr)
    (hp : ∀ fr, pendFinalR n'.base fr = pendFinalR n.base fr)
    (hdel : ∀ f ∈ g.insd, f ∈ n'.delivered ∧ n'.base.pendingFeat ≠ some f) : RFInv c n' g := by
  refine ⟨?_, ?_, ?_, ?_, hdel, h.closedIns⟩
  · intro f ft r hft hc; rw [hl]; exact h.closedLive f ft r hft hc
  · intro fr hc; rw [hp]; exact h.closedPend fr hc
  · intro f ft r hft hi hc; rw [hcn, hl, hp]; exact h.count f ft r hft hi hc
  · intro f hi r
    obtain ⟨a, b, d⟩ := h.fresh f hi r
    exact ⟨by rw [hcn]; exact a, by rw [hp]; exact b, fun ft hft => by rw [hl]; exact d ft hft⟩

theorem rfinv_simple (c : SCfg) (n n' : NState) (g : GhR) (h : RFInv c n g) (hc : SameCore n.base n'.base)
    (hbn : SameBN n.base n'.base) (hd : n'.delivered = n.delivered) : RFInv c n' g := by
  obtain ⟨h1, h2, h3, h4⟩ := hc
  have hq : Qs n'.base = Qs n.base := by simp [Qs, h1, h2]
  have hR : Rs n'.base = Rs n.base := by simp [Rs, h3]
  refine rfinv_frame c n n' g h (fun ft r => liveCntR_of_same _ _ (by rw [hq, hR]; exact fun _ => Iff.rfl) ft r)
    (fun fr => by rw [hbn.1]) (fun fr => pendFinalR_of_same _ _ hbn.2 fr) ?_
  rw [hd, h4]; exact h.insdDel

/-! ## label by label -/

theorem cntOfR_get2 (c : SCfg) (s : SState) (t : Nat) (sl : Slots) (got : List Nat) (b : Bool) (r : Nat) (fr : Nat × Nat) :
    cntOfR (stepL c s (.get2 t sl got b r)).br fr = cntOfR s.br fr := by
  rw [get2_eq]
  have hg : ∀ (x : SState), (x.checkExpectDone "at loop top").br = x.br := by
    intro x; unfold SState.checkExpectDone; split <;> simp [SState.note]
  have ha : (get2a s).br = s.br := by
    simp only [get2a, SState.inPhase]
    repeat' split
    all_goals simp [SState.note]
  have hc : (get2c s).br = s.br := by simp only [get2c]; rw [hg]; exact ha
  have hd : (get2d s sl).br = s.br := by unfold get2d; split <;> simp [SState.note, hc]
  have he : (get2e s sl r).br = s.br := by unfold get2e; split <;> simp [SState.note, hd]
  unfold get2R
  simp only
  split
  · split <;> simp only [SState.note, cntOfR_start, he]
  · simp only [SState.note, cntOfR_start, he]

theorem pOk_rfinv (c : SCfg) (n : NState) (f : Nat) (g : GhR) (h : RFInv c n g)
    (hc : NClean (stepN c n (.pOk f)) = true) : RFInv c (stepN c n (.pOk f)) g := by
  obtain ⟨h1, h2, h3, h4⟩ := pOk_core c n.base f
  have hb := stepN_base c n (.pOk f)
  have hnew : f ∉ n.delivered ∧ (stepN c n (.pOk f)).delivered = f :: n.delivered := by
    simp only [NClean, Bool.and_eq_true] at hc
    have hn := hc.2
    unfold stepN at hn ⊢
    simp only at hn ⊢
    split at hn
    · simp [NState.note] at hn
    · rename_i hcont
      split
      · rename_i h'; exact absurd h' hcont
      · exact ⟨by simpa using hcont, rfl⟩
  obtain ⟨hf, hd⟩ := hnew
  have hq : Qs (stepN c n (.pOk f)).base = Qs n.base := by rw [hb]; simp [Qs, h1, h2]
  have hR : Rs (stepN c n (.pOk f)).base = Rs n.base := by rw [hb]; simp [Rs, h3]
  have hbn := bn_pOk c n.base f
  refine rfinv_frame c n _ g h (fun ft r => liveCntR_of_same _ _ (by rw [hq, hR]; exact fun _ => Iff.rfl) ft r)
    (fun fr => by rw [hb, hbn.1]) (fun fr => by rw [hb]; exact pendFinalR_of_same _ _ hbn.2 fr) ?_
  intro f' hf'
  obtain ⟨d1, d2⟩ := h.insdDel f' hf'
  rw [hd, hb]
  refine ⟨mem_cons_of_mem _ d1, ?_⟩
  rcases h4 with h4 | h4
  · rw [h4]; exact d2
  · rw [h4]
    intro heq
    have : f = f' := by simpa using heq
    exact hf (this ▸ d1)

theorem get2_rfinv (c : SCfg) (n : NState) (t : Nat) (sl : Slots) (got : List Nat) (b : Bool) (r : Nat) (g : GhR)
    (gc : List Nat × List Nat) (h : RFInv c n g) (hci : CInv n.base gc)
    (hc : NClean (stepN c n (.get2 t sl got b r)) = true) : RFInv c (stepN c n (.get2 t sl got b r)) g := by
  have hb := stepN_base c n (.get2 t sl got b r)
  simp only [NClean, Bool.and_eq_true] at hc
  have hc0 := hc.1
  rw [hb] at hc0
  obtain ⟨hQ, hR⟩ := get2_QR c n.base t sl got b r gc hci (clean0_all _ hc0).2.2
  obtain ⟨hn, _⟩ := get2_bn c n.base t sl got b r
  refine rfinv_frame c n _ g h (fun ft r' => liveCntR_of_same _ _ (by
      rw [hb, hR]; exact fun x => ⟨fun hx => hx.imp hQ.mem_iff.mp id, fun hx => hx.imp hQ.mem_iff.mpr id⟩) ft r')
    (fun fr => by rw [hb]; exact cntOfR_get2 c n.base t sl got b r fr)
    (fun fr => by rw [hb]; exact pendFinalR_of_same _ _ hn fr) ?_
  have hd : (stepN c n (.get2 t sl got b r)).delivered = n.delivered := rfl
  rw [hd, hb, get2_pending]
  exact h.insdDel

theorem disp_rfinv (c : SCfg) (n : NState) (k : Nat) (sl : Slots) (g : GhR) (h : RFInv c n g) :
    RFInv c (stepN c n (.disp k sl)) g := by
  have hb := stepN_base c n (.disp k sl)
  obtain ⟨hq, hR, hsplit⟩ := disp_QR c n.base k sl
  have hbn := bn_disp c n.base k sl
  have hd : (stepN c n (.disp k sl)).delivered = n.delivered := by
    unfold stepN; simp only; split <;> simp [NState.note]
  have hpf : (stepL c n.base (.disp k sl)).pendingFeat = n.base.pendingFeat := by
    rw [disp_eq]; simp [dispR, disp5_pending]
  refine rfinv_frame c n _ g h (fun ft r => liveCntR_of_same _ _ (by
      rw [hb, hq, hR, hsplit]
      intro x
      simp only [mem_append]
      constructor
      · rintro (a | a | a)
        · exact Or.inl (Or.inl a)
        · exact Or.inr a
        · exact Or.inl (Or.inr a)
      · rintro ((a | a) | a)
        · exact Or.inl a
        · exact Or.inr (Or.inr a)
        · exact Or.inr (Or.inl a)) ft r)
    (fun fr => by rw [hb, hbn.1]) (fun fr => by rw [hb]; exact pendFinalR_of_same _ _ hbn.2 fr) ?_
  rw [hd, hb, hpf]
  exact h.insdDel

theorem ins_rfinv (c : SCfg) (hwf : WF c) (n : NState) (t : Nat) (ps pc : List QE) (g : GhR) (gc : List Nat × List Nat)
    (h : RFInv c n g) (hn : NInv c n) (hci : CInv n.base gc) (hc : NClean (stepN c n (.ins t ps pc)) = true) :
    RFInv c (stepN c n (.ins t ps pc)) (gstepR c n g (.ins t ps pc)) := by
  have hb := stepN_base c n (.ins t ps pc)
  simp only [NClean, Bool.and_eq_true] at hc
  have hc0 := hc.1
  rw [hb] at hc0
  obtain ⟨hQ, hR⟩ := ins_Qs c n.base t ps pc gc hci (clean0_all _ hc0).2.2
  have hpn := ins_pending c n.base t ps pc
  have hbn := bn_ins c n.base t ps pc
  have hd : (stepN c n (.ins t ps pc)).delivered = n.delivered := by
    unfold stepN; simp only; split
    · rfl
    · split <;> simp [NState.note]
  cases hpf : n.base.pendingFeat with
  | none =>
    have hg : gstepR c n g (.ins t ps pc) = g := by simp [gstepR, hpf]
    rw [hg]
    have hsub : ∀ x ∈ insAdds c n.base ps pc, x ∈ Rs n.base := by
      rcases insAdds_retry c n.base ps pc hpf with ⟨_, ha⟩ | ⟨e, _, hmem, ha⟩
      · rw [ha]; intro x hx; cases hx
      · rw [ha]
        intro x hx
        split at hx
        · rw [mem_singleton.mp hx]; simp only [Rs, scens, mem_map]; exact ⟨e, hmem, rfl⟩
        · cases hx
    refine rfinv_frame c n _ g h (fun ft r => liveCntR_of_same _ _ (by
        rw [hb, hR]
        intro x
        constructor
        · rintro (a | a)
          · rcases mem_append.mp (hQ.mem_iff.mp a) with a | a
            · exact Or.inl a
            · exact Or.inr (hsub x a)
          · exact Or.inr a
        · rintro (a | a)
          · exact Or.inl (hQ.mem_iff.mpr (mem_append_left _ a))
          · exact Or.inr a) ft r)
      (fun fr => by rw [hb, hbn.1]) (fun fr => by rw [hb]; exact pendFinalR_of_same _ _ hbn.2 fr) ?_
    rw [hd, hb, hpn]
    intro f' hf'
    exact ⟨(h.insdDel f' hf').1, by simp⟩
  | some f =>
    have hg : gstepR c n g (.ins t ps pc) = { g with insd := f :: g.insd } := by simp [gstepR, hpf]
    rw [hg]
    obtain ⟨_, hadds⟩ := insAdds_fresh c n.base ps pc f hpf
    rw [hadds] at hQ
    have hfni : f ∉ g.insd := fun hi => (h.insdDel f hi).2 hpf
    have hlive : ∀ x, (x ∈ Qs (stepN c n (.ins t ps pc)).base ∨ x ∈ Rs (stepN c n (.ins t ps pc)).base) ↔
        ((x ∈ Qs n.base ∨ x ∈ Rs n.base) ∨ x ∈ scenIds ((c.feat? f).getD ⟨f, [], [], []⟩)) := by
      intro x
      rw [hb, hR]
      constructor
      · rintro (a | a)
        · rcases mem_append.mp (hQ.mem_iff.mp a) with a | a
          · exact Or.inl (Or.inl a)
          · exact Or.inr a
        · exact Or.inl (Or.inr a)
      · rintro ((a | a) | a)
        · exact Or.inl (hQ.mem_iff.mpr (mem_append_left _ a))
        · exact Or.inr a
        · exact Or.inl (hQ.mem_iff.mpr (mem_append_right _ a))
    have hother : ∀ f' ft' r', c.feat? f' = some ft' → f' ≠ f →
        liveCntR (stepN c n (.ins t ps pc)).base ft' r' = liveCntR n.base ft' r' := by
      intro f' ft' r' hft' hne
      apply liveCntR_congr
      intro x hx
      rw [hlive x]
      constructor
      · rintro (a | a)
        · exact a
        · exfalso
          cases hfd : c.feat? f with
          | none => rw [hfd] at a; simp [scenIds_default] at a
          | some ft0 =>
            rw [hfd] at a
            exact hne (scenIds_feat? c hwf f' f ft' ft0 hft' hfd x (ruleScenIds_sub ft' r' x hx) a)
      · exact Or.inl
    have hcnt : ∀ fr, cntOfR (stepN c n (.ins t ps pc)).base.br fr = cntOfR n.base.br fr := fun fr => by rw [hb, hbn.1]
    have hpend : ∀ fr, pendFinalR (stepN c n (.ins t ps pc)).base fr = pendFinalR n.base fr :=
      fun fr => by rw [hb]; exact pendFinalR_of_same _ _ hbn.2 fr
    refine ⟨?_, ?_, ?_, ?_, ?_, ?_⟩
    · intro f' ft' r' hft' hcl
      have hne : f' ≠ f := fun he => hfni (he ▸ h.closedIns (f', r') hcl)
      rw [hother f' ft' r' hft' hne]
      exact h.closedLive f' ft' r' hft' hcl
    · intro fr hcl; rw [hpend]; exact h.closedPend fr hcl
    · intro f' ft' r' hft' hi hcl
      rw [hcnt, hpend]
      by_cases hne : f' = f
      · subst hne
        obtain ⟨z1, z2, _⟩ := h.fresh f' hfni r'
        rw [z1, z2, liveCntR_all]
        · omega
        · intro x hx
          rw [hlive x]
          right
          rw [hft']
          exact ruleScenIds_sub ft' r' x hx
      · rw [hother f' ft' r' hft' hne]
        rcases mem_cons.mp hi with hi | hi
        · exact absurd hi hne
        · exact h.count f' ft' r' hft' hi hcl
    · intro f' hi r'
      have hne : f' ≠ f := fun he => hi (he ▸ mem_cons_self)
      have hi' : f' ∉ g.insd := fun hh => hi (mem_cons_of_mem _ hh)
      obtain ⟨z1, z2, z3⟩ := h.fresh f' hi' r'
      refine ⟨by rw [hcnt]; exact z1, by rw [hpend]; exact z2, fun ft' hft' => ?_⟩
      rw [hother f' ft' r' hft' hne]
      exact z3 ft' hft'
    · intro f' hi
      rw [hd, hb, hpn]
      refine ⟨?_, by simp⟩
      rcases mem_cons.mp hi with rfl | hi
      · exact hn.pend f' hpf
      · exact (h.insdDel f' hi).1
    · intro fr hcl; exact mem_cons_of_mem _ (h.closedIns fr hcl)

theorem endA_rfinv (c : SCfg) (hwf : WF c) (hwr : WFR c) (n : NState) (id : Nat) (failed retried : Bool) (t : Nat) (g : GhR)
    (h : RFInv c n g) (hn : NInv c n) (hr : RInv c n.base)
    (hc : NClean (stepN c n (.endA id failed retried t)) = true) :
    RFInv c (stepN c n (.endA id failed retried t)) g := by
  have hb := stepN_base c n (.endA id failed retried t)
  have hd : (stepN c n (.endA id failed retried t)).delivered = n.delivered := by
    unfold stepN; simp only; split
    · rfl
    · split <;> simp [NState.note]
  cases hf : n.base.running.find? (fun e => e.id == id) with
  | none =>
    exact rfinv_simple c n _ g h (hb ▸ endA_none_core c n.base id failed retried t hf)
      (hb ▸ endA_none_bn c n.base id failed retried t hf) hd
  | some e =>
    obtain ⟨hq, hperm⟩ := endA_QR c n.base id failed retried t e hf
    obtain ⟨hbr, hnt⟩ := endA_bn c n.base id failed retried t e hf
    have hpf : (stepL c n.base (.endA id failed retried t)).pendingFeat = n.base.pendingFeat := by
      rw [endA_eq]; unfold endR; simp only [hf]; split <;> simp [SState.note]
    have hmem : e ∈ n.base.running := mem_of_find?_eq_some hf
    have hxR : e.key.scen ∈ Rs n.base := by simp only [Rs, scens, mem_map]; exact ⟨e, hmem, rfl⟩
    have hnd : (e.key.scen :: Rs (stepL c n.base (.endA id failed retried t))).Nodup := hperm.nodup_iff.mp hn.rnd
    obtain ⟨hxnot, _⟩ := nodup_cons.mp hnd
    have hret : retried = n.reins.contains e.key.scen := by
      simp only [NClean, Bool.and_eq_true] at hc
      have hcn := hc.2
      unfold stepN at hcn
      simp only [hf] at hcn
      split at hcn
      · rename_i hh; simpa using hh
      · simp [NState.note] at hcn
    obtain ⟨fte, hfte, hxs, hown, hnone⟩ := ownerR c hwf hwr n.base hr e (by simp [ents, hmem])
    have hcnt : ∀ fr, cntOfR (stepN c n (.endA id failed retried t)).base.br fr = cntOfR n.base.br fr := fun fr => by rw [hb, hbr]
    have hdel : ∀ f' ∈ g.insd, f' ∈ (stepN c n (.endA id failed retried t)).delivered ∧
        (stepN c n (.endA id failed retried t)).base.pendingFeat ≠ some f' := by
      rw [hd, hb, hpf]; exact h.insdDel
    have hpend : ∀ fr : Nat × Nat, pendFinalR (stepN c n (.endA id failed retried t)).base fr =
        pendFinalR n.base fr + (if (e.key.feat == fr.1 && e.key.rule == some fr.2 && !retried) = true then 1 else 0) := by
      intro fr
      rw [hb]
      unfold pendFinalR
      rw [hnt, countP_append]
      simp [countP_cons]
    have hlive_ne : ∀ y, y ≠ e.key.scen →
        ((y ∈ Qs (stepN c n (.endA id failed retried t)).base ∨ y ∈ Rs (stepN c n (.endA id failed retried t)).base) ↔
          (y ∈ Qs n.base ∨ y ∈ Rs n.base)) := by
      intro y hy
      rw [hb, hq]
      constructor
      · rintro (a | a)
        · exact Or.inl a
        · exact Or.inr (hperm.mem_iff.mpr (mem_cons_of_mem _ a))
      · rintro (a | a)
        · exact Or.inl a
        · rcases mem_cons.mp (hperm.mem_iff.mp a) with a | a
          · exact absurd a hy
          · exact Or.inr a
    by_cases hrt : retried = true
    · have hxre : e.key.scen ∈ n.reins := by rw [hrt] at hret; simpa using hret.symm
      have hxQ := hn.reinsQ _ hxre
      refine rfinv_frame c n _ g h (fun ft r => liveCntR_of_same _ _ (by
          intro y
          by_cases hy : y = e.key.scen
          · subst hy
            rw [hb, hq]
            exact ⟨fun _ => Or.inl hxQ, fun _ => Or.inl hxQ⟩
          · exact hlive_ne y hy) ft r) hcnt (fun fr => by rw [hpend, hrt]; simp) hdel
    · have hrt : retried = false := by simpa using hrt
      have hxnre : e.key.scen ∉ n.reins := by rw [hrt] at hret; simpa using hret.symm
      have hxnQ : e.key.scen ∉ Qs n.base := fun hq' => hxnre (hn.both _ hq' hxR)
      have hxdead : ¬ (e.key.scen ∈ Qs (stepN c n (.endA id failed retried t)).base ∨
          e.key.scen ∈ Rs (stepN c n (.endA id failed retried t)).base) := by
        rw [hb, hq]
        rintro (a | a)
        · exact hxnQ a
        · exact hxnot a
      -- rules that do not own `x`
      have hother : ∀ f' ft' r', c.feat? f' = some ft' → e.key.rule.map (fun ru => (e.key.feat, ru)) ≠ some (f', r') →
          liveCntR (stepN c n (.endA id failed retried t)).base ft' r' = liveCntR n.base ft' r' := by
        intro f' ft' r' hft' hne
        apply liveCntR_congr
        intro y hy
        apply hlive_ne
        intro hyx
        subst hyx
        have hff : f' = e.key.feat := scenIds_feat? c hwf f' e.key.feat ft' fte hft' hfte _ (ruleScenIds_sub ft' r' _ hy)
          hxs
        subst hff
        have hft2 : ft' = fte := by rw [hfte] at hft'; exact (Option.some.inj hft').symm
        subst hft2
        cases hkr : e.key.rule with
        | none => exact hnone hkr r' hy
        | some ru =>
          have := (rule_unique c hwf hwr _ _ ft' ft' ru r' _ hfte hfte (hown ru hkr) hy).2
          rw [hkr, this] at hne
          exact hne rfl
      have hpend_other : ∀ fr : Nat × Nat, e.key.rule.map (fun ru => (e.key.feat, ru)) ≠ some fr →
          pendFinalR (stepN c n (.endA id failed retried t)).base fr = pendFinalR n.base fr := by
        intro fr hne
        rw [hpend]
        have : (e.key.feat == fr.1 && e.key.rule == some fr.2) = false := by
          cases hkr : e.key.rule with
          | none => simp
          | some ru =>
            rw [hkr] at hne
            simp only [Option.map_some] at hne
            by_cases h1 : e.key.feat = fr.1
            · by_cases h2 : ru = fr.2
              · exfalso; apply hne; rw [h1, h2]
              · simp [h2]
            · simp [h1]
        simp [this]
      refine ⟨?_, ?_, ?_, ?_, hdel, h.closedIns⟩
      · intro f' ft' r' hft' hcl
        by_cases hne : e.key.rule.map (fun ru => (e.key.feat, ru)) = some (f', r')
        · -- the owner is closed: impossible, `x` is live
          exfalso
          cases hkr : e.key.rule with
          | none => rw [hkr] at hne; cases hne
          | some ru =>
            rw [hkr] at hne
            simp only [Option.map_some, Option.some.injEq, Prod.mk.injEq] at hne
            obtain ⟨rfl, rfl⟩ := hne
            have hft2 : ft' = fte := by rw [hfte] at hft'; exact (Option.some.inj hft').symm
            subst hft2
            have := h.closedLive _ _ _ hfte hcl
            rw [liveCntR_zero] at this
            exact this _ (hown ru hkr) (Or.inr hxR)
        · rw [hother f' ft' r' hft' hne]; exact h.closedLive f' ft' r' hft' hcl
      · intro fr hcl
        by_cases hne : e.key.rule.map (fun ru => (e.key.feat, ru)) = some fr
        · exfalso
          cases hkr : e.key.rule with
          | none => rw [hkr] at hne; cases hne
          | some ru =>
            rw [hkr] at hne
            simp only [Option.map_some, Option.some.injEq] at hne
            subst hne
            have := h.closedLive _ _ _ hfte hcl
            rw [liveCntR_zero] at this
            exact this _ (hown ru hkr) (Or.inr hxR)
        · rw [hpend_other fr hne]; exact h.closedPend fr hcl
      · intro f' ft' r' hft' hi hcl
        rw [hcnt]
        by_cases hne : e.key.rule.map (fun ru => (e.key.feat, ru)) = some (f', r')
        · cases hkr : e.key.rule with
          | none => rw [hkr] at hne; cases hne
          | some ru =>
            rw [hkr] at hne
            simp only [Option.map_some, Option.some.injEq, Prod.mk.injEq] at hne
            obtain ⟨rfl, rfl⟩ := hne
            have hft2 : ft' = fte := by rw [hfte] at hft'; exact (Option.some.inj hft').symm
            subst hft2
            have hcount := h.count _ _ _ hfte hi hcl
            have hflip : liveCntR (stepN c n (.endA id failed retried t)).base ft' ru + 1 = liveCntR n.base ft' ru := by
              unfold liveCntR
              refine countP_flip _ (ruleScenIds_nodup c hwr ft' (feat?_spec c _ ft' hfte).1 ru) _ _ e.key.scen (hown ru hkr) ?_ ?_ ?_
              · simp only [decide_eq_true_eq]; exact Or.inr hxR
              · simp only [decide_eq_false_iff_not]; exact hxdead
              · intro y _ hy
                have := hlive_ne y hy
                simp only [this]
            have hp1 : pendFinalR (stepN c n (.endA id failed retried t)).base (e.key.feat, ru) = pendFinalR n.base (e.key.feat, ru) + 1 := by
              rw [hpend, hrt, hkr]; simp
            rw [hp1]
            omega
        · rw [hother f' ft' r' hft' hne, hpend_other (f', r') hne]; exact h.count f' ft' r' hft' hi hcl
      · intro f' hi r'
        obtain ⟨z1, z2, z3⟩ := h.fresh f' hi r'
        have hne : e.key.rule.map (fun ru => (e.key.feat, ru)) ≠ some (f', r') := by
          intro heq
          cases hkr : e.key.rule with
          | none => rw [hkr] at heq; cases heq
          | some ru =>
            rw [hkr] at heq
            simp only [Option.map_some, Option.some.injEq, Prod.mk.injEq] at heq
            obtain ⟨rfl, rfl⟩ := heq
            have := z3 fte hfte
            rw [liveCntR_zero] at this
            exact this _ (hown ru hkr) (Or.inr hxR)
        exact ⟨by rw [hcnt]; exact z1, by rw [hpend_other (f', r') hne]; exact z2,
          fun ft' hft' => by rw [hother f' ft' r' hft' hne]; exact z3 ft' hft'⟩

theorem notif_rfinv (c : SCfg) (n : NState) (id : Nat) (failed retried : Bool) (g : GhR)
    (h : RFInv c n g) (hc : NClean (stepN c n (.notif id failed retried)) = true) :
    RFInv c (stepN c n (.notif id failed retried)) (gstepR c n g (.notif id failed retried)) := by
  have hb := stepN_base c n (.notif id failed retried)
  simp only [NClean, Bool.and_eq_true] at hc
  have hc0 := hc.1
  rw [hb] at hc0
  obtain ⟨k, rest, br', evs, hnt, hsf, hnt', hbr', _⟩ := notif_clean c n.base id failed retried hc0
  obtain ⟨c1, c2, c3, c4⟩ := core_notif c n.base id failed retried
  have hq : Qs (stepN c n (.notif id failed retried)).base = Qs n.base := by rw [hb]; simp [Qs, c1, c2]
  have hR : Rs (stepN c n (.notif id failed retried)).base = Rs n.base := by rw [hb]; simp [Rs, c3]
  have hlive : ∀ ft r, liveCntR (stepN c n (.notif id failed retried)).base ft r = liveCntR n.base ft r :=
    fun ft r => liveCntR_of_same _ _ (by rw [hq, hR]; exact fun _ => Iff.rfl) ft r
  have hd : (stepN c n (.notif id failed retried)).delivered = n.delivered := rfl
  have hdel : ∀ f' ∈ g.insd, f' ∈ (stepN c n (.notif id failed retried)).delivered ∧
      (stepN c n (.notif id failed retried)).base.pendingFeat ≠ some f' := by
    rw [hd, hb, c4]; exact h.insdDel
  have hpend : ∀ fr : Nat × Nat, pendFinalR n.base fr =
      (if (k.feat == fr.1 && k.rule == some fr.2 && !retried) = true then 1 else 0) +
        pendFinalR (stepN c n (.notif id failed retried)).base fr := by
    intro fr
    rw [hb]
    unfold pendFinalR
    rw [hnt, hnt', countP_cons]
    simp only
    omega
  by_cases hrt : retried = true
  · subst hrt
    rw [scenFin_retried] at hsf
    simp only [Option.some.injEq, Prod.mk.injEq] at hsf
    have hg : gstepR c n g (.notif id failed true) = g := by simp [gstepR, closesR, hnt]
    rw [hg]
    refine rfinv_frame c n _ g h hlive (fun fr => by rw [hb, hbr', ← hsf.1]) (fun fr => ?_) hdel
    have := hpend fr
    simp at this
    exact this.symm
  · have hrt : retried = false := by simpa using hrt
    subst hrt
    cases hkr : k.rule with
    | none =>
      -- a top-level scenario: the rule counters are untouched
      have hg : gstepR c n g (.notif id failed false) = g := by simp [gstepR, closesR, hnt, hkr]
      rw [hg]
      refine rfinv_frame c n _ g h hlive (fun fr => ?_) (fun fr => ?_) hdel
      · rw [hb, hbr']; exact (cntOfR_scenFin n.base.br k _ _ br' evs hsf fr).1 hkr
      · have := hpend fr
        simp [hkr] at this
        exact this.symm
    | some ru =>
      have hcnt := fun fr => (cntOfR_scenFin n.base.br k _ _ br' evs hsf fr).2 ru hkr
      obtain ⟨e, hfd, _⟩ := hcnt (k.feat, ru)
      have hcnt' : ∀ fr, cntOfR (stepN c n (.notif id failed false)).base.br fr =
          if fr = (k.feat, ru) then (if c.nRule k.feat ru == e.2 + 1 then 0 else e.2 + 1) else cntOfR n.base.br fr := by
        intro fr
        obtain ⟨e', hfd', hh⟩ := hcnt fr
        rw [hfd] at hfd'
        have : e' = e := (Option.some.inj hfd').symm
        subst this
        rw [hb, hbr']
        simpa [hkr] using hh
      have hcntk : cntOfR n.base.br (k.feat, ru) = e.2 := by simp [cntOfR, cntL, hfd]
      have hpk : pendFinalR n.base (k.feat, ru) = 1 + pendFinalR (stepN c n (.notif id failed false)).base (k.feat, ru) := by
        have := hpend (k.feat, ru); simpa [hkr] using this
      have hpo : ∀ fr : Nat × Nat, fr ≠ (k.feat, ru) →
          pendFinalR (stepN c n (.notif id failed false)).base fr = pendFinalR n.base fr := by
        intro fr hne
        have := hpend fr
        have hh : (k.feat == fr.1 && k.rule == some fr.2) = false := by
          rw [hkr]
          by_cases h1 : k.feat = fr.1
          · by_cases h2 : ru = fr.2
            · exfalso; apply hne; exact Prod.ext h1.symm h2.symm
            · simp [h2]
          · simp [h1]
        simp [hh] at this
        exact this.symm
      have hki : k.feat ∈ g.insd := by
        by_cases hni : k.feat ∈ g.insd
        · exact hni
        · have := (h.fresh k.feat hni ru).2.1
          omega
      have hkc : (k.feat, ru) ∉ g.closed := by
        intro hcl
        have := h.closedPend _ hcl
        omega
      have hclose : closesR c n.base = if c.nRule k.feat ru == e.2 + 1 then some (k.feat, ru) else none := by
        simp [closesR, hnt, hkr, hfd]
      cases hcl : (c.nRule k.feat ru == e.2 + 1) with
      | true =>
        have hg : gstepR c n g (.notif id failed false) = { g with closed := (k.feat, ru) :: g.closed } := by
          simp [gstepR, hclose, hcl]
        rw [hg]
        obtain ⟨ft, hft, hlen⟩ := nRule_pos c k.feat ru e.2 hcl
        have hcount := h.count k.feat ft ru hft hki hkc
        rw [hcntk, hlen, hpk] at hcount
        have hl0 : liveCntR n.base ft ru = 0 := by omega
        have hp0 : pendFinalR (stepN c n (.notif id failed false)).base (k.feat, ru) = 0 := by omega
        refine ⟨?_, ?_, ?_, ?_, hdel, ?_⟩
        · intro f' ft' r' hft' hc'
          rw [hlive]
          rcases mem_cons.mp hc' with heq | hc'
          · simp only [Prod.mk.injEq] at heq
            obtain ⟨rfl, rfl⟩ := heq
            have : ft' = ft := by rw [hft] at hft'; exact (Option.some.inj hft').symm
            rw [this]; exact hl0
          · exact h.closedLive f' ft' r' hft' hc'
        · intro fr hc'
          rcases mem_cons.mp hc' with rfl | hc'
          · exact hp0
          · have hne : fr ≠ (k.feat, ru) := fun he => hkc (he ▸ hc')
            rw [hpo fr hne]; exact h.closedPend fr hc'
        · intro f' ft' r' hft' hi hc'
          have hne : (f', r') ≠ (k.feat, ru) := fun he => hc' (he ▸ mem_cons_self)
          have hc'' : (f', r') ∉ g.closed := fun hh => hc' (mem_cons_of_mem _ hh)
          rw [hcnt', if_neg hne, hlive, hpo _ hne]
          exact h.count f' ft' r' hft' hi hc''
        · intro f' hi r'
          have hne : (f', r') ≠ (k.feat, ru) := by
            intro he
            simp only [Prod.mk.injEq] at he
            exact hi (he.1 ▸ hki)
          obtain ⟨z1, z2, z3⟩ := h.fresh f' hi r'
          exact ⟨by rw [hcnt', if_neg hne]; exact z1, by rw [hpo _ hne]; exact z2, fun ft' hft' => by rw [hlive]; exact z3 ft' hft'⟩
        · intro fr hc'
          rcases mem_cons.mp hc' with rfl | hc'
          · exact hki
          · exact h.closedIns fr hc'
      | false =>
        have hg : gstepR c n g (.notif id failed false) = g := by simp [gstepR, hclose, hcl]
        rw [hg]
        refine ⟨?_, ?_, ?_, ?_, hdel, h.closedIns⟩
        · intro f' ft' r' hft' hc'; rw [hlive]; exact h.closedLive f' ft' r' hft' hc'
        · intro fr hc'
          have hne : fr ≠ (k.feat, ru) := fun he => hkc (he ▸ hc')
          rw [hpo fr hne]; exact h.closedPend fr hc'
        · intro f' ft' r' hft' hi hc'
          rw [hcnt', hlive]
          by_cases hne : (f', r') = (k.feat, ru)
          · simp only [Prod.mk.injEq] at hne
            obtain ⟨rfl, rfl⟩ := hne
            have := h.count _ ft' _ hft' hi hc'
            rw [hcntk, hpk] at this
            simp only [if_true, hcl, Bool.false_eq_true, if_false]
            omega
          · rw [if_neg hne, hpo _ hne]; exact h.count f' ft' r' hft' hi hc'
        · intro f' hi r'
          have hne : (f', r') ≠ (k.feat, ru) := by
            intro he
            simp only [Prod.mk.injEq] at he
            exact hi (he.1 ▸ hki)
          obtain ⟨z1, z2, z3⟩ := h.fresh f' hi r'
          exact ⟨by rw [hcnt', if_neg hne]; exact z1, by rw [hpo _ hne]; exact z2, fun ft' hft' => by rw [hlive]; exact z3 ft' hft'⟩

/-! ## every label, every run -/

open Cuke.SchedExit in
theorem step_rtinv (c : SCfg) (hwf : WF c) (hwr : WFR c) (n : NState) (g : GhR) (gc : List Nat × List Nat) (l : Label)
    (hn : NInv c n) (hr : RInv c n.base) (hci : CInv n.base gc) (h : Exiting n.base ∨ RFInv c n g)
    (hc : NClean (stepN c n l) = true) :
    Exiting (stepN c n l).base ∨ RFInv c (stepN c n l) (gstepR c n g l) := by
  have hb := stepN_base c n l
  have hc0 : Clean0 (stepL c n.base l) = true := by
    simp only [NClean, Bool.and_eq_true] at hc
    have := hc.1
    rwa [hb] at this
  rcases h with hex | hfi
  · left
    rw [hb]
    exact (exiting_step c n.base l hex hc0).1
  · have simple : SameCore n.base (stepL c n.base l) → SameBN n.base (stepL c n.base l) →
        (stepN c n l).delivered = n.delivered → gstepR c n g l = g →
        Exiting (stepN c n l).base ∨ RFInv c (stepN c n l) (gstepR c n g l) := by
      intro h1 h2 h3 h4
      right
      rw [h4]
      exact rfinv_simple c n _ g hfi (hb ▸ h1) (hb ▸ h2) h3
    cases l with
    | pOk f => exact Or.inr (pOk_rfinv c n f g hfi hc)
    | ins t a b => exact Or.inr (ins_rfinv c hwf n t a b g gc hfi hn hci hc)
    | get2 t sl gt b r => exact Or.inr (get2_rfinv c n t sl gt b r g gc hfi hci hc)
    | disp k sl => exact Or.inr (disp_rfinv c n k sl g hfi)
    | endA id f r t => exact Or.inr (endA_rfinv c hwf hwr n id f r t g hfi hn hr hc)
    | notif id f r => exact Or.inr (notif_rfinv c n id f r g hfi hc)
    | idle f sl =>
      cases f with
      | true =>
        left
        rw [hb]
        exact idle_true_exiting c n.base sl (clean0_all _ hc0).1
      | false => exact simple (core_idle c _ false sl) (bn_idle_false c _ sl) rfl rfl
    | hookTake => exact simple (core_hookTake c _) (bn_hookTake c _) rfl rfl
    | hookRestore => exact simple (core_hookRestore c _) (bn_hookRestore c _) rfl rfl
    | exit => exact simple (core_exit c _) (bn_exit c _) rfl rfl
    | tx e => exact simple (core_tx c _ e) (bn_tx c _ e) rfl rfl
    | pErr => exact simple (core_pErr c _) (bn_pErr c _) rfl rfl
    | pEnd => exact simple (core_pEnd c _) (bn_pEnd c _) rfl rfl
    | pPend => exact simple (core_pPend c _) (bn_pPend c _) rfl rfl
    | pWake => exact simple (core_pWake c _) (bn_pWake c _) rfl rfl
    | pFinish => exact simple (core_pFinish c _) (bn_pFinish c _) rfl rfl
    | get1 t a ns nc => exact simple (core_get1 c _ t a ns nc) (bn_get1 c _ t a ns nc) rfl rfl
    | idleContinue => exact simple (core_idleContinue c _) (bn_idleContinue c _) rfl rfl
    | idleYield => exact simple (core_idleYield c _) (bn_idleYield c _) rfl rfl
    | idleSlept => exact simple (core_idleSlept c _) (bn_idleSlept c _) rfl rfl
    | cons b => exact simple (core_cons c _ b) (bn_cons c _ b) rfl rfl
    | brk => exact simple (core_brk c _) (bn_brk c _) rfl rfl
    | rx e => exact simple (core_rx c _ e) (bn_rx c _ e) rfl rfl
    | cbIn a b t => exact simple (core_cbIn c _ a b t) (bn_cbIn c _ a b t) rfl rfl
    | cbOut a b t => exact simple (core_cbOut c _ a b t) (bn_cbOut c _ a b t) rfl rfl
    | envMove => exact simple (core_env c _) (bn_env c _) rfl rfl
    | poll => exact simple (core_poll c _) (bn_poll c _) rfl rfl
    | verdict b x y z => exact simple (core_verdict c _ b x y z) (bn_verdict c _ b x y z) rfl rfl
    | other => exact simple (core_other c _) (bn_other c _) rfl rfl

theorem closedR_mono (c : SCfg) (n : NState) (g : GhR) (l : Label) (fr : Nat × Nat) (h : fr ∈ g.closed) :
    fr ∈ (gstepR c n g l).closed := by
  unfold gstepR
  split
  · split <;> exact h
  · split
    · exact mem_cons_of_mem _ h
    · exact h
  · exact h

def runR (c : SCfg) (ls : List Label) (x : NState × GhR × (List Nat × List Nat)) : NState × GhR × (List Nat × List Nat) :=
  ls.foldl (fun x l => (stepN c x.1 l, gstepR c x.1 x.2.1 l, gstep c x.1.base x.2.2 l)) x

theorem runR_state (c : SCfg) (ls : List Label) (x : NState × GhR × (List Nat × List Nat)) :
    (runR c ls x).1 = ls.foldl (stepN c) x.1 := by
  induction ls generalizing x with
  | nil => rfl
  | cons l rest ih => simp only [runR, foldl_cons] at ih ⊢; exact ih _

theorem runR_closed_mono (c : SCfg) (ls : List Label) (x : NState × GhR × (List Nat × List Nat)) (fr : Nat × Nat)
    (h : fr ∈ x.2.1.closed) : fr ∈ (runR c ls x).2.1.closed := by
  induction ls generalizing x with
  | nil => exact h
  | cons l rest ih =>
    simp only [runR, foldl_cons]
    exact ih _ (closedR_mono c x.1 x.2.1 l fr h)

open Cuke.SchedExit in
theorem runR_inv (c : SCfg) (hwf : WF c) (hwr : WFR c) (ls : List Label) (x : NState × GhR × (List Nat × List Nat))
    (hn : NInv c x.1) (hr : RInv c x.1.base) (hci : CInv x.1.base x.2.2) (h : Exiting x.1.base ∨ RFInv c x.1 x.2.1)
    (hc : NClean (ls.foldl (stepN c) x.1) = true) :
    NInv c (runR c ls x).1 ∧ RInv c (runR c ls x).1.base ∧
      (Exiting (runR c ls x).1.base ∨ RFInv c (runR c ls x).1 (runR c ls x).2.1) := by
  induction ls generalizing x with
  | nil => exact ⟨hn, hr, h⟩
  | cons l rest ih =>
    simp only [foldl_cons] at hc
    have h1 : NClean (stepN c x.1 l) = true := nclean_foldl_mono c rest _ hc
    have hc0 : Clean0 (stepL c x.1.base l) = true := by
      simp only [NClean, Bool.and_eq_true] at h1
      have := h1.1
      rwa [stepN_base] at this
    have hcl := (clean0_all _ hc0).2.2
    have hn' := step_ninv c hwf x.1 x.2.2 l hn hci h1
    have hr' : RInv c (stepN c x.1 l).base := by
      rw [stepN_base]; exact step_rinv c x.1.base l hr (clean_good _ hcl).2
    have hci' : CInv (stepN c x.1 l).base (gstep c x.1.base x.2.2 l) := by
      rw [stepN_base]; exact step_cinv c x.1.base x.2.2 l hci hcl
    have h' := step_rtinv c hwf hwr x.1 x.2.1 x.2.2 l hn hr hci h h1
    exact ih (stepN c x.1 l, gstepR c x.1 x.2.1 l, gstep c x.1.base x.2.2 l) hn' hr' hci' h' hc

def initR : NState × GhR × (List Nat × List Nat) := ({}, {}, ([], []))

theorem accR_state (c : SCfg) (ls : List Label) : (runR c ls initR).1 = acceptN c ls := runR_state c ls initR

theorem runR_append (c : SCfg) (a b : List Label) (x : NState × GhR × (List Nat × List Nat)) :
    runR c (a ++ b) x = runR c b (runR c a x) := by simp [runR, foldl_append]

open Cuke.SchedExit in
theorem accR_inv (c : SCfg) (hwf : WF c) (hwr : WFR c) (ls : List Label) (hc : NClean (acceptN c ls) = true) :
    RInv c (acceptN c ls).base ∧
      (Exiting (acceptN c ls).base ∨ RFInv c (acceptN c ls) (runR c ls initR).2.1) := by
  have := runR_inv c hwf hwr ls initR (ninv_init c) (rinv_init c) cinv_init (Or.inr (rfinv_init c)) hc
  rw [accR_state] at this
  exact ⟨this.2.1, this.2.2⟩

theorem closesR_recorded (c : SCfg) (pre post : List Label) (id : Nat) (failed retried : Bool) (fr : Nat × Nat)
    (hcl : closesR c (acceptN c pre).base = some fr) :
    fr ∈ (runR c (pre ++ .notif id failed retried :: post) initR).2.1.closed := by
  rw [runR_append]
  have : runR c (.notif id failed retried :: post) (runR c pre initR) =
      runR c post (stepN c (runR c pre initR).1 (.notif id failed retried),
        gstepR c (runR c pre initR).1 (runR c pre initR).2.1 (.notif id failed retried),
        gstep c (runR c pre initR).1.base (runR c pre initR).2.2 (.notif id failed retried)) := rfl
  rw [this]
  apply runR_closed_mono
  simp only [gstepR, accR_state, hcl]
  exact mem_cons_self

/-- the notification that counts the last scenario of a rule makes the model owe `Rule::Finished` for it -/
theorem closesR_owes_finished (c : SCfg) (s : SState) (id : Nat) (failed retried : Bool) (fr : Nat × Nat)
    (hcl : closesR c s = some fr) (hc : Clean0 (stepL c s (.notif id failed retried)) = true) :
    Exp.one (Ev.ruleFinished fr.1 fr.2) ∈ (stepL c s (.notif id failed retried)).expect := by
  obtain ⟨k, rest, br', evs, hnt, hsf, _, _, hexp⟩ := notif_clean c s id failed retried hc
  unfold closesR at hcl
  simp only [hnt] at hcl
  by_cases hr : retried = true
  · simp [hr] at hcl
  · have hr : retried = false := by simpa using hr
    subst hr
    simp only [Bool.false_eq_true, if_false] at hcl
    cases hkr : k.rule with
    | none => simp [hkr] at hcl
    | some ru =>
      simp only [hkr] at hcl
      obtain ⟨e, hfd, h1, _⟩ := (scenFin_rules s.br k _ _ br' evs hsf).2 ru hkr
      simp only [hfd] at hcl
      have hnr : c.nRule k.feat (k.rule.getD 0) = c.nRule k.feat ru := by simp [hkr]
      split at hcl
      · rename_i hcond
        have hf : (k.feat, ru) = fr := by simpa using hcl
        rw [← hf]
        exact hexp _ (h1 (by rw [hnr]; exact hcond)).2
      · cases hcl

end Cuke.SchedFinR
