import Cuke.Driver.EvCodec
import Cuke.Model.Writers
/-! `pipe.run <wexpr> <catalog> <ops>`: drive a writer pipeline; print what reached the leaves per op,
    then the root's `Stats` getters. -/
namespace Cuke.Driver
open Cuke Cuke.Wire

def wP : Nat → P W
  | 0 => fail
  | fuel + 1 => do
    let t ← tok
    match t with
    | "L" => do let i ← nat; pure (.leaf i)
    | "FOS" => do
      let p ← tok
      let p ← (match p with | "d" => pure FosPred.default | "a" => pure FosPred.always | "n" => pure FosPred.never | "o" => pure FosPred.scenOdd | _ => fail)
      let w ← wP fuel
      pure (.fos p w)
    | "REP" => do
      let f ← tok
      let f ← (match f with | "s" => pure RepFilter.skipped | "f" => pure RepFilter.failed | "a" => pure RepFilter.always | "n" => pure RepFilter.never | "F" => pure RepFilter.featStarted | _ => fail)
      let w ← wP fuel
      pure (.rep f w)
    | "TEE" => do let l ← wP fuel; let r ← wP fuel; pure (.tee l r)
    | "OR" => do
      let c ← tok
      let c ← (match c with | "c0" => pure (OrPred.const false) | "c1" => pure (OrPred.const true) | "s" => pure OrPred.isScen | "e" => pure OrPred.isErr | "o" => pure OrPred.featOdd | _ => fail)
      let l ← wP fuel; let r ← wP fuel
      pure (.or c l r)
    | "SUMM" => do let w ← wP fuel; pure (.summ w)
    | "PASS" => do let w ← wP fuel; pure (.pass w)
    | "NORM" => do let w ← wP fuel; pure (.norm w)
    | _ => fail

inductive Op where
  | ev (e : Ev)
  | write (id : Nat)

def opP : P Op := do
  let t ← tok
  match t with
  | "E" => do let e ← evP; pure (.ev e)
  | "Wr" => do let i ← nat; pure (.write i)
  | _ => fail

def showStats4 (s : Stats) : String := s!"{s.passed} {s.skipped} {s.failed} {s.retried}"

def showOut : Out → String
  | .ev l e => s!"e {l} {showEv e}"
  | .write l (.user i) => s!"w {l} u {i}"
  | .write l (.summary f r sc st pe he) => s!"w {l} s {f} {r} {showStats4 sc} {showStats4 st} {pe} {he}"

def runOps (cat : Catalog) (w : W) (ops : List Op) : String :=
  let r := ops.foldl (fun (acc : St w × List String) op =>
    match op with
    | .ev e =>
      let r := handle cat w acc.1 e
      (r.1, acc.2 ++ [showList showOut r.2])
    | .write i => (acc.1, acc.2 ++ [showList showOut (writeW w (.user i))])) (St.init w, [])
  let s := statsOf w r.1
  " | ".intercalate r.2 ++
    s!" || {s.passed} {s.skipped} {s.failed} {s.retried} {s.parsingErrors} {s.hookErrors} {showBool (execFailed w r.1)}"

def handlePipeRun : Toks → Option String :=
  fun ts => runAll (do
    let w ← wP 32
    let cat ← catP
    let ops ← list opP
    pure (runOps cat.toCatalog w ops)) ts

end Cuke.Driver
