/-
  Model of `step::Collection::{given,when,then,find}` (src/step.rs).

  * a definition key `(HashableRegex, Option<Location>)` is a `Nat`; the harness numbers the
    keys of a case in the order of the real `Ord` implementation, so `key₁ ≤ key₂` in the model
    is `(regex₁, loc₁) ≤ (regex₂, loc₂)` in the crate;
  * `regex` matching is an oracle `m : key → Option Caps` (what `captures_read` produced for the
    step text) and `names : key → List (Option String)` is `Regex::capture_names`;
  * a `HashMap` is an association list with distinct keys; `find` is defined for an arbitrary
    iteration order and the theorems show the result does not depend on it.
-/
namespace Cuke

inductive Kw where
  | given | when | then_
  deriving Repr, DecidableEq

structure Reg where
  kw : Kw
  key : Nat
  fn : Nat
  deriving Repr, DecidableEq

/-- entries `(key, fn)` -/
abbrev Coll := List (Nat × Nat)

/-- `HashMap::insert`: replace the value of an existing key, else add. -/
def Coll.insert (c : Coll) (k f : Nat) : Coll :=
  if c.any (fun e => e.1 == k) then c.map (fun e => if e.1 == k then (k, f) else e)
  else c ++ [(k, f)]

/-- The map for one keyword after all registrations, in registration order. -/
def build (regs : List Reg) (kw : Kw) : Coll :=
  (regs.filter (fun r => r.kw == kw)).foldl (fun c r => c.insert r.key r.fn) []

/-- What `Regex::captures_read` gives: the whole match and, per group 1.., the text if it participated. -/
structure Caps where
  whole : String
  groups : List (Option String)
  deriving Repr, DecidableEq

inductive Found where
  | none
  | one (key fn : Nat) (ms : List (Option String × String))
  | ambiguous (keys : List Nat)
  deriving Repr, DecidableEq

def natLe (a b : Nat) : Bool := a ≤ b

/-- `Context::matches`: `names.zip(once(whole).chain(groups.map(|g| g.unwrap_or(""))))`. -/
def mkMatches (names : List (Option String)) (c : Caps) : List (Option String × String) :=
  names.zip (c.whole :: c.groups.map (fun g => g.getD ""))

def hits (iter : Coll) (m : Nat → Option Caps) : Coll :=
  iter.filter (fun e => (m e.1).isSome)

/-- `Collection::find` for one keyword's map, iterated in the order `iter`. -/
def findIn (iter : Coll) (m : Nat → Option Caps) (names : Nat → List (Option String)) : Found :=
  match hits iter m with
  | [] => .none
  | [(k, f)] =>
    match m k with
    | some c => .one k f (mkMatches (names k) c)
    | none => .none   -- unreachable: `k` is a hit
  | hs => .ambiguous ((hs.map (·.1)).mergeSort natLe)

/-- `Collection::find`: select the keyword's map, then search it. -/
def find (regs : List Reg) (kw : Kw) (m : Nat → Option Caps) (names : Nat → List (Option String)) : Found :=
  findIn (build regs kw) m names

end Cuke
