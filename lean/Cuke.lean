import Cuke.Model.Wire
import Cuke.Model.Tag
import Cuke.Props.C15
