#!/bin/bash
# usage: run_seed.sh <patch.diff> <prop> [<prop>...]   applies the patch to /repo, runs the checks, undoes it
set -u
P=$1; shift
cd /repo && git apply --check "$P" || { echo "patch does not apply to /repo"; exit 2; }
git -C /repo apply "$P"
for pid in "$@"; do
  (cd /verif && ./check "$pid" --tier quick 2>&1 | grep -E "VIOLATION|KNOWN|quick:" | cut -c1-220)
done
git -C /repo checkout -- .
