//! `cvh` — correspondence harness: runs the real `cucumber` crate on generated
//! inputs and prints, per case, the request line for the Lean model and the
//! implementation's canonical answer.
//!
//! usage: cvh <family> <seed> <count> <out-dir> [corpus-file]
//!   writes <out-dir>/req.txt, <out-dir>/impl.txt, <out-dir>/meta.json

mod common;
mod fam_filter;
mod fam_retry;
mod fam_match;
mod evs;
mod fam_pipe;
mod rr;
mod fam_attempt;

use std::{collections::BTreeMap, collections::HashSet, fs, io::Write as _, path::Path};

use common::{Case, Rng};

fn families() -> Vec<(&'static str, fn(&mut Rng, usize) -> Case)> {
    vec![
        ("tag.eval", fam_filter::gen_tag_eval as fn(&mut Rng, usize) -> Case),
        ("filter.feature", fam_filter::gen_filter),
        ("retry.resolve", fam_retry::gen_resolve),
        ("match.find", fam_match::gen_find),
        ("pipe.comb", fam_pipe::gen_comb),
        ("pipe.summ", fam_pipe::gen_summ),
        ("pipe.verdict", fam_pipe::gen_verdict),
        ("attempt.run", fam_attempt::gen_attempts),
    ]
}

fn main() {
    let args: Vec<String> = std::env::args().collect();
    if args.len() < 5 {
        eprintln!("usage: cvh <family> <seed> <count> <out-dir>");
        std::process::exit(2);
    }
    let fam = args[1].as_str();
    let seed: u64 = args[2].parse().expect("seed");
    let count: usize = args[3].parse().expect("count");
    let out = Path::new(&args[4]);
    fs::create_dir_all(out).expect("mkdir");

    let fams = families();
    let Some((_, genf)) = fams.iter().find(|(n, _)| *n == fam) else {
        eprintln!("unknown family {fam}; known: {:?}", fams.iter().map(|f| f.0).collect::<Vec<_>>());
        std::process::exit(2);
    };

    let mut rng = Rng::new(seed);
    let mut req = fs::File::create(out.join("req.txt")).unwrap();
    let mut imp = fs::File::create(out.join("impl.txt")).unwrap();
    let mut hist: BTreeMap<String, usize> = BTreeMap::new();
    let mut distinct: HashSet<String> = HashSet::new();
    let mut samples: Vec<String> = Vec::new();
    for i in 0..count {
        let mut r = rng.fork();
        let c = genf(&mut r, i);
        for (rl, il) in c.req.lines().zip(c.imp.lines()) {
            writeln!(req, "{rl}").unwrap();
            writeln!(imp, "{il}").unwrap();
        }
        assert_eq!(c.req.lines().count(), c.imp.lines().count(), "case {i}: req/impl line mismatch");
        *hist.entry(c.class.clone()).or_default() += 1;
        if c.nontrivial {
            distinct.insert(c.req.clone());
        }
        if samples.len() < 3 {
            samples.push(format!("{} => {}", c.req, c.imp));
        }
    }
    let meta = serde_json::json!({
        "family": fam, "seed": seed, "evaluations": count,
        "distinct_nontrivial": distinct.len(), "histogram": hist, "samples": samples,
    });
    fs::write(out.join("meta.json"), serde_json::to_string_pretty(&meta).unwrap()).unwrap();
}
