import Cuke.Driver.EvCodec
import Cuke.Model.Attempt
/-! `attempt.run`, `mon.c09` -/
namespace Cuke.Driver
open Cuke Cuke.Wire

def initP : P InitOut := do
  let t ← tok
  match t with
  | "ok" => pure .ok
  | "err" => do let k ← nat; pure (.err k)
  | "pan" => do let p ← nat; pure (.panic p)
  | _ => fail

def hookOutP : P HookOut := do
  let t ← tok
  match t with
  | "ok" => pure .pass
  | "pan" => do let p ← nat; pure (.panic p)
  | _ => fail

def stepOutP : P StepOut := do
  let t ← tok
  match t with
  | "p" => pure .pass
  | "n" => pure .noMatch
  | "a" => pure .ambiguous
  | "x" => do let p ← nat; pure (.panic p)
  | _ => fail

def attemptSpecP : P (AttemptSpec × Nat) := do
  let hb ← bool; let ha ← bool; let nbg ← nat; let ns ← nat
  let init ← initP; let before ← hookOutP; let after ← hookOutP
  let bgs ← list stepOutP
  let sts ← list stepOutP
  let wid ← nat
  pure ({ hasBefore := hb, hasAfter := ha, nbg := nbg, nsteps := ns, init, before, after,
          bgOut := fun i => bgs.getD i .pass, stepOut := fun i => sts.getD i .pass }, wid)

def showInit : InitOut → String
  | .ok => "ok"
  | .err k => s!"err {k}"
  | .panic p => s!"pan {p}"

def showReason : FinReason → String
  | .stepPassed => "pass"
  | .stepSkipped => "skip"
  | .stepFailed => "fail"
  | .beforeHookFailed => "bhf"

def showCall : Call → String
  | .worldNew o => s!"new {showInit o}"
  | .before w s => s!"before {w} {s}"
  | .step bg i w s => s!"step {if bg then "bg" else "st"} {i} {w} {s}"
  | .after r w => s!"after {showReason r} {match w with | some (w, c) => s!"{w} {c}" | none => "-"}"

def handleAttemptRun : Toks → Option String :=
  fun ts => runAll (do
    let (sp, wid) ← attemptSpecP
    let r := runAttempt sp wid
    pure s!"{showList showScenEv r.events} ; {showList showCall r.calls} ; {showBool r.failed}") ts

/-- C09 monitor: World ids observed in different attempts are pairwise distinct. -/
def handleMonC09 : Toks → Option String :=
  fun ts => runAll (do
    let ids ← list nat
    pure (if ids.eraseDups.length == ids.length then "ok" else "!monitor NEW world-shared-between-attempts")) ts

/-- C10 run-level monitor: no panic reached the process panic hook during the run, the hook installed
    before the run is in place again afterwards, and the stream ended with run-Finished. -/
def handleMonC10 : Toks → Option String :=
  fun ts => runAll (do
    let during ← nat
    let after ← nat
    let endedX ← bool
    pure (if during != 0 then s!"!monitor NEW panic-hook-called-during-run {during}"
          else if after != 1 then s!"!monitor NEW panic-hook-not-restored {after}"
          else if !endedX then "!monitor NEW run-did-not-end-with-finished"
          else "ok")) ts

end Cuke.Driver
