/-
  Wire format shared by the Rust harness and the Lean driver.
  One request per line, tokens separated by single spaces.
  * naturals: decimal
  * strings : `x` followed by lowercase hex of the UTF-8 bytes (`x` = empty)
  * options : `-` or the value
  * lists   : count, then the items
  No imports: everything here must link into the `cuke-driver` executable.
-/
namespace Cuke.Wire

abbrev Toks := List String

/-- A tiny parser monad over a token list. -/
abbrev P (α : Type) := Toks → Option (α × Toks)

@[inline] def P.pure (a : α) : P α := fun ts => some (a, ts)
@[inline] def P.bind (p : P α) (f : α → P β) : P β := fun ts =>
  match p ts with
  | none => none
  | some (a, ts') => f a ts'

instance : Monad P where
  pure := P.pure
  bind := P.bind

def fail : P α := fun _ => none

def tok : P String := fun ts =>
  match ts with
  | [] => none
  | t :: ts => some (t, ts)

def nat : P Nat := do
  let t ← tok
  match t.toNat? with
  | some n => pure n
  | none => fail

def bool : P Bool := do
  let t ← tok
  if t = "1" then pure true else if t = "0" then pure false else fail

def hexVal (c : Char) : Option Nat :=
  if '0' ≤ c ∧ c ≤ '9' then some (c.toNat - '0'.toNat)
  else if 'a' ≤ c ∧ c ≤ 'f' then some (c.toNat - 'a'.toNat + 10)
  else none

def unhexBytes : List Char → Option (List UInt8)
  | [] => some []
  | [_] => none
  | a :: b :: rest =>
    match hexVal a, hexVal b, unhexBytes rest with
    | some x, some y, some r => some (UInt8.ofNat (x * 16 + y) :: r)
    | _, _, _ => none

def decodeStr (t : String) : Option String :=
  match t.toList with
  | 'x' :: cs =>
    match unhexBytes cs with
    | some bs => String.fromUTF8? (ByteArray.mk bs.toArray)
    | none => none
  | _ => none

def str : P String := do
  let t ← tok
  match decodeStr t with
  | some s => pure s
  | none => fail

def hexDigit (n : Nat) : Char :=
  if n < 10 then Char.ofNat ('0'.toNat + n) else Char.ofNat ('a'.toNat + (n - 10))

def encodeStr (s : String) : String :=
  let bs := s.toUTF8.toList
  String.ofList ('x' :: bs.flatMap (fun b => [hexDigit (b.toNat / 16), hexDigit (b.toNat % 16)]))

/-- `-` or a value. -/
def opt (p : P α) : P (Option α) := fun ts =>
  match ts with
  | "-" :: ts' => some (none, ts')
  | _ => match p ts with
    | some (a, ts') => some (some a, ts')
    | none => none

def rep (p : P α) : Nat → P (List α)
  | 0 => pure []
  | n + 1 => do
    let a ← p
    let as ← rep p n
    pure (a :: as)

/-- count-prefixed list -/
def list (p : P α) : P (List α) := do
  let n ← nat
  rep p n

def expect (s : String) : P Unit := do
  let t ← tok
  if t = s then pure () else fail

def runAll (p : P α) (ts : Toks) : Option α :=
  match p ts with
  | some (a, []) => some a
  | _ => none

/-! Output helpers -/
def showBool (b : Bool) : String := if b then "1" else "0"
def showOpt (f : α → String) : Option α → String
  | none => "-"
  | some a => f a
def showList (f : α → String) (l : List α) : String :=
  " ".intercalate (toString l.length :: l.map f)

end Cuke.Wire
