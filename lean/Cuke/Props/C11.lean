import Cuke.Lemmas.NormalizeRun
/-!
# C11 — Normalize reorders any contract-abiding stream losslessly into sequential order
Model: `Cuke.Norm.handle`, `Cuke.normRun` (Cuke/Model/Normalize.lean); the Runner contract `Cuke.Contract`
(Cuke/Model/Contract.lean, a status ledger over the stream alone).

Property theorems only; the helper definitions (`SafeRun`, `StartsRun`: the contract relative to the
normalizer's own bookkeeping, decidable, evaluated by the monitor) and the step lemmas live in
Cuke/Lemmas/NormalizeRun.lean and the Cuke/Lemmas/Normalize*.lean files.

* **T0 no panic** (`norm_T0_no_panic`), **T1 lossless** (`norm_T1_perm`, `norm_T1_complete`,
  `norm_T1_finished_last`), **T2 sequential output** (`norm_T2_sequential`), **T3 per-attempt order**
  (`norm_T3_order`), **T4 immediate forwarding** (`norm_T4_run_level`, `norm_finished_last`,
  `norm_passthrough_after_finished`, `norm_T4b_head_forwarded`), **T5 pass-through of sequential input**
  (`norm_passthrough_sequential`, `norm_idempotent`);
* `contract_implies_safeRun`: every stream the ledger accepts satisfies `SafeRun` and `StartsRun`;
  `norm_contract_whole_run`: all of the above from `Contract` alone.
-/
namespace Cuke.C11
open Cuke List Cuke.NormL Cuke.Mon

theorem norm_T1_perm (evs : List Ev) (hs : SafeRun Norm.init evs = true) :
    ∃ n outs, normRun Norm.init evs = some (n, outs) ∧ outs.flatten ++ buffered n ~ evs := by
  obtain ⟨n, outs, h1, h2, _, _⟩ := norm_T1_perm_from Norm.init evs (by simp [NormOk, Norm.init]) (by simp [Norm.init]) (by simp [Norm.init]) hs
  exact ⟨n, outs, h1, by simpa [buffered, Norm.init, bufFeats] using h2⟩

/-- **T1 for complete streams.** For a contract-abiding stream that ends with run-Finished, the
    concatenation of everything forwarded is a permutation of the stream: exactly the same multiset of
    events, nothing dropped, duplicated or left behind. -/
theorem norm_T1_complete (pre : List Ev) (hs : SafeRun Norm.init (pre ++ [Ev.finished]) = true) :
    ∃ n outs, normRun Norm.init (pre ++ [Ev.finished]) = some (n, outs) ∧ outs.flatten ~ pre ++ [Ev.finished] ∧
      n.fin = .emitted := by
  obtain ⟨hs1, hs2⟩ := safeRun_append Norm.init pre [Ev.finished] hs
  obtain ⟨n1, outs1, hr1, hp1, hok1, hfin1, hemp1⟩ :=
    norm_T1_perm_from Norm.init pre (by simp [NormOk, Norm.init]) (by simp [Norm.init]) (by simp [Norm.init]) hs1
  have hs3 := hs2 n1 outs1 hr1
  simp only [SafeRun, Bool.and_eq_true] at hs3
  cases hh : n1.handle Ev.finished with
  | none => simp [hh] at hs3
  | some r =>
    obtain ⟨n2, out⟩ := r
    obtain ⟨hp, hok2, hfin2, hA, hB, _⟩ := handle_step n1 n2 Ev.finished out hok1 hfin1 hs3.1 hh
    have hrun : normRun Norm.init (pre ++ [Ev.finished]) = some (n2, outs1 ++ [out]) := by
      rw [normRun_append, hr1]; simp [normRun, hh]
    have hb : buffered n2 = [] ∧ n2.fin = .emitted := by
      by_cases hem : n1.fin = .emitted
      · obtain ⟨rfl, _⟩ := hB hem
        exact ⟨hemp1 hem, hem⟩
      · exact hA rfl hem
    refine ⟨n2, outs1 ++ [out], hrun, ?_, hb.2⟩
    rw [hb.1, append_nil] at hp
    simp only [flatten_append, flatten_cons, flatten_nil, append_nil]
    have h1 : outs1.flatten ++ out ~ outs1.flatten ++ (buffered n1 ++ [Ev.finished]) := Perm.append_left _ hp
    have h2 : outs1.flatten ++ (buffered n1 ++ [Ev.finished]) ~ (outs1.flatten ++ buffered n1) ++ [Ev.finished] := by
      rw [append_assoc]
    have h3 : (outs1.flatten ++ buffered n1) ++ [Ev.finished] ~ (buffered Norm.init ++ pre) ++ [Ev.finished] :=
      hp1.append_right _
    exact h1.trans (h2.trans (h3.trans (by simp [buffered, Norm.init, bufFeats])))

/-! ## T4 — immediate forwarding -/

/-- run-Started, ParsingFinished and parser errors are forwarded by the very call that receives them,
    before anything else. -/
theorem norm_T4_run_level (n n' : Norm) (e : Ev) (out : List Ev) (hr : e.isRunLevel = true)
    (h : n.handle e = some (n', out)) : out.head? = some e := by
  unfold Norm.handle at h
  split at h
  · simp only [Option.some.injEq, Prod.mk.injEq] at h; obtain ⟨_, rfl⟩ := h; rfl
  · split at h
    · cases h
    · split at h <;> simp only [Option.some.injEq, Prod.mk.injEq] at h <;> obtain ⟨_, rfl⟩ := h <;> simp [hr]

/-- run-Finished is forwarded by the call that receives it — after everything that was still owed —
    and is the LAST event that call forwards. -/
theorem norm_finished_last (n n' : Norm) (out : List Ev) (hfin : n.fin = .no)
    (h : n.handle Ev.finished = some (n', out)) : out.getLast? = some Ev.finished ∧ n'.fin = .emitted := by
  simp only [Norm.handle, hfin, show (Fin.no == Fin.emitted) = false from rfl, Bool.false_eq_true, if_false,
    Norm.insert, beq_self_eq_true, if_true, Option.some.injEq, Prod.mk.injEq] at h
  obtain ⟨rfl, rfl⟩ := h
  simp

/-- After run-Finished has been forwarded every further event passes through unchanged, at once. -/
theorem norm_passthrough_after_finished (n : Norm) (e : Ev) (h : n.fin = .emitted) :
    n.handle e = some (n, [e]) := by simp [Norm.handle, h]

/-! ## T3 — each attempt's events keep their original relative order -/

/-- **T3 over a whole run.** For a contract-abiding stream `pre ++ [Finished]` and every attempt
    (scenario, retry counter): the events of that attempt are forwarded in exactly their original
    relative order — `projAtt κ output = projAtt κ input`. -/
theorem norm_T3_order (pre : List Ev) (hs : SafeRun Norm.init (pre ++ [Ev.finished]) = true) (κ : AKey) :
    ∃ n outs, normRun Norm.init (pre ++ [Ev.finished]) = some (n, outs) ∧
      proj κ outs.flatten = proj κ (pre ++ [Ev.finished]) := by
  obtain ⟨n, outs, hrun, _, hfin⟩ := norm_T1_complete pre hs
  obtain ⟨n', outs', hrun', hp⟩ := norm_T3_from Norm.init (pre ++ [Ev.finished]) (by simp [NormD, featsD, Norm.init])
    (by simp [NormOk, Norm.init]) (by simp [Norm.init]) (by simp [Norm.init]) hs κ
  rw [hrun] at hrun'
  simp only [Option.some.injEq, Prod.mk.injEq] at hrun'
  obtain ⟨rfl, rfl⟩ := hrun'
  refine ⟨n, outs, hrun, ?_⟩
  -- everything was flushed: nothing is owed at the end
  obtain ⟨hs1, hs2⟩ := safeRun_append Norm.init pre [Ev.finished] hs
  have hbuf : buffered n = [] := by
    obtain ⟨n1, outs1, hr1, _, hok1, hfin1, hemp1⟩ :=
      norm_T1_perm_from Norm.init pre (by simp [NormOk, Norm.init]) (by simp [Norm.init]) (by simp [Norm.init]) hs1
    have hs3 := hs2 n1 outs1 hr1
    simp only [SafeRun, Bool.and_eq_true] at hs3
    cases hh : n1.handle Ev.finished with
    | none => simp [hh] at hs3
    | some r =>
      obtain ⟨n2, out⟩ := r
      obtain ⟨_, _, _, hA, hB, _⟩ := handle_step n1 n2 Ev.finished out hok1 hfin1 hs3.1 hh
      have hrun2 : normRun Norm.init (pre ++ [Ev.finished]) = some (n2, outs1 ++ [out]) := by
        rw [normRun_append, hr1]; simp [normRun, hh]
      rw [hrun] at hrun2
      simp only [Option.some.injEq, Prod.mk.injEq] at hrun2
      obtain ⟨rfl, _⟩ := hrun2
      by_cases hem : n1.fin = .emitted
      · obtain ⟨rfl, _⟩ := hB hem; exact hemp1 hem
      · exact (hA rfl hem).1
  rw [hbuf, append_nil] at hp
  simpa [buffered, Norm.init, bufFeats] using hp

/-- the projection used here is the one the monitor `mon.c11` evaluates on real output -/
theorem proj_eq_monitor (κ : AKey) (l : List Ev) : proj κ l = Cuke.Mon.projAtt κ l := by
  unfold proj Cuke.Mon.projAtt
  congr 1
  funext e
  cases e <;> simp [evKey?]

/-! ## T2 — the forwarded stream is sequential -/

/-- **T2 over a whole run.** For a contract-abiding stream `pre ++ [Finished]` everything `Normalize`
    forwards, taken together, is accepted by the strict sequential automaton: one feature open at a time,
    one rule or top-level attempt inside it, one attempt inside a rule, each attempt contiguous from its
    `Started` to its `Finished`, brackets properly nested, run-Finished last. -/
theorem norm_T2_sequential (pre : List Ev) (hnf : ∀ e ∈ pre, e ≠ Ev.finished)
    (hs : SafeRun Norm.init (pre ++ [Ev.finished]) = true) (hc : StartsRun Norm.init (pre ++ [Ev.finished]) = true) :
    ∃ n outs, normRun Norm.init (pre ++ [Ev.finished]) = some (n, outs) ∧ Cuke.Mon.seqOk outs.flatten = true := by
  obtain ⟨hs1, hs2⟩ := safeRun_append Norm.init pre [Ev.finished] hs
  have hc1 : StartsRun Norm.init pre = true ∧
      ∀ n' outs, normRun Norm.init pre = some (n', outs) → StartsRun n' [Ev.finished] = true := by
    clear hs hs1 hs2 hnf
    generalize Norm.init = n0 at hc ⊢
    induction pre generalizing n0 with
    | nil => exact ⟨rfl, fun n' outs h => by simp only [normRun, Option.some.injEq, Prod.mk.injEq] at h; rw [← h.1]; exact hc⟩
    | cons e es ih =>
      simp only [cons_append, StartsRun, Bool.and_eq_true] at hc
      cases hh : n0.handle e with
      | none => simp [hh] at hc
      | some r =>
        obtain ⟨n1, out⟩ := r
        simp only [hh] at hc
        obtain ⟨i1, i2⟩ := ih n1 hc.2
        refine ⟨by simp [StartsRun, hc.1, hh, i1], ?_⟩
        intro n' outs hrun
        simp only [normRun, hh] at hrun
        cases hr : normRun n1 es with
        | none => simp [hr] at hrun
        | some r2 =>
          obtain ⟨n2, outs2⟩ := r2
          simp only [hr, Option.some.injEq, Prod.mk.injEq] at hrun
          rw [← hrun.1]
          exact i2 n2 outs2 hr
  obtain ⟨n1, outs1, hr1, hseq1, hw1, hok1, hno1⟩ :=
    norm_T2_from Norm.init pre (by simp [NormOk, Norm.init]) (by simp [featsWF, Norm.init]) (by simp [Norm.init]) hnf hs1 hc1.1
  have hs3 := hs2 n1 outs1 hr1
  simp only [SafeRun, Bool.and_eq_true] at hs3
  cases hh : n1.handle Ev.finished with
  | none => simp [hh] at hs3
  | some r =>
    obtain ⟨n2, out⟩ := r
    have hrun : normRun Norm.init (pre ++ [Ev.finished]) = some (n2, outs1 ++ [out]) := by
      rw [normRun_append, hr1]; simp [normRun, hh]
    refine ⟨n2, outs1 ++ [out], hrun, ?_⟩
    -- the last call: everything still queued is closed, so the queue empties and run-Finished follows
    have hh' := hh
    unfold Norm.handle at hh'
    have hem' : (n1.fin == Fin.emitted) = false := by rw [hno1]; rfl
    simp only [hem', Bool.false_eq_true, if_false, Norm.insert, beq_self_eq_true, if_true, Option.some.injEq,
      Prod.mk.injEq] at hh'
    obtain ⟨_, rfl⟩ := hh'
    have hsafe := hs3.1
    simp only [safeStep, hem', Bool.false_or, Bool.and_eq_true, beq_self_eq_true, Bool.not_true, Bool.false_or] at hsafe
    have hnil := emitFeats_all_closed n1.feats hok1 hsafe.2
    obtain ⟨hrunE, _⟩ := emitFeats_seq n1.feats hok1 hw1
    rw [hnil] at hrunE
    rw [seqOk_iff, flatten_append, seqRun_append]
    have h0 : featsSt Norm.init.feats = {} := rfl
    rw [h0] at hseq1
    rw [hseq1]
    simp only [flatten_cons, flatten_nil, append_nil, Option.bind_some, Ev.isRunLevel, Bool.false_eq_true, if_false,
      nil_append]
    rw [seqRun_append, hrunE]
    simp [featsSt, seqRun_cons, seqRun_nil, seqStep]

/-! ## T4b — events of the entity at the head of the output do not wait -/

/-- **T4b.** After any contract-abiding prefix (no run-Finished yet), if the output so far ends INSIDE an
    attempt (the sequential automaton, run over everything forwarded, shows that attempt open), then the next
    event of that attempt is forwarded by the very call that receives it, as the first thing — it does not
    wait for the attempt, the rule or the feature to finish. -/
theorem norm_T4b_head_forwarded (pre : List Ev) (hnf : ∀ e ∈ pre, e ≠ Ev.finished)
    (hs : SafeRun Norm.init pre = true) (hc : StartsRun Norm.init pre = true)
    (n : Norm) (outs : List (List Ev)) (hrun : normRun Norm.init pre = some (n, outs))
    (k : ScenKey) (ret : Option Retries) (ev : ScenEv)
    (hopen : seqRun {} outs.flatten = some (inAtt k.feat k.rule (some (k, ret))))
    (n' : Norm) (out : List Ev) (h : n.handle (.scen k ret ev) = some (n', out)) :
    out.head? = some (.scen k ret ev) := by
  obtain ⟨n0, outs0, hrun0, hseq, _, _, hno⟩ :=
    norm_T2_from Norm.init pre (by simp [NormOk, Norm.init]) (by simp [featsWF, Norm.init]) (by simp [Norm.init]) hnf hs hc
  rw [hrun] at hrun0
  simp only [Option.some.injEq, Prod.mk.injEq] at hrun0
  obtain ⟨rfl, rfl⟩ := hrun0
  have h0 : featsSt Norm.init.feats = {} := rfl
  rw [h0, hopen] at hseq
  have hst : featsSt n.feats = inAtt k.feat k.rule (some (k, ret)) := (Option.some.inj hseq).symm
  have hd := normRun_drained Norm.init n pre outs (by simp [headDrained, Norm.init]) hrun
  exact head_event_forwarded n n' k ret ev out hno hd hst h

/-! ## an already sequential stream passes through unchanged, event by event -/

/-- **Pass-through.** If the stream handed to `Normalize` is already sequential (accepted by the strict
    automaton `seqOk` — the very condition T2 establishes for the output), every call forwards exactly the
    event it received, at once: the per-call outputs are `[e₁], [e₂], …`. No further hypothesis. -/
theorem norm_passthrough_sequential (evs : List Ev) (h : seqOk evs = true) :
    ∃ n, normRun Norm.init evs = some (n, evs.map (fun e => [e])) := by
  rw [seqOk_iff, Option.isSome_iff_exists] at h
  obtain ⟨s, hs⟩ := h
  exact passthrough_from {} s evs rfl rfl hs

/-- hence `Normalize ∘ Normalize` forwards what `Normalize` forwards: the output of a contract-abiding run
    is a fixed point -/
theorem norm_idempotent (pre : List Ev) (hnf : ∀ e ∈ pre, e ≠ Ev.finished)
    (hs : SafeRun Norm.init (pre ++ [Ev.finished]) = true) (hc : StartsRun Norm.init (pre ++ [Ev.finished]) = true) :
    ∃ n outs n2, normRun Norm.init (pre ++ [Ev.finished]) = some (n, outs) ∧
      normRun Norm.init outs.flatten = some (n2, outs.flatten.map (fun e => [e])) := by
  obtain ⟨n, outs, hrun, hseq⟩ := norm_T2_sequential pre hnf hs hc
  obtain ⟨n2, h2⟩ := norm_passthrough_sequential outs.flatten hseq
  exact ⟨n, outs, n2, hrun, h2⟩

/-! ## The whole run -/

/-- **T1 + T5 over a whole run.** A contract-abiding stream `pre ++ [Finished]` (no other run-Finished)
    comes out as `pre' ++ [Finished]` where `pre'` is a permutation of `pre`: the same multiset of events,
    and run-Finished is the very last event forwarded. -/
theorem norm_T1_finished_last (pre : List Ev) (hnf : ∀ e ∈ pre, e ≠ Ev.finished)
    (hs : SafeRun Norm.init (pre ++ [Ev.finished]) = true) :
    ∃ n outs pre', normRun Norm.init (pre ++ [Ev.finished]) = some (n, outs) ∧
      outs.flatten = pre' ++ [Ev.finished] ∧ pre' ~ pre := by
  obtain ⟨hs1, hs2⟩ := safeRun_append Norm.init pre [Ev.finished] hs
  obtain ⟨n1, outs1, hr1, hp1, hok1, hfin1, _⟩ :=
    norm_T1_perm_from Norm.init pre (by simp [NormOk, Norm.init]) (by simp [Norm.init]) (by simp [Norm.init]) hs1
  have hno : n1.fin = .no :=
    normRun_fin_no Norm.init n1 pre outs1 (by simp [NormOk, Norm.init]) (by simp [Norm.init]) hnf hs1 hr1
  have hs3 := hs2 n1 outs1 hr1
  simp only [SafeRun, Bool.and_eq_true] at hs3
  cases hh : n1.handle Ev.finished with
  | none => simp [hh] at hs3
  | some r =>
    obtain ⟨n2, out⟩ := r
    obtain ⟨hp, _, _, hA, _, _⟩ := handle_step n1 n2 Ev.finished out hok1 hfin1 hs3.1 hh
    have hrun : normRun Norm.init (pre ++ [Ev.finished]) = some (n2, outs1 ++ [out]) := by
      rw [normRun_append, hr1]; simp [normRun, hh]
    have hb := hA rfl (by rw [hno]; decide)
    rw [hb.1, append_nil] at hp
    have hlast := (norm_finished_last n1 n2 out hno hh).1
    obtain ⟨out', rfl⟩ : ∃ out', out = out' ++ [Ev.finished] := by
      have hne : out ≠ [] := by intro h0; rw [h0] at hlast; simp at hlast
      refine ⟨out.dropLast, ?_⟩
      have := dropLast_concat_getLast hne
      rw [getLast?_eq_some_getLast hne, Option.some.injEq] at hlast
      rw [hlast] at this
      exact this.symm
    refine ⟨n2, outs1 ++ [out' ++ [Ev.finished]], outs1.flatten ++ out', hrun, by simp, ?_⟩
    have h1 : out' ~ buffered n1 := (perm_append_right_iff [Ev.finished]).mp hp
    have h2 : outs1.flatten ++ out' ~ outs1.flatten ++ buffered n1 := Perm.append_left _ h1
    exact h2.trans (hp1.trans (by simp [buffered, Norm.init, bufFeats]))

/-! ## Non-vacuity: an interleaved contract-abiding stream -/
def ka : ScenKey := ⟨1, none, 10⟩
def kb : ScenKey := ⟨2, some 5, 20⟩
def exStream : List Ev :=
  [.started, .featStarted 1, .featStarted 2, .ruleStarted 2 5, .scen kb none .started, .scen ka none .started,
   .scen kb none .finished, .ruleFinished 2 5, .featFinished 2, .scen ka none .finished, .featFinished 1, .finished]

example : SafeRun Norm.init exStream = true := by decide +kernel
example : StartsRun Norm.init exStream = true := by decide +kernel
/-- T2 on the interleaved example -/
example : (normRun Norm.init exStream).map (fun r => seqOk r.2.flatten) = some true ∧ seqOk exStream = false := by
  decide +kernel
example : (normRun Norm.init exStream).map (fun r => r.2.flatten) =
    some [.started, .featStarted 1, .scen ka none .started, .scen ka none .finished, .featFinished 1,
          .featStarted 2, .ruleStarted 2 5, .scen kb none .started, .scen kb none .finished, .ruleFinished 2 5,
          .featFinished 2, .finished] := by decide +kernel

/-- T3 on the interleaved example: attempt `ka`'s events come out in their original order although
    `kb`'s were received in between -/
example : (normRun Norm.init exStream).map (fun r => proj (ka, none) r.2.flatten) =
    some (proj (ka, none) exStream) ∧ (proj (ka, none) exStream).length = 2 := by decide +kernel

/-! ## The contract, stated without reference to the normalizer

`Cuke.Contract` (Cuke/Model/Contract.lean) is a status ledger over the STREAM alone. It implies `SafeRun`
and `StartsRun` — so every theorem above holds for every stream the ledger accepts — and that no
`panic!` / `unreachable!` branch of `Normalize` is reached (T0 proper). Invariant and lemmas:
Cuke/Lemmas/NormalizeContract.lean. -/

/-- **Contract ⇒ hypotheses of the C11 theorems.** Every stream accepted by the status ledger satisfies
    `SafeRun` and `StartsRun`. -/
theorem contract_implies_safeRun (evs : List Ev) (h : Contract evs = true) :
    SafeRun Norm.init evs = true ∧ StartsRun Norm.init evs = true :=
  contract_safeRun_from {} Norm.init evs cwf_init (by simp [NormOk, Norm.init]) (by simp [NormD, featsD, Norm.init])
    (Or.inl ⟨rfl, rfl, inv_init⟩) h

/-- **T0.** On a contract-abiding stream — of any length, any interleaving of concurrently running scenarios,
    anything at all after run-Finished — `Normalize` never reaches one of its `panic!("no Feature")`,
    `panic!("no Rule")` / `unreachable!()` branches. -/
theorem norm_T0_no_panic (evs : List Ev) (h : Contract evs = true) :
    ∃ n outs, normRun Norm.init evs = some (n, outs) :=
  safeRun_runs Norm.init evs (contract_implies_safeRun evs h).1

/-- **C11, whole run, from the contract alone.** For every contract-abiding stream `pre ++ [Finished]`:
    no panic; the output is `pre' ++ [Finished]` with `pre'` a permutation of `pre` (nothing lost, nothing
    duplicated, run-Finished last); the output is sequential (accepted by the strict automaton); and every
    attempt's events come out in their original relative order. -/
theorem norm_contract_whole_run (pre : List Ev) (hnf : ∀ e ∈ pre, e ≠ Ev.finished)
    (h : Contract (pre ++ [Ev.finished]) = true) :
    ∃ n outs pre', normRun Norm.init (pre ++ [Ev.finished]) = some (n, outs) ∧
      outs.flatten = pre' ++ [Ev.finished] ∧ pre' ~ pre ∧
      Cuke.Mon.seqOk outs.flatten = true ∧
      ∀ κ : AKey, proj κ outs.flatten = proj κ (pre ++ [Ev.finished]) := by
  obtain ⟨hs, hc⟩ := contract_implies_safeRun _ h
  obtain ⟨n, outs, pre', hrun, hflat, hperm⟩ := norm_T1_finished_last pre hnf hs
  refine ⟨n, outs, pre', hrun, hflat, hperm, ?_, ?_⟩
  · obtain ⟨n2, outs2, hrun2, hseq⟩ := norm_T2_sequential pre hnf hs hc
    rw [hrun] at hrun2
    simp only [Option.some.injEq, Prod.mk.injEq] at hrun2
    rw [hrun2.2]; exact hseq
  · intro κ
    obtain ⟨n3, outs3, hrun3, hp⟩ := norm_T3_order pre hs κ
    rw [hrun] at hrun3
    simp only [Option.some.injEq, Prod.mk.injEq] at hrun3
    rw [hrun3.2]; exact hp

/-- non-vacuity: the interleaved example stream is contract-abiding, and so is one with a retried attempt
    and events after run-Finished -/
example : Contract exStream = true := by decide +kernel
example : Contract [.started, .featStarted 1, .scen ka (some ⟨0, 1⟩) .started, .featStarted 2, .ruleStarted 2 5,
    .scen ka (some ⟨0, 1⟩) (.step 0 (.failed .notFound)), .scen kb none .started, .scen ka (some ⟨0, 1⟩) .finished,
    .scen ka (some ⟨1, 0⟩) .started, .scen kb none .finished, .scen ka (some ⟨1, 0⟩) .finished, .ruleFinished 2 5,
    .featFinished 1, .featFinished 2, .finished, .scen ka none .started] = true := by decide +kernel
/-- … and the ledger rejects what the contract forbids -/
example : Contract [.featStarted 1, .scen ka none .started, .featFinished 1] = false ∧   -- closing over an open attempt
    Contract [.featStarted 1, .featFinished 1, .featStarted 1] = false ∧                    -- re-opening
    Contract [.featStarted 1, .scen ka none (.step 0 .started)] = false ∧                   -- attempt without Started
    Contract [.scen ka none .started] = false ∧                                             -- outside any feature
    Contract [.featStarted 1, .finished] = false := by decide +kernel                       -- run-Finished over an open feature

end Cuke.C11
