import Cuke.Model.Reporters
import Cuke.Lemmas.BasicWriter
/-!
# C14 — Built-in reports, parsed back, state exactly the facts of the event stream
Models: `Cuke.Rep.ltRun` (libtest), `Cuke.Rep.junitRun`, `Cuke.Rep.jsonRun`, and `Cuke.Rep.facts`.
Record-level logic is proved here; byte-level well-formedness / escaping is TESTED by parsing the real
output back (serde_json, XML structure), not proved. The plain terminal writer `writer::Basic` is modelled
in non-terminal mode (`Cuke.Rep.basicRun`, Cuke/Model/BasicWriter.lean): printed blocks as records, the
indentation counter as its only state; its text is parsed back block by block by the harness.
-/
namespace Cuke.C14
open Cuke Cuke.Rep List

/-! ## libtest: buffering until ParsingFinished -/

def isPF : Ev → Bool
  | .parsingFinished .. => true
  | _ => false

theorem handle_buffers (s : Lt) (hasPath) (e : Ev) (hp : s.parsedAll = false) (he : isPF e = false) :
    s.handle hasPath e = ({ s with events := s.events ++ [e] }, []) := by
  unfold Lt.handle
  simp only [hp, Bool.false_eq_true, if_false]
  cases e <;> simp_all [isPF]

/-- Nothing is written before ParsingFinished arrives; the events are kept, in order. -/
theorem lt_buffering (hasPath) (evs : List Ev) (h : ∀ e ∈ evs, isPF e = false) :
    (ltRun hasPath evs).2 = [] ∧ (ltRun hasPath evs).1.events = evs ∧ (ltRun hasPath evs).1.parsedAll = false := by
  suffices ∀ (s : Lt) acc, s.parsedAll = false →
      let r := evs.foldl (fun (acc : Lt × List LtRec) e => let r := acc.1.handle hasPath e; (r.1, acc.2 ++ r.2)) (s, acc)
      r.2 = acc ∧ r.1.events = s.events ++ evs ∧ r.1.parsedAll = false by
    simpa [ltRun] using this {} [] rfl
  induction evs with
  | nil => intro s acc hp; simp [hp]
  | cons e es ih =>
    intro s acc hp
    simp only [foldl_cons]
    rw [handle_buffers s hasPath e hp (h e (by simp))]
    have := ih (fun x hx => h x (by simp [hx])) { s with events := s.events ++ [e] } (acc ++ []) hp
    simpa using this

/-- At ParsingFinished the suite `started` record comes first, then the buffered events are replayed
    in their original order. -/
theorem lt_replay_at_parsing_finished (s : Lt) (hasPath) (f r sc st pe : Nat) (hp : s.parsedAll = false) :
    s.handle hasPath (.parsingFinished f r sc st pe) =
      ({ s with parsedAll := true, events := [] } : Lt).expandAll hasPath (.parsingFinished f r sc st pe :: s.events) := by
  simp [Lt.handle, hp]

theorem suite_started_first (s : Lt) (hasPath) (f r sc st pe : Nat) (rest : List Ev) :
    (s.expandAll hasPath (.parsingFinished f r sc st pe :: rest)).2.head? = some (.suiteStarted (st + pe)) := by
  simp [Lt.expandAll, Lt.expand]

/-! ## libtest: verdict and totals -/

/-- The suite line says `ok` iff there is no final step failure, no hook failure and no parser error;
    its `failed` total is their sum, `passed` / `ignored` are the counters of ok / ignored records. -/
theorem lt_verdict (s : Lt) (hasPath) :
    (s.expand hasPath .finished).2 =
      [if s.failed + s.parsingErrors + s.hookErrors = 0 then .suiteOk s.passed 0 s.ignored
       else .suiteFailed s.passed (s.failed + s.parsingErrors + s.hookErrors) s.ignored] := by
  simp only [Lt.expand]
  by_cases h : s.failed + s.parsingErrors + s.hookErrors = 0
  · simp [h]
  · have h' : (s.failed + s.parsingErrors + s.hookErrors == 0) = false := by simpa using h
    simp only [h', h, if_false]
    rfl

/-- every `ok` record bumps `passed`, every `ignored` record bumps `ignored`, a `failed` step record bumps
    `failed` or (if the attempt will be retried) `retried` — never both, never neither -/
theorem lt_step_counters (s : Lt) (hasPath) (k : ScenKey) (ret) (bg : Bool) (i : Nat) (r : StepRes) :
    let s' := (Lt.expand.stepRec s hasPath k ret bg i r).1
    (r = .passed → s'.passed = s.passed + 1 ∧ s'.failed = s.failed ∧ s'.ignored = s.ignored) ∧
    (r = .skipped → s'.ignored = s.ignored + 1 ∧ s'.failed = s.failed ∧ s'.passed = s.passed) ∧
    (∀ err, r = .failed err → s'.passed = s.passed ∧ s'.ignored = s.ignored ∧
      ((isRetriedFailure ret err = true ∧ s'.retried = s.retried + 1 ∧ s'.failed = s.failed) ∨
       (isRetriedFailure ret err = false ∧ s'.failed = s.failed + 1 ∧ s'.retried = s.retried))) := by
  refine ⟨?_, ?_, ?_⟩
  · rintro rfl
    by_cases hp : hasPath k.feat = true <;> simp [Lt.expand.stepRec, Lt.name, hp]
  · rintro rfl
    by_cases hp : hasPath k.feat = true <;> simp [Lt.expand.stepRec, Lt.name, hp]
  · rintro err rfl
    by_cases hp : hasPath k.feat = true <;> cases h : isRetriedFailure ret err <;>
      simp [Lt.expand.stepRec, Lt.name, hp, h]

/-! ## libtest: names, and the started/result pairing -/

/-- The test name is a function of (feature, rule, scenario, retries, step) and — for a feature WITHOUT a path — of the
    running number of path-less features, which only a `Feature::Started` changes; computing a name does not change the
    writer's state (since the `fix:` for F-C14a: before, every call bumped the number). -/
theorem lt_name_stable (s s' : Lt) (hasPath : Nat → Bool) (k : ScenKey) (ret) (st : LtStep)
    (h : hasPath k.feat = true ∨ s'.featuresWithoutPath = s.featuresWithoutPath) :
    (s.name hasPath k ret st).2 = (s'.name hasPath k ret st).2 ∧ (s.name hasPath k ret st).1 = s := by
  rcases h with h | h
  · simp [Lt.name, h]
  · by_cases hp : hasPath k.feat = true <;> simp [Lt.name, hp, h]

/-- **started/result pairing**: for EVERY feature (with or without a path), a step's Started event followed by its
    result event yields `started n` and a result record with the SAME name `n`. -/
theorem lt_started_paired (s : Lt) (hasPath : Nat → Bool) (k : ScenKey) (ret) (i : Nat) (r : StepRes)
    (hr : r ≠ .started) :
    ∃ n res, (s.expandAll hasPath [.scen k ret (.step i .started), .scen k ret (.step i r)]).2 = [.started n, res] ∧
      (res = .ok n ∨ res = .failed n ∨ res = .ignored n) := by
  by_cases h : hasPath k.feat = true
  · refine ⟨⟨k.feat, none, k.rule, k.scen, retryOf ret, .step false i⟩, ?_⟩
    cases r with
    | started => exact absurd rfl hr
    | passed => exact ⟨_, by simp [Lt.expandAll, Lt.expand, Lt.expand.stepRec, Lt.name, h], Or.inl rfl⟩
    | skipped => exact ⟨_, by simp [Lt.expandAll, Lt.expand, Lt.expand.stepRec, Lt.name, h], Or.inr (Or.inr rfl)⟩
    | failed err =>
      refine ⟨_, ?_, Or.inr (Or.inl rfl)⟩
      simp only [Lt.expandAll, Lt.expand, Lt.expand.stepRec, Lt.name, h, if_true]
      split <;> simp
  · refine ⟨⟨k.feat, some s.featuresWithoutPath, k.rule, k.scen, retryOf ret, .step false i⟩, ?_⟩
    cases r with
    | started => exact absurd rfl hr
    | passed => exact ⟨_, by simp [Lt.expandAll, Lt.expand, Lt.expand.stepRec, Lt.name, h], Or.inl rfl⟩
    | skipped => exact ⟨_, by simp [Lt.expandAll, Lt.expand, Lt.expand.stepRec, Lt.name, h], Or.inr (Or.inr rfl)⟩
    | failed err =>
      refine ⟨_, ?_, Or.inr (Or.inl rfl)⟩
      simp only [Lt.expandAll, Lt.expand, Lt.expand.stepRec, Lt.name, h, Bool.false_eq_true, if_false]
      split <;> simp

def kx : ScenKey := ⟨0, none, 1⟩

/-- regression for F-C14a (fixed): a path-less feature's `started` record and its result carry the same number, and two
    path-less features get different numbers -/
theorem lt_pathless_features_numbered :
    ((({} : Lt).expandAll (fun _ => false) [.featStarted 0, .scen kx none (.step 0 .started), .scen kx none (.step 0 .passed),
        .featFinished 0, .featStarted 5, .scen ⟨5, none, 6⟩ none (.step 0 .started)]).2) =
      [.started ⟨0, some 1, none, 1, none, .step false 0⟩, .ok ⟨0, some 1, none, 1, none, .step false 0⟩,
       .started ⟨5, some 2, none, 6, none, .step false 0⟩] := by
  decide

/-! ## libtest: exactly the facts of the stream -/

/-- identity of a result, without the running number -/
structure Key where
  k : ScenKey
  retry : Option (Nat × Nat)
  step : LtStep
  cls : Nat   -- 0 ok, 1 failed, 2 ignored
  deriving DecidableEq, Repr

def recKey : LtRec → Option Key
  | .ok n => some ⟨⟨n.feat, n.rule, n.scen⟩, n.retry, n.step, 0⟩
  | .failed n => some ⟨⟨n.feat, n.rule, n.scen⟩, n.retry, n.step, 1⟩
  | .ignored n => some ⟨⟨n.feat, n.rule, n.scen⟩, n.retry, n.step, 2⟩
  | _ => none

def resCls : StepRes → Option Nat
  | .passed => some 0
  | .failed _ => some 1
  | .skipped => some 2
  | .started => none

def evKey : Ev → Option Key
  | .scen k ret (.hook t (.failed _)) => some ⟨k, retryOf ret, .hook (t == .before), 1⟩
  | .scen k ret (.bg i r) => (resCls r).map (fun c => ⟨k, retryOf ret, .step true i, c⟩)
  | .scen k ret (.step i r) => (resCls r).map (fun c => ⟨k, retryOf ret, .step false i, c⟩)
  | _ => none

theorem name_key (s : Lt) (hasPath) (k : ScenKey) (ret) (st : LtStep) :
    let n := (s.name hasPath k ret st).2
    (⟨n.feat, n.rule, n.scen⟩ : ScenKey) = k ∧ n.retry = retryOf ret ∧ n.step = st := by
  simp only [Lt.name]
  split <;> (cases k; simp)

theorem expand_keys (s : Lt) (hasPath) (e : Ev) :
    (s.expand hasPath e).2.filterMap recKey = (evKey e).toList := by
  cases e with
  | scen k ret se =>
    cases se with
    | hook t r =>
      cases r with
      | failed p =>
        obtain ⟨a, b, c⟩ := name_key { s with hookErrors := s.hookErrors + 1 } hasPath k ret (.hook (t == .before))
        simp only [Lt.expand, evKey, Option.toList, filterMap_cons, recKey, filterMap_nil]
        rw [a, b, c]
      | started => simp [Lt.expand, evKey]
      | passed => simp [Lt.expand, evKey]
    | bg i r =>
      obtain ⟨a, b, c⟩ := name_key s hasPath k ret (.step true i)
      cases r with
      | failed err =>
        simp only [Lt.expand, Lt.expand.stepRec, evKey, resCls, Option.map_some, Option.toList]
        split <;> (simp only [filterMap_cons, recKey, filterMap_nil]; rw [a, b, c])
      | started => simp [Lt.expand, Lt.expand.stepRec, evKey, resCls, recKey]
      | passed => simp only [Lt.expand, Lt.expand.stepRec, evKey, resCls, Option.map_some, Option.toList, filterMap_cons, recKey, filterMap_nil]; rw [a, b, c]
      | skipped => simp only [Lt.expand, Lt.expand.stepRec, evKey, resCls, Option.map_some, Option.toList, filterMap_cons, recKey, filterMap_nil]; rw [a, b, c]
    | step i r =>
      obtain ⟨a, b, c⟩ := name_key s hasPath k ret (.step false i)
      cases r with
      | failed err =>
        simp only [Lt.expand, Lt.expand.stepRec, evKey, resCls, Option.map_some, Option.toList]
        split <;> (simp only [filterMap_cons, recKey, filterMap_nil]; rw [a, b, c])
      | started => simp [Lt.expand, Lt.expand.stepRec, evKey, resCls, recKey]
      | passed => simp only [Lt.expand, Lt.expand.stepRec, evKey, resCls, Option.map_some, Option.toList, filterMap_cons, recKey, filterMap_nil]; rw [a, b, c]
      | skipped => simp only [Lt.expand, Lt.expand.stepRec, evKey, resCls, Option.map_some, Option.toList, filterMap_cons, recKey, filterMap_nil]; rw [a, b, c]
    | started => simp [Lt.expand, evKey]
    | log m => simp [Lt.expand, evKey]
    | finished => simp [Lt.expand, evKey]
  | finished => simp only [Lt.expand, evKey]; split <;> simp [recKey]
  | _ => simp [Lt.expand, evKey, recKey]

/-- **libtest states exactly the facts of the stream**: the result records (ok / failed / ignored), in
    order, are in one-to-one correspondence with the step-result and hook-failure events — nothing
    dropped, duplicated, invented or attributed to another scenario / step / attempt. -/
theorem lt_facts (s : Lt) (hasPath) (evs : List Ev) :
    (s.expandAll hasPath evs).2.filterMap recKey = evs.filterMap evKey := by
  induction evs generalizing s with
  | nil => simp [Lt.expandAll]
  | cons e es ih =>
    simp only [Lt.expandAll, filterMap_append, expand_keys, ih, filterMap_cons]
    cases evKey e <;> simp

/-! ## JUnit: one test case per finished attempt, status by its last significant event -/

theorem junit_case_status (pre : List ScenEv) :
    (∀ p, caseStatus (pre ++ [.hook .before (.failed p)]) = some (.failure true)) ∧
    (∀ i e, caseStatus (pre ++ [.step i (.failed e)]) = some (.failure false)) ∧
    (∀ i, caseStatus (pre ++ [.step i .skipped]) = some .skipped) ∧
    (∀ i, caseStatus (pre ++ [.step i .passed]) = some .success) ∧
    (∀ i e, caseStatus (pre ++ [.step i (.failed e), .hook .after .started, .hook .after .passed]) = some (.failure false)) ∧
    (∀ i p, caseStatus (pre ++ [.step i .passed, .hook .after .started, .hook .after (.failed p)]) = some (.failure true)) := by
  refine ⟨?_, ?_, ?_, ?_, ?_, ?_⟩ <;> intros <;> simp [caseStatus, reverse_append, find?]

/-! ## plain terminal writer (`writer::Basic`, non-terminal mode) -/

/-- **Every executed step, failed hook and parser error is printed exactly once, with the right status,
    in stream order — and nothing else is** (for EVERY stream: this part of the writer is stateless). -/
theorem basic_states_raw_facts (evs : List Ev) :
    (basicRun evs).2.filterMap rawOfLine = evs.filterMap rawOfEv := by
  rw [basicRun_eq]
  suffices ∀ s, (basicFrom s evs).2.filterMap rawOfLine = evs.filterMap rawOfEv from this {}
  induction evs with
  | nil => intro s; simp [basicFrom]
  | cons e es ih =>
    intro s
    rw [basicFrom_cons]
    simp only [filterMap_append, handle_raw, ih]
    cases h : rawOfEv e <;> simp [filterMap_cons, h]

/-- reading the report of a stream that continues a normalized canonical run -/
theorem basic_read_from (q : SeqSt) (b : Basic) (c : BCtx) (evs : List Ev) (h : Tied q b c)
    (hs : SeqOk q evs = true) :
    (readFrom c (basicFrom b evs).2).2 = evs.filterMap bfactOf := by
  induction evs generalizing q b c with
  | nil => simp [basicFrom, readFrom_nil]
  | cons e es ih =>
    simp only [SeqOk] at hs
    cases hq : q.step e with
    | none => simp [hq] at hs
    | some q' =>
      simp only [hq] at hs
      obtain ⟨ht, hf⟩ := tied_step q q' b c e h hq
      rw [basicFrom_cons, readFrom_append]
      simp only [hf, ih q' _ _ ht hs]
      cases hb : bfactOf e <;> simp [filterMap_cons, hb]

/-- **Read back, the plain-text report states exactly the facts of the run, each under its own
    feature / rule / scenario (and retry attempt)**: for every normalized canonical stream (`SeqOk`: what
    `Normalize` hands to the writer), a reader who attributes each `✔ / ? / ✘` block to the headers above it
    (a scenario 4 columns deep is inside the last `Rule:`) recovers `bfactOf` of every event, in order. -/
theorem basic_report_read_back (evs : List Ev) (h : SeqOk {} evs = true) :
    readReport (basicRun evs).2 = evs.filterMap bfactOf := by
  rw [readReport_eq, basicRun_eq]
  exact basic_read_from {} {} {} evs
    ⟨by simp, fun _ => rfl, by simp, by simp, by simp⟩ h

/-- the indentation counter is back at the feature level whenever no scenario / rule is open — so the next
    `Scenario:` header is printed at column 2, or 4 inside a rule (what the reader's rule relies on) -/
theorem basic_indent_tied (q q' : SeqSt) (b : Basic) (c : BCtx) (e : Ev) (h : Tied q b c) (hs : q.step e = some q') :
    (b.handle e).1.indent =
      (if q'.rule.isSome then 2 else 0) + (if q'.scen.isSome then 2 else 0) + (if q'.opened then 4 else 0) :=
  (tied_step q q' b c e h hs).1.indent

/-- attribution needs the stream to be normalized: two interleaved scenarios are read back wrongly
    (which is why the writer must sit behind `Normalize`) -/
example : readReport (basicRun [.featStarted 1, .scen ⟨1, none, 2⟩ none .started, .scen ⟨1, none, 3⟩ none .started,
      .scen ⟨1, none, 2⟩ none (.step 0 .started), .scen ⟨1, none, 2⟩ none (.step 0 .passed)]).2 ≠
    [.featStarted 1, .scen ⟨1, none, 2⟩ none .started, .scen ⟨1, none, 3⟩ none .started,
      .scen ⟨1, none, 2⟩ none (.step 0 .started), .scen ⟨1, none, 2⟩ none (.step 0 .passed)].filterMap bfactOf := by
  decide

/-- non-vacuity: a normalized stream with a rule, a retry, a failing step and a failing hook -/
def basicEx : List Ev :=
  [.started, .featStarted 1, .scen ⟨1, none, 2⟩ none .started, .scen ⟨1, none, 2⟩ none (.step 0 .started),
   .scen ⟨1, none, 2⟩ none (.step 0 .passed), .scen ⟨1, none, 2⟩ none .finished,
   .ruleStarted 1 5, .scen ⟨1, some 5, 6⟩ (some ⟨1, 1⟩) .started, .scen ⟨1, some 5, 6⟩ (some ⟨1, 1⟩) (.bg 0 .started),
   .scen ⟨1, some 5, 6⟩ (some ⟨1, 1⟩) (.bg 0 (.failed (.panic 2))), .scen ⟨1, some 5, 6⟩ (some ⟨1, 1⟩) (.hook .after .started),
   .scen ⟨1, some 5, 6⟩ (some ⟨1, 1⟩) (.hook .after (.failed 0)), .scen ⟨1, some 5, 6⟩ (some ⟨1, 1⟩) .finished,
   .ruleFinished 1 5, .featFinished 1, .finished]

example : SeqOk {} basicEx = true ∧
    (basicRun basicEx).2 = [.feature 1, .scenario 2 2 none, .step 3 false 0 .passed none, .rule 0 5,
      .scenario 4 6 (some (1, 2)), .step 5 true 0 (.failed (.panic 2)) (some 1), .hook 5 false 0 1] := by decide

/-! ## Cucumber JSON: duplicate feature objects for path-less features (finding F-C14b) -/

theorem json_dup_false :
    jsonRun (fun _ => false) [.scen kx none (.step 0 .started), .scen kx none (.step 0 .passed), .finished] =
      [.feature 0 [⟨none, 1, false, [], [], []⟩], .feature 0 [⟨none, 1, false, [(0, .passed)], [], []⟩]] := by
  decide

/-- with a path there is one feature object and the step is recorded once -/
example :
    jsonRun (fun _ => true) [.scen kx none (.step 0 .started), .scen kx none (.step 0 .passed), .finished] =
      [.feature 0 [⟨none, 1, false, [(0, .passed)], [], []⟩]] := by decide


set_option linter.unusedSimpArgs false

/-! ## Cucumber JSON: the document states exactly the step facts (features with a path) -/

/-- a step fact as the Cucumber JSON document states it -/
abbrev JFact := Nat × Option Nat × Nat × Bool × Nat × Status

def elemFacts (f : Nat) (e : JElem) : List JFact := e.steps.map (fun p => (f, e.rule, e.scen, e.bg, p.1, p.2))

def featFacts : JFeat → List JFact
  | .feature f els => els.flatMap (elemFacts f)
  | .errors _ => []

def docFacts (doc : List JFeat) : List JFact := doc.flatMap featFacts

def evJFact : Ev → Option JFact
  | .scen k _ (.bg i r) => (statusOf r).map (fun st => (k.feat, k.rule, k.scen, true, i, st))
  | .scen k _ (.step i r) => (statusOf r).map (fun st => (k.feat, k.rule, k.scen, false, i, st))
  | _ => none

theorem updFirstJ_flatMap {α β} (p : α → Bool) (g : α → α) (buf : α → List β) (x : List β) (l : List α)
    (hex : l.any p = true) (hg : ∀ a ∈ l, p a = true → buf (g a) ~ buf a ++ x) :
    (jsonUpd.updFirstJ p g l).flatMap buf ~ l.flatMap buf ++ x := by
  induction l with
  | nil => simp at hex
  | cons a rest ih =>
    by_cases hp : p a = true
    · simp only [jsonUpd.updFirstJ, hp, if_true, flatMap_cons]
      have := hg a (by simp) hp
      exact (this.append_right _).trans (by
        rw [append_assoc, append_assoc]
        exact Perm.append_left _ perm_append_comm)
    · have hp' : p a = false := by simpa using hp
      simp only [jsonUpd.updFirstJ, hp', Bool.false_eq_true, if_false, flatMap_cons]
      have hex' : rest.any p = true := by simpa [hp'] using hex
      have := ih hex' (fun b hb => hg b (by simp [hb]))
      rw [append_assoc]
      exact Perm.append_left _ this

/-- `mut_or_insert_element` adds exactly the new steps under the element (k.rule, k.scen, bg) of feature k.feat -/
theorem jsonUpd_facts (doc : List JFeat) (k : ScenKey) (bg : Bool) (g : JElem → JElem) (new : List (Nat × Status))
    (hg : ∀ e : JElem, (g e).steps = e.steps ++ new ∧ (g e).rule = e.rule ∧ (g e).scen = e.scen ∧ (g e).bg = e.bg) :
    docFacts (jsonUpd (fun _ => true) doc k bg g) ~
      docFacts doc ++ new.map (fun p => (k.feat, k.rule, k.scen, bg, p.1, p.2)) := by
  have helem : ∀ (f : Nat) (e : JElem), (e.rule == k.rule && e.scen == k.scen && e.bg == bg) = true →
      elemFacts f (g e) = elemFacts f e ++ new.map (fun p => (f, k.rule, k.scen, bg, p.1, p.2)) := by
    intro f e he
    simp only [Bool.and_eq_true, beq_iff_eq] at he
    obtain ⟨h1, h2, h3, h4⟩ := hg e
    simp [elemFacts, h1, h2, h3, h4, he.1.1, he.1.2, he.2]
  have hels : ∀ (f : Nat) (els : List JElem),
      (if els.any (fun e => e.rule == k.rule && e.scen == k.scen && e.bg == bg) then
          jsonUpd.updFirstJ (fun e => e.rule == k.rule && e.scen == k.scen && e.bg == bg) g els
        else els ++ [g ⟨k.rule, k.scen, bg, [], [], []⟩]).flatMap (elemFacts f) ~
      els.flatMap (elemFacts f) ++ new.map (fun p => (f, k.rule, k.scen, bg, p.1, p.2)) := by
    intro f els
    split
    · rename_i hex
      exact updFirstJ_flatMap _ _ _ _ _ hex (fun a _ ha => by rw [helem f a ha])
    · simp only [flatMap_append, flatMap_cons, flatMap_nil, append_nil]
      rw [helem f ⟨k.rule, k.scen, bg, [], [], []⟩ (by simp)]
      simp [elemFacts]
  unfold jsonUpd docFacts
  simp only
  split
  · rename_i hex
    apply updFirstJ_flatMap _ _ _ _ _ hex
    intro x _ hx
    cases x with
    | errors i => simp at hx
    | feature f els =>
      simp only [Bool.true_and, beq_iff_eq] at hx
      subst hx
      exact hels _ els
  · simp only [flatMap_append, flatMap_cons, flatMap_nil, append_nil, featFacts]
    exact Perm.append_left _ (by simpa using hels k.feat [])

theorem jsonHandle_facts (doc : List JFeat) (e : Ev) :
    docFacts (jsonHandle (fun _ => true) doc e) ~ docFacts doc ++ (evJFact e).toList := by
  have hid : ∀ (k : ScenKey) (bg : Bool) (g : JElem → JElem),
      (∀ x : JElem, (g x).steps = x.steps ∧ (g x).rule = x.rule ∧ (g x).scen = x.scen ∧ (g x).bg = x.bg) →
      docFacts (jsonUpd (fun _ => true) doc k bg g) ~ docFacts doc := by
    intro k bg g hg
    have := jsonUpd_facts doc k bg g [] (fun x => by simpa using hg x)
    simpa using this
  cases e with
  | scen k ret se =>
    cases se with
    | hook t r =>
      cases r with
      | started => simp [jsonHandle, evJFact]
      | passed =>
        simp only [jsonHandle, evJFact, Option.toList, append_nil]
        apply hid; intro x; split <;> simp
      | failed p =>
        simp only [jsonHandle, evJFact, Option.toList, append_nil]
        apply hid; intro x; split <;> simp
    | bg i r =>
      simp only [jsonHandle, evJFact]
      cases hs : statusOf r with
      | none => simpa using hid k true id (by intro x; simp)
      | some st =>
        have := jsonUpd_facts doc k true (fun e => { e with steps := e.steps ++ [(i, st)] }) [(i, st)] (by intro x; simp)
        simpa using this
    | step i r =>
      simp only [jsonHandle, evJFact]
      cases hs : statusOf r with
      | none => simpa using hid k false id (by intro x; simp)
      | some st =>
        have := jsonUpd_facts doc k false (fun e => { e with steps := e.steps ++ [(i, st)] }) [(i, st)] (by intro x; simp)
        simpa using this
    | _ => simp [jsonHandle, evJFact]
  | parseErr i => simp [jsonHandle, evJFact, docFacts, featFacts]
  | _ => simp [jsonHandle, evJFact]

/-- **Cucumber JSON states exactly the step facts of the run** (features with a source path): flattening
    the document — every step entry with its feature, rule, scenario and element type — gives a permutation of
    the step-result events received before run-Finished: nothing dropped, duplicated, invented or filed under
    another feature / scenario. (For path-less features this is false: `json_dup_false`, finding F-C14b.) -/
theorem json_step_facts (evs : List Ev) :
    docFacts (jsonRun (fun _ => true) evs) ~ (evs.takeWhile (fun e => !e.isFinished)).filterMap evJFact := by
  unfold jsonRun
  suffices ∀ (es : List Ev) (doc : List JFeat),
      docFacts (es.foldl (jsonHandle (fun _ => true)) doc) ~ docFacts doc ++ es.filterMap evJFact from by
    simpa [docFacts] using this _ []
  intro es
  induction es with
  | nil => intro doc; simp
  | cons e rest ih =>
    intro doc
    simp only [foldl_cons]
    refine (ih _).trans ?_
    have := jsonHandle_facts doc e
    cases he : evJFact e with
    | none => rw [he] at this; simpa [filterMap_cons, he] using this.append_right _
    | some x =>
      rw [he] at this
      simp only [filterMap_cons, he]
      simpa [append_assoc] using this.append_right (rest.filterMap evJFact)


/-! ## JUnit: one test case per finished attempt -/

def suiteCases : JSuite → Nat
  | .feature _ cs => cs.length
  | .errors _ => 0

def reportCases (r : List JSuite) : Nat := (r.map suiteCases).sum

def isAttemptFinished : Ev → Bool
  | .scen _ _ .finished => true
  | _ => false

def juFold (s : JU) (evs : List Ev) : Option JU := evs.foldl (fun (acc : Option JU) e => acc.bind (fun s => s.handle e)) (some s)

theorem juFold_none (evs : List Ev) : evs.foldl (fun (acc : Option JU) e => acc.bind (fun s => s.handle e)) none = none := by
  induction evs with
  | nil => rfl
  | cons e es ih => simpa using ih

theorem juFold_cons (s : JU) (e : Ev) (es : List Ev) : juFold s (e :: es) = (s.handle e).bind (fun s' => juFold s' es) := by
  simp only [juFold, foldl_cons, Option.bind_some]
  cases h : s.handle e with
  | none => simp [juFold_none]
  | some s' => simp

/-- the open suite exists exactly while a feature is open -/
def juTied (q : SeqSt) (s : JU) : Prop := (q.feat.isSome ↔ s.suit.isSome)

theorem ju_step (q q' : SeqSt) (s s' : JU) (e : Ev) (ht : juTied q s) (hq : q.step e = some q') (hs : s.handle e = some s') :
    juTied q' s' ∧
    reportCases s'.report + (s'.suit.map (·.2.length)).getD 0 =
      reportCases s.report + (s.suit.map (·.2.length)).getD 0 + (if isAttemptFinished e then 1 else 0) := by
  unfold juTied at *
  cases e with
  | featStarted f =>
    simp only [SeqSt.step] at hq
    split at hq
    · rename_i hc
      simp only [Bool.and_eq_true, Option.isNone_iff_eq_none] at hc
      simp only [Option.some.injEq] at hq; subst hq
      simp only [JU.handle, Option.some.injEq] at hs; subst hs
      have hnone : s.suit = none := by
        cases hsu : s.suit with
        | none => rfl
        | some x => have := ht.mpr (by simp [hsu]); simp [hc.1.1] at this
      simp [hnone, isAttemptFinished]
    · cases hq
  | featFinished f =>
    simp only [SeqSt.step] at hq
    split at hq
    · simp only [Option.some.injEq] at hq; subst hq
      simp only [JU.handle] at hs
      cases hsu : s.suit with
      | none => simp [hsu] at hs
      | some x =>
        obtain ⟨f', cs⟩ := x
        simp only [hsu, Option.some.injEq] at hs; subst hs
        simp [reportCases, suiteCases, isAttemptFinished, sum_append]
    · cases hq
  | scen k ret se =>
    cases se with
    | finished =>
      simp only [SeqSt.step] at hq
      split at hq
      · rename_i hc
        simp only [Option.some.injEq] at hq; subst hq
        simp only [JU.handle] at hs
        cases hcs : caseStatus s.events with
        | none => simp [hcs] at hs
        | some st =>
          cases hsu : s.suit with
          | none => simp [hcs, hsu] at hs
          | some x =>
            obtain ⟨f', cs⟩ := x
            simp only [hcs, hsu, Option.some.injEq] at hs; subst hs
            refine ⟨by simpa [hsu] using ht, ?_⟩
            simp [isAttemptFinished]; omega
      · cases hq
    | started =>
      simp only [SeqSt.step] at hq
      split at hq
      · simp only [Option.some.injEq] at hq; subst hq
        simp only [JU.handle, Option.some.injEq] at hs; subst hs
        exact ⟨ht, by simp [isAttemptFinished]⟩
      · cases hq
    | log m =>
      simp only [SeqSt.step] at hq
      split at hq
      · simp only [Option.some.injEq] at hq; subst hq
        simp only [JU.handle, Option.some.injEq] at hs; subst hs
        exact ⟨ht, by simp [isAttemptFinished]⟩
      · cases hq
    | hook t r =>
      have hs' : s' = { s with events := s.events ++ [.hook t r] } := by
        simp only [JU.handle, Option.some.injEq] at hs; exact hs.symm
      subst hs'
      have hf : q'.feat = q.feat := by
        cases r <;> (simp only [SeqSt.step] at hq; split at hq <;> first | (simp only [Option.some.injEq] at hq; subst hq; rfl) | cases hq)
      exact ⟨by rw [hf]; exact ht, by simp [isAttemptFinished]⟩
    | bg i r =>
      have hs' : s' = { s with events := s.events ++ [.bg i r] } := by
        simp only [JU.handle, Option.some.injEq] at hs; exact hs.symm
      subst hs'
      have hf : q'.feat = q.feat := by
        cases r <;> (simp only [SeqSt.step] at hq; split at hq <;> first | (simp only [Option.some.injEq] at hq; subst hq; rfl) | cases hq)
      exact ⟨by rw [hf]; exact ht, by simp [isAttemptFinished]⟩
    | step i r =>
      have hs' : s' = { s with events := s.events ++ [.step i r] } := by
        simp only [JU.handle, Option.some.injEq] at hs; exact hs.symm
      subst hs'
      have hf : q'.feat = q.feat := by
        cases r <;> (simp only [SeqSt.step] at hq; split at hq <;> first | (simp only [Option.some.injEq] at hq; subst hq; rfl) | cases hq)
      exact ⟨by rw [hf]; exact ht, by simp [isAttemptFinished]⟩
  | parseErr i =>
    simp only [SeqSt.step, Option.some.injEq] at hq; subst hq
    simp only [JU.handle, Option.some.injEq] at hs; subst hs
    exact ⟨ht, by simp [reportCases, suiteCases, isAttemptFinished, sum_append]⟩
  | ruleStarted f r =>
    simp only [JU.handle, Option.some.injEq] at hs; subst hs
    simp only [SeqSt.step] at hq
    split at hq
    · simp only [Option.some.injEq] at hq; subst hq; exact ⟨ht, by simp [isAttemptFinished]⟩
    · cases hq
  | ruleFinished f r =>
    simp only [JU.handle, Option.some.injEq] at hs; subst hs
    simp only [SeqSt.step] at hq
    split at hq
    · simp only [Option.some.injEq] at hq; subst hq; exact ⟨ht, by simp [isAttemptFinished]⟩
    · cases hq
  | started =>
    simp only [SeqSt.step, Option.some.injEq] at hq; subst hq
    simp only [JU.handle, Option.some.injEq] at hs; subst hs
    exact ⟨ht, by simp [isAttemptFinished]⟩
  | parsingFinished a b c d g =>
    simp only [SeqSt.step, Option.some.injEq] at hq; subst hq
    simp only [JU.handle, Option.some.injEq] at hs; subst hs
    exact ⟨ht, by simp [isAttemptFinished]⟩
  | finished =>
    simp only [SeqSt.step, Option.some.injEq] at hq; subst hq
    simp only [JU.handle, Option.some.injEq] at hs; subst hs
    exact ⟨ht, by simp [isAttemptFinished]⟩


theorem ju_run (q : SeqSt) (s s' : JU) (evs : List Ev) (ht : juTied q s) (hq : SeqOk q evs = true)
    (hs : juFold s evs = some s') :
    reportCases s'.report + (s'.suit.map (·.2.length)).getD 0 =
      reportCases s.report + (s.suit.map (·.2.length)).getD 0 + (evs.filter isAttemptFinished).length := by
  induction evs generalizing q s with
  | nil => simp only [juFold, foldl_nil, Option.some.injEq] at hs; subst hs; simp
  | cons e es ih =>
    simp only [SeqOk] at hq
    rw [juFold_cons] at hs
    cases hqe : q.step e with
    | none => simp [hqe] at hq
    | some q1 =>
      simp only [hqe] at hq
      cases hse : s.handle e with
      | none => simp [hse] at hs
      | some s1 =>
        simp only [hse, Option.bind_some] at hs
        obtain ⟨ht1, hc1⟩ := ju_step q q1 s s1 e ht hqe hse
        have := ih q1 s1 ht1 hq hs
        rw [this, hc1]
        by_cases hf : isAttemptFinished e = true
        · simp [filter_cons, hf]; omega
        · have hf' : isAttemptFinished e = false := by simpa using hf
          simp [filter_cons, hf']

/-- **JUnit: exactly one test case per finished scenario attempt** — for every normalized canonical stream
    (`SeqOk`) on which the writer hits no panic branch, the number of test cases in the closed suites plus
    those of the suite still open equals the number of attempt-Finished events received (retries are
    separate cases); each case's status is decided by `caseStatus` (`junit_case_status`). -/
theorem junit_one_case_per_attempt (evs : List Ev) (s' : JU) (hq : SeqOk {} evs = true) (hs : juFold {} evs = some s') :
    reportCases s'.report + (s'.suit.map (·.2.length)).getD 0 = (evs.filter isAttemptFinished).length := by
  have := ju_run {} {} s' evs (by simp [juTied]) hq hs
  simpa [reportCases] using this

theorem junitRun_eq (evs : List Ev) : junitRun evs = (juFold {} evs).map (·.report) := rfl

/-- non-vacuity on the example stream of the plain-text theorems: 2 finished attempts, 2 test cases -/
example : SeqOk {} basicEx = true ∧ (junitRun basicEx).map reportCases = some 2 ∧
    (basicEx.filter isAttemptFinished).length = 2 := by decide


end Cuke.C14
