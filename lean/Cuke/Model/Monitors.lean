import Cuke.Model.Writers
/-
  Executable monitors: the properties' own wording evaluated on what the IMPLEMENTATION produced.
  They are run on every correspondence case; a failing monitor is an implementation-vs-oracle
  failure (reported separately from model-vs-implementation disagreements) and is matched against
  the cause patterns of the known findings (DESIGN Appendix C).
-/
namespace Cuke.Mon
open Cuke

/-! ## C01: verdict vs "failed finally" -/

def retLeftZero (ret : Option Retries) : Bool :=
  match ret with
  | none => true
  | some r => r.left == 0

/-- `FailedFinally` of the property, read off the event history. -/
def failedFinally (cat : Catalog) (fos : Bool) (evs : List Ev) : Bool :=
  evs.any (fun e =>
    match e with
    | .parseErr _ => true
    | .scen k ret se =>
      ((se.isStepFailed || se.isHookFailed) && retLeftZero ret) ||
      (fos && se.isStepSkipped && FosPred.default.eval cat k)
    | _ => false)

/-- Cause pattern of F-C01: every Hook-Failed event lies in an attempt with a retry left, and
    nothing else could explain a failed verdict. -/
def isFC01Pattern (cat : Catalog) (fos : Bool) (evs : List Ev) (verdict : Bool) (failedSteps parseErrs : Nat) : Bool :=
  verdict && !failedFinally cat fos evs && failedSteps == 0 && parseErrs == 0 &&
    evs.any (fun e => e.isHookFailed) &&
    evs.all (fun e => match e with
      | .scen _ ret se => !se.isHookFailed || !retLeftZero ret
      | _ => true)

def monC01 (cat : Catalog) (fos : Bool) (evs : List Ev) (verdict : Bool) (failedSteps parseErrs : Nat) : String :=
  if verdict == failedFinally cat fos evs then "ok"
  else if isFC01Pattern cat fos evs verdict failedSteps parseErrs then "!monitor F-C01"
  else s!"!monitor NEW verdict={verdict} failedFinally={failedFinally cat fos evs}"

/-! ## C12: scenario classification by the last attempt -/

inductive Res where
  | passed | skipped | failed
  deriving Repr, DecidableEq

def eventsOf (k : ScenKey) (evs : List Ev) : List (Option Retries × ScenEv) :=
  evs.filterMap (fun e => match e with
    | .scen k' ret se => if k' == k then some (ret, se) else none
    | _ => none)

def keysOf (evs : List Ev) : List ScenKey :=
  (evs.filterMap (fun e => match e with | .scen k _ _ => some k | _ => none)).eraseDups

/-- the events of the last attempt (the attempt whose `Started` comes last) -/
def lastAttempt (xs : List (Option Retries × ScenEv)) : List (Option Retries × ScenEv) :=
  match xs.reverse.find? (fun x => x.2 == ScenEv.started) with
  | none => []
  | some (ret, _) => xs.filter (fun x => x.1 == ret)

def attemptFinished (a : List (Option Retries × ScenEv)) : Bool := a.any (fun x => x.2 == ScenEv.finished)

/-- result of one attempt, as the property words it -/
def attemptRes (a : List (Option Retries × ScenEv)) : Res :=
  if a.any (fun x => x.2.isStepFailed || x.2.isHookFailed) then .failed
  else if a.any (fun x => x.2.isStepSkipped) then .skipped
  else .passed

def specContribution (xs : List (Option Retries × ScenEv)) : Stats :=
  let la := lastAttempt xs
  let s : Stats := {}
  let s := if attemptFinished la then
      match attemptRes la with
      | .passed => { s with passed := 1 }
      | .skipped => { s with skipped := 1 }
      | .failed => { s with failed := 1 }
    else s
  if xs.any (fun x => match x.2.stepRes? with
      | some (.failed err) => isRetriedFailure x.1 err
      | _ => false) then { s with retried := 1 } else s

/-- what the implementation's `Summarize` (= the model, by the `pipe.summ` correspondence) adds for
    one scenario: the scenario counters after feeding that scenario's events alone -/
def implContribution (cat : Catalog) (k : ScenKey) (xs : List (Option Retries × ScenEv)) : Stats :=
  (xs.foldl (fun (s : Summ) x => s.handleScenario cat k x.1 x.2) {}).scenarios

def Stats.addS (a b : Stats) : Stats :=
  ⟨a.passed + b.passed, a.skipped + b.skipped, a.failed + b.failed, a.retried + b.retried⟩

/-- F-C12a: a Hook-Failed event in an attempt with a retry left. -/
def patA (xs : List (Option Retries × ScenEv)) : Bool :=
  xs.any (fun x => x.2.isHookFailed && !retLeftZero x.1)

/-- F-C12b: an earlier retried step failure, and a last attempt whose only failure is a hook failure. -/
def patB (xs : List (Option Retries × ScenEv)) : Bool :=
  let la := lastAttempt xs
  xs.any (fun x => match x.2.stepRes? with | some (.failed err) => isRetriedFailure x.1 err | _ => false) &&
  la.any (fun x => x.2.isHookFailed) && !la.any (fun x => x.2.isStepFailed)

/-- F-C12c: an earlier retried step failure, and a last attempt in which no own step passed although
    it did not fail or skip in a step. -/
def patC (xs : List (Option Retries × ScenEv)) : Bool :=
  let la := lastAttempt xs
  xs.any (fun x => match x.2.stepRes? with | some (.failed err) => isRetriedFailure x.1 err | _ => false) &&
  !la.any (fun x => match x.2 with | .step _ .passed => true | _ => false) &&
  !la.any (fun x => x.2.isStepFailed || x.2.isStepSkipped)

def monC12 (cat : Catalog) (evs : List Ev) (impl : Stats) : String :=
  let keys := keysOf evs
  let contribs := keys.map (fun k => (k, eventsOf k evs))
  let implSum := contribs.foldl (fun acc kx => Stats.addS acc (implContribution cat kx.1 kx.2)) {}
  if implSum != impl then s!"!monitor NEW totals-not-additive"
  else
    let bad := contribs.filter (fun kx => implContribution cat kx.1 kx.2 != specContribution kx.2)
    if bad.isEmpty then "ok"
    else
      let unexplained := bad.filter (fun kx => !(patA kx.2 || patB kx.2 || patC kx.2))
      if !unexplained.isEmpty then
        s!"!monitor NEW scenario {(unexplained.map (fun kx => kx.1.scen))}"
      else
        let ids := (if bad.any (fun kx => patA kx.2) then ["F-C12a"] else []) ++
                   (if bad.any (fun kx => !patA kx.2 && patB kx.2) then ["F-C12b"] else []) ++
                   (if bad.any (fun kx => !patA kx.2 && !patB kx.2 && patC kx.2) then ["F-C12c"] else [])
        "!monitor " ++ " ".intercalate ids

end Cuke.Mon

namespace Cuke.Mon
open Cuke

/-! ## C11: the ordering clauses, evaluated on what the REAL Normalize forwarded -/

structure SeqSt where
  feat : Option Nat := none
  rule : Option Nat := none
  att : Option (ScenKey × Option Retries) := none
  finished : Bool := false
  deriving Repr

/-- the strict sequential automaton: one feature open at a time, one rule or top-level attempt inside it,
    one attempt inside a rule, brackets nested, run-Finished last -/
def seqStep (s : SeqSt) (e : Ev) : Option SeqSt :=
  if s.finished then none
  else match e with
  | .started => some s
  | .parsingFinished .. => some s
  | .parseErr _ => some s
  | .finished => if s.feat.isNone && s.rule.isNone && s.att.isNone then some { s with finished := true } else none
  | .featStarted f => if s.feat.isNone then some { s with feat := some f } else none
  | .featFinished f => if s.feat == some f && s.rule.isNone && s.att.isNone then some { s with feat := none } else none
  | .ruleStarted f r => if s.feat == some f && s.rule.isNone && s.att.isNone then some { s with rule := some r } else none
  | .ruleFinished f r => if s.feat == some f && s.rule == some r && s.att.isNone then some { s with rule := none } else none
  | .scen k ret se =>
    if s.feat == some k.feat && s.rule == k.rule then
      match se with
      | .started => if s.att.isNone then some { s with att := some (k, ret) } else none
      | .finished => if s.att == some (k, ret) then some { s with att := none } else none
      | _ => if s.att == some (k, ret) then some s else none
    else none

def seqOk (evs : List Ev) : Bool := (evs.foldl (fun (s : Option SeqSt) e => s.bind (fun s => seqStep s e)) (some {})).isSome

def attKeys (evs : List Ev) : List (ScenKey × Option Retries) :=
  (evs.filterMap (fun e => match e with | .scen k ret _ => some (k, ret) | _ => none)).eraseDups

def projAtt (κ : ScenKey × Option Retries) (evs : List Ev) : List Ev :=
  evs.filter (fun e => match e with | .scen k ret _ => (k, ret) == κ | _ => false)

def countEv (e : Ev) (l : List Ev) : Nat := (l.filter (· == e)).length

/-- `contract` = the harness says the stream is contract-abiding; `saferun` = `C11.SafeRun` of the input;
    `ledger` = `Cuke.Contract` of the input (the hypothesis of `C11.norm_contract_whole_run`) -/
def monC11 (contract saferun ledger : Bool) (evs : List Ev) (outs : List (List Ev)) : String :=
  let flat := outs.flatten
  if contract && !ledger then "!monitor NEW stream generated as contract-abiding is rejected by the contract ledger (Cuke.Contract)"
  else if contract && !saferun then "!monitor NEW contract-abiding stream is not a SafeRun (theorem hypotheses do not cover it)"
  else if !contract then "ok"
  else if !(evs.all (fun e => countEv e flat == countEv e evs) && flat.length == evs.length) then "!monitor NEW T1 multiset differs"
  else if !seqOk flat then "!monitor NEW T2 output not sequential"
  else if !((attKeys evs).all (fun κ => projAtt κ flat == projAtt κ evs)) then "!monitor NEW T3 attempt order changed"
  else if !((evs.zip outs).all (fun p => !p.1.isRunLevel || p.2.head? == some p.1)) then "!monitor NEW T4 run-level event delayed"
  else if seqOk evs && !(outs == evs.map (fun e => [e])) then "!monitor NEW T5 sequential input not passed through event by event"
  else "ok"

end Cuke.Mon

namespace Cuke.Mon
open Cuke

/-! ## C20: tracing attribution on the event stream of a real run -/

/-- message id = scenario * 10^7 + step * 10^5 + k; pseudo-steps 98 / 99 = before / after hook -/
def msgScen (m : Nat) : Nat := m / 10000000
def msgStep (m : Nat) : Nat := (m % 10000000) / 100000
def msgK (m : Nat) : Nat := m % 100000

structure LogAcc where
  /-- the step / hook that has Started and not yet reported its result -/
  cur : Option Nat := none
  nxt : Nat := 0
  err : Option String := none
  /-- a step whose messages all contain the framing marker delivered none of them (finding F-C20b) -/
  known : Bool := false
  /-- after-hook logs seen so far in this attempt (inside or — finding F-C20c — before its bracket) -/
  afterSeen : Nat := 0
  /-- an after-hook log was delivered before the After-hook Started event (finding F-C20c) -/
  early : Bool := false
  /-- the attempt's Finished event was seen: nothing of this attempt may follow -/
  fin : Bool := false

/-- walk the events of ONE attempt: logs of step `i` must lie between `step i started` and its result
    (hooks likewise), numbered 0..n-1 in order, exactly once -/
def attemptLogs (scen : Nat) (plan : List (Nat × Nat × Nat)) (marked : List (Nat × Nat)) (evs : List ScenEv) : LogAcc :=
  let planned (i : Nat) : Nat := ((plan.find? (fun p => p.1 == scen && p.2.1 == i)).map (·.2.2)).getD 0
  let close (acc : LogAcc) (i : Nat) : LogAcc :=
    if acc.cur == some i && acc.nxt == planned i then { acc with cur := none, nxt := 0 }
    else if acc.cur == some i && acc.nxt == 0 && marked.contains (scen, i) then { acc with cur := none, nxt := 0, known := true }
    else
      let msg := s!"step {i} of scenario {scen}: {acc.nxt} logs delivered before its result, expected {planned i}"
      { acc with cur := none, nxt := 0, err := some msg }
  evs.foldl (fun (acc : LogAcc) e =>
    match acc.err with
    | some _ => acc
    | none =>
      -- C02 on traced runs: no event of an attempt after its Finished (a log broadcast to a stale attempt would be one)
      if acc.fin then { acc with err := some s!"an event of an attempt of scenario {scen} was delivered after its Finished" } else
      match e with
      | .finished => { acc with fin := true }
      | .step i .started => { acc with cur := some i, nxt := 0 }
      | .hook .before .started => { acc with cur := some 98, nxt := 0 }
      | .hook .after .started => { acc with cur := some 99, nxt := acc.afterSeen }
      | .step i _ => close acc i
      | .hook .before _ => close acc 98
      | .hook .after _ => close acc 99
      | .log m =>
        -- a log emitted OUTSIDE every scenario span (scenario number 8000 in the harness' numbering): the collector
        -- cannot attribute it and hands it to every scenario that is active; it is not counted, it only has to lie
        -- inside the attempt's bracket (checked by `fin` above)
        if msgScen m == 8000 then acc else
        -- the After hook RUNS before its Started event is emitted (run_after_hook / emit_after_hook_events):
        -- its logs arrive early; they must still be this scenario's, complete and in order (F-C20c)
        if msgStep m == 99 && acc.cur != some 99 then
          if msgScen m != scen then { acc with err := some s!"log of scenario {msgScen m} attributed to scenario {scen}" }
          else if msgK m != acc.afterSeen then { acc with err := some s!"after-hook log {m} out of order / duplicated / lost (expected k = {acc.afterSeen})" }
          else { acc with afterSeen := acc.afterSeen + 1, early := true }
        else
        match acc.cur with
        | none => { acc with err := some s!"log {m} outside any step or hook of scenario {scen}" }
        | some i =>
          if msgScen m != scen then { acc with err := some s!"log of scenario {msgScen m} attributed to scenario {scen}" }
          else if msgStep m != i then { acc with err := some s!"log of step {msgStep m} delivered inside step {i}" }
          else if msgK m != acc.nxt then { acc with err := some s!"log {m} out of order / duplicated / lost (expected k = {acc.nxt})" }
          else { acc with nxt := acc.nxt + 1 }
      | _ => acc) {}

def monC20 (plan : List (Nat × Nat × Nat)) (marked : List (Nat × Nat)) (evs : List Ev) : String :=
  let keys := attKeys evs
  let accs := keys.map (fun κ =>
    attemptLogs κ.1.scen plan marked ((projAtt κ evs).filterMap (fun e => match e with | .scen _ _ se => some se | _ => none)))
  match accs.findSome? (·.err) with
  | some m => s!"!monitor NEW c20: {m}"
  | none =>
    if evs.getLast? != some Ev.finished then "!monitor NEW c20: stream did not end with run-Finished"
    else
      let ids := (if accs.any (·.known) then ["F-C20b"] else []) ++ (if accs.any (·.early) then ["F-C20c"] else [])
      if ids.isEmpty then "ok" else "!monitor " ++ " ".intercalate ids

/-- C02 / C03 on traced runs (Log events are scenario events too): no event of an attempt after its Finished, and no
    scenario event of a feature after that feature's Finished -/
def monTraced (evs : List Ev) : String :=
  let attBad := (attKeys evs).find? (fun (κ : ScenKey × Option Retries) =>
    let mine := projAtt κ evs
    match mine.findIdx? (fun e => match e with | .scen _ _ .finished => true | _ => false) with
    | some i => decide (i + 1 < mine.length)
    | none => false)
  match attBad with
  | some κ => s!"!monitor NEW c02: an event of an attempt of scenario {κ.1.scen} was delivered after its Finished"
  | none =>
    let featBad := evs.zipIdx.find? (fun (p : Ev × Nat) => match p.1 with
      | Ev.featFinished f => (evs.drop (p.2 + 1)).any (fun e => match e with | .scen k _ _ => k.feat == f | _ => false)
      | _ => false)
    match featBad with
    | some p => s!"!monitor NEW c03: a scenario event follows the Finished of its feature (at {p.2})"
    | none => "ok"

end Cuke.Mon
