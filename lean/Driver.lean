import Cuke.Driver.Tag
import Cuke.Driver.Retry
import Cuke.Driver.Match
import Cuke.Driver.Pipe
import Cuke.Driver.Mon
import Cuke.Driver.Attempt
import Cuke.Driver.Sched
import Cuke.Driver.Outline
import Cuke.Driver.Norm
import Cuke.Driver.Glue
import Cuke.Driver.Report
import Cuke.Driver.Frame
import Cuke.Driver.Coll
import Cuke.Driver.Exit
/-! `cuke-driver`: one request per line on stdin, one response per line on stdout. -/
open Cuke Cuke.Wire Cuke.Driver

def dispatch (line : String) : String :=
  match line.trimAscii.toString.splitOn " " with
  | [] => "!bad-request"
  | fam :: args =>
    let r : Option String :=
      match fam with
      | "tag.eval" => handleTagEval args
      | "filter.feature" => handleFilter args
      | "retry.resolve" => handleRetryResolve args
      | "match.find" => handleMatchFind args
      | "pipe.run" => handlePipeRun args
      | "exit.run" => handleExitRun args
      | "attempt.run" => handleAttemptRun args
      | "mon.c09" => handleMonC09 args
      | "sched.run" => handleSchedRun args
      | "sched.mon" => handleSchedRun args
      | "outline.expand" => handleOutlineExpand args
      | "norm.run" => handleNormRun args
      | "mon.c11" => handleMonC11 args
      | "report.run" => handleReportRun args
      | "report.json" => handleReportJson args
      | "mon.c14" => handleMonC14 args
      | "glue.args" => handleGlueArgs args
      | "lit.match" => handleLitMatch args
      | "zoo.reg" => handleZooReg args
      | "mon.c10" => handleMonC10 args
      | "harness.ended" => some "ok"
      | "mon.c01" => handleMonC01 args
      | "mon.c12" => handleMonC12 args
      | "mon.c20" => handleMonC20 args
      | "mon.traced" => handleMonTraced args
      | "trace.frame" => handleTraceFrame args
      | "mon.frame" => handleMonFrame args
      | "trace.coll" => handleTraceColl args
      | _ => none
    match r with
    | some s => s
    | none => "!bad-request"

partial def loop (h : IO.FS.Stream) (out : IO.FS.Stream) : IO Unit := do
  let line ← h.getLine
  if line.isEmpty then return ()
  out.putStrLn (dispatch line)
  loop h out

def main : IO Unit := do
  let out ← IO.getStdout
  loop (← IO.getStdin) out
  out.flush
