import Cuke.Model.Tracing
import Cuke.Lemmas.TraceFrame
/-!
# C20 — Tracing logs are attributed to the scenario and step that emitted them
Model: `Cuke.Tr` — the collector protocol and one `forward_logs` turn.
The theorems are about the protocol; the tie to the code is end-to-end (the Lean monitor `mon.c20`
evaluates the property on the event stream of real runs with the real subscriber), there are no probes
inside `src/tracing.rs`.
-/
namespace Cuke.C20
open Cuke Cuke.Tr List

theorem notify_logs (c : Coll) : (notify c).logs = c.logs ∧ (notify c).out = c.out ∧ (notify c).scenarios = c.scenarios := by
  unfold notify
  cases c.closes <;> simp

/-- what a turn forwards for the logs queued at its start, with the registrations of that moment -/
def expected (c : Coll) : List Ev := c.logs.flatMap (logEventsS c.scenarios)

/-- **A turn drains the log channel completely**: every queued log is forwarded exactly once, in FIFO
    order, and nothing is left in the channel when `forward_logs` yields. -/
theorem turnF_drains (fuel : Nat) (c : Coll) (hf : c.logs.length < fuel) :
    (turnF fuel c).logs = [] ∧ (turnF fuel c).out = c.out ++ expected c ∧ (turnF fuel c).scenarios = c.scenarios := by
  induction fuel generalizing c with
  | zero => omega
  | succ f ih =>
    obtain ⟨h1, h2, h3⟩ := notify_logs c
    cases hl : c.logs with
    | nil =>
      have hn : (notify c).logs = [] := by rw [h1, hl]
      simp [turnF, emittedLogs, hn, h2, h3, expected, hl]
    | cons l rest =>
      have hn : (notify c).logs = l :: rest := by rw [h1, hl]
      have hlen : rest.length < f := by rw [hl] at hf; simp at hf; omega
      let c1 : Coll := { notify c with logs := rest, out := (notify c).out ++ logEvents (notify c) l }
      have hstep : turnF (f + 1) c = turnF f c1 := by simp [turnF, emittedLogs, hn, c1]
      obtain ⟨a, b, d⟩ := ih c1 (by simpa [c1] using hlen)
      rw [hstep]
      refine ⟨a, ?_, by rw [d]; simpa [c1] using h3⟩
      rw [b]
      simp only [c1, expected, hl, flatMap_cons, h2, h3, logEvents, append_assoc]

theorem turn_drains (c : Coll) :
    (turn c).logs = [] ∧ (turn c).out = c.out ++ expected c ∧ (turn c).scenarios = c.scenarios :=
  turnF_drains _ c (by omega)

/-- **Exactly once, to its own scenario, never to another**: a log whose scenario id is registered
    becomes exactly one Log event, of that scenario attempt. -/
theorem log_attributed (c : Coll) (sid msg : Nat) (k : ScenKey) (ret : Option Retries)
    (h : c.scenarios.find? (fun s => s.1 == sid) = some (sid, k, ret)) :
    logEvents c (some sid, msg) = [Ev.scen k ret (.log msg)] := by
  simp [logEvents, logEventsS, h]

/-- **None lost**: after a turn, all logs emitted before it have been forwarded (in order). -/
theorem none_lost_after_turn (c : Coll) : (turn c).logs = [] := (turn_drains c).1

/-- callbacks are only ever fired inside `notify`, i.e. inside a `forward_logs` turn; the other
    actions leave `fired` untouched — so a step's result event (sent after its callback fired) comes
    after the turn that fired it, hence after every log emitted before the span closed -/
theorem fired_only_in_turn (c : Coll) (sid : Option Nat) (msg id cb : Nat) (k : ScenKey) (ret) :
    (emitLog c sid msg).fired = c.fired ∧ (closeSpan c id).fired = c.fired ∧ (waitFor c id cb).fired = c.fired ∧
    (startScenario c id k ret).fired = c.fired ∧ (finishScenario c id).fired = c.fired := ⟨rfl, rfl, rfl, rfl, rfl⟩

/-- a waiter is not fired before its span's close has been received -/
theorem no_fire_without_close (c : Coll) (id cb : Nat)
    (hc : c.closes = []) (hse : c.spanEvents = []) (hw : c.waits = [(id, cb)]) :
    (notify c).fired = c.fired := by
  simp [notify, hc, hse, hw, addWaiter]

/-- … and it is fired by the first `notify` that has both the close and the waiter -/
theorem fires_when_both (c : Coll) (id cb : Nat)
    (hc : c.closes = [id]) (hse : c.spanEvents = []) (hw : c.waits = [(id, cb)]) :
    (notify c).fired = c.fired ++ [cb] := by
  simp [notify, hc, hse, hw, addWaiter, setClosed]

/-! ## Non-vacuity: two scenarios logging concurrently, one turn -/
def c0 : Coll :=
  emitLog (emitLog (emitLog (startScenario (startScenario Coll.init 7 ⟨1, none, 70⟩ none) 8 ⟨1, none, 80⟩ (some ⟨1, 0⟩))
    (some 8) 100) (some 7) 101) (some 8) 102

example : (turn c0).out =
    [.scen ⟨1, none, 80⟩ (some ⟨1, 0⟩) (.log 100), .scen ⟨1, none, 70⟩ none (.log 101), .scen ⟨1, none, 80⟩ (some ⟨1, 0⟩) (.log 102)] ∧
    (turn c0).logs = [] := by decide


/-! ## The framing between writer side and reader side (byte-level contract)

Model: `Cuke.Frame` (Cuke/Model/TraceFrame.lean) — `frame` is what `AppendScenarioMsg::format_event` writes,
`unframe` is `CollectorWriter::write`. Tied to the code directly: the real `write` runs on generated buffers
(family `trace.frame`) and must return and send exactly what `unframe` says. -/

open Cuke.Frame in
/-- **Round trip, any number of frames in one buffer.** If every frame's id is one `u64` can print and the
    terminator occurs in no frame before its own terminator, `write` returns `Ok` and sends exactly the
    `(id, text)` pairs that were framed, in order — none lost, none merged, none attributed to another
    scenario. -/
theorem frames_roundtrip (frames : List (Option Str × Str))
    (hid : ∀ f ∈ frames, idOk f.1 = true) (hc : ∀ f ∈ frames, Clean f.1 f.2 = true) :
    unframe (frames.flatMap (fun f => frame f.1 f.2)) = (frames.map (fun f => (f.1.map decVal, f.2)), true) := by
  unfold unframe
  have hflat : frames.flatMap (fun f => frame f.1 f.2) =
      (frames.map (fun f => f.2 ++ suffixOf f.1)).flatMap (fun b => b ++ END) := by
    simp [flatMap_map, frame]
  rw [hflat, splitTerminator_frames END (by decide)]
  · exact unframeAll_bodies frames hid
  · intro b hb
    simp only [mem_map] at hb
    obtain ⟨f, hf, rfl⟩ := hb
    have := hc f hf
    simpa [Clean] using this

open Cuke.Frame in
/-- **… in particular for every text that does not contain the terminator.** No other text is ever lost or
    mis-attributed: not one ending in `_`, `__`, `__unknown`, digits, a proper prefix of the terminator, or
    containing `__unknown` / `__<digits>` anywhere (the defect behind the repaired finding F-C20a). -/
theorem frames_roundtrip_of_texts (frames : List (Option Str × Str))
    (hid : ∀ f ∈ frames, idOk f.1 = true) (ht : ∀ f ∈ frames, contains END f.2 = false) :
    unframe (frames.flatMap (fun f => frame f.1 f.2)) = (frames.map (fun f => (f.1.map decVal, f.2)), true) :=
  frames_roundtrip frames hid (fun f hf => clean_of_text f.1 f.2 (hid f hf) (ht f hf))

open Cuke.Frame in
/-- The full statement — every text comes back — is FALSE of the code (finding F-C20b): a text containing the
    terminator is cut there, the first piece has no separator, `write` fails and the log is lost. -/
theorem framing_full_false :
    ¬ ∀ (ids : Option Str) (text : Str), idOk ids = true → unframe (frame ids text) = ([(ids.map decVal, text)], true) := by
  intro h
  have := h none ['k', ' ', '_', '_', 'c', 'u', 'c', 'u', 'm', 'b', 'e', 'r', '_', '_', 's', 'c', 'e', 'n', 'a', 'r', 'i', 'o', ' ', 'z'] rfl
  revert this
  decide

/-! non-vacuity of the round trip: two frames in one buffer, one with an id, one without; texts ending in `_`,
    containing `__unknown` and `__7` -/
example : Cuke.Frame.unframe
    (Cuke.Frame.frame (some ['4', '2']) ['a', '_', '_', 'u', 'n', 'k', 'n', 'o', 'w', 'n', ' ', '_'] ++
     Cuke.Frame.frame none ['x', '_', '_', '7']) =
    ([(some 42, ['a', '_', '_', 'u', 'n', 'k', 'n', 'o', 'w', 'n', ' ', '_']), (none, ['x', '_', '_', '7'])], true) := by decide
example : Cuke.Frame.Clean (some ['4', '2']) ['a', '_', '_', 'u', 'n', 'k', 'n', 'o', 'w', 'n', ' ', '_'] = true ∧
    Cuke.Frame.idOk (some ['4', '2']) = true := by decide
example : String.ofList Cuke.Frame.END = "__cucumber__scenario" ∧ String.ofList Cuke.Frame.SEP = "__" ∧
    String.ofList Cuke.Frame.NOID = "__unknown" := by decide

end Cuke.C20
