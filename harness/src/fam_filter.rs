//! C15: `tag.eval` and `filter.feature`.
//!
//! The implementation side drives the *real* `Cucumber::filter_run` with a
//! scripted parser and a recording runner, so the composed filter closure, its
//! precedence and the feature surgery are the crate's own.

use std::{cell::RefCell, rc::Rc};

use cucumber::{
    cli, event, parser, tag::Ext as _, writer, Cucumber, Event, Parser, Runner,
    World, Writer,
};
use futures::{
    executor::block_on,
    stream::{self, LocalBoxStream},
    StreamExt as _,
};
use gherkin::tagexpr::TagOperation;
use regex::Regex;

use crate::common::*;

#[derive(Debug)]
pub struct NoWorld;
impl World for NoWorld {
    type Error = std::convert::Infallible;
    async fn new() -> Result<Self, Self::Error> {
        Ok(Self)
    }
}

pub struct VecParser(pub Vec<parser::Result<gherkin::Feature>>);
impl Parser<()> for VecParser {
    type Cli = cli::Empty;
    type Output = stream::Iter<std::vec::IntoIter<parser::Result<gherkin::Feature>>>;
    fn parse(self, _: (), _: cli::Empty) -> Self::Output {
        stream::iter(self.0)
    }
}

pub struct RecRunner(pub Rc<RefCell<Vec<gherkin::Feature>>>);
impl<W: World> Runner<W> for RecRunner {
    type Cli = cli::Empty;
    type EventStream =
        LocalBoxStream<'static, parser::Result<Event<event::Cucumber<W>>>>;
    fn run<S>(self, features: S, _: cli::Empty) -> Self::EventStream
    where
        S: futures::Stream<Item = parser::Result<gherkin::Feature>> + 'static,
    {
        let rec = self.0;
        features
            .filter_map(move |f| {
                if let Ok(f) = f {
                    rec.borrow_mut().push(f);
                }
                async { None }
            })
            .boxed_local()
    }
}

pub struct NullWriter;
impl<W: World> Writer<W> for NullWriter {
    type Cli = cli::Empty;
    async fn handle_event(
        &mut self,
        _: parser::Result<Event<event::Cucumber<W>>>,
        _: &cli::Empty,
    ) {
    }
}
impl writer::Normalized for NullWriter {}

const TAGS: &[&str] = &["a", "b", "c", "serial", "wip", "allow.skipped", "ü"];
const WORDS: &[&str] = &["alpha", "beta", "gamma", "al(pha", "δelta", "a b", "", "aa", "a{2}", "xaay", "ab{1,2}"];
// (patterns whose ONLY regex syntax is a counted repetition, a class or an escape are here on purpose)
const REGEXES: &[&str] = &["alpha", "^b", "a$", "-1", "a|b", "^$", "", "", "l\\(p", ".", "ta-\\d+$", "a{2}", "b{1,2}", "[ab]{2}", "\\{2", "a{2}-"];

fn id_of(name: &str) -> usize {
    name.rsplit('-').next().and_then(|s| s.parse().ok()).unwrap_or(usize::MAX)
}

fn show_feat(f: &gherkin::Feature) -> String {
    let sc = |s: &gherkin::Scenario| id_of(&s.name).to_string();
    let ru = |r: &gherkin::Rule| {
        format!(
            "R {} {} {} {}",
            id_of(&r.name),
            show_list(&r.tags, |t| hex(t)),
            r.background.as_ref().map_or(0, |b| b.steps.len()),
            show_list(&r.scenarios, sc),
        )
    };
    format!(
        "F {} {} {} {} {}",
        id_of(&f.name),
        show_list(&f.tags, |t| hex(t)),
        f.background.as_ref().map_or(0, |b| b.steps.len()),
        show_list(&f.scenarios, sc),
        show_list(&f.rules, ru),
    )
}

pub fn gen_tag_eval(rng: &mut Rng, idx: usize) -> Case {
    let _ = idx;
    let depth = rng.below(6);
    let op = gen_tagop(rng, depth, TAGS);
    let tags = gen_tags(rng, TAGS, 5);
    let res = op.eval(tags.iter());
    Case {
        req: format!("tag.eval {} {}", show_tagop(&op), show_list(&tags, |t| hex(t))),
        imp: b(res).to_owned(),
        class: format!("depth{depth}/{}", b(res)),
        nontrivial: depth > 0,
    }
}

pub fn gen_filter(rng: &mut Rng, idx: usize) -> Case {
    let _ = idx;
    let mut next_id = 0usize;
    let mut fresh = || {
        next_id += 1;
        next_id
    };
    let step = |v: &str| StepSpec { ty: gherkin::StepType::Given, value: v.to_owned() };
    let mut gen_scens = |rng: &mut Rng, fresh: &mut dyn FnMut() -> usize| {
        (0..rng.below(5))
            .map(|_| {
                let id = fresh();
                ScenSpec {
                    id,
                    name: format!("{}-{id}", rng.pick(WORDS)),
                    tags: gen_tags(rng, TAGS, 3),
                    steps: (0..rng.below(3)).map(|_| step("x")).collect(),
                    line: 10 * id,
                }
            })
            .collect::<Vec<_>>()
    };
    let fid = fresh();
    let fs = FeatSpec {
        id: fid,
        name: format!("f-{fid}"),
        path: None,
        tags: gen_tags(rng, TAGS, 2),
        bg: (0..rng.below(3)).map(|_| step("bg")).collect(),
        scens: gen_scens(rng, &mut fresh),
        rules: (0..rng.below(3))
            .map(|_| {
                let rid = fresh();
                RuleSpec {
                    id: rid,
                    name: format!("r-{rid}"),
                    tags: gen_tags(rng, TAGS, 2),
                    bg: (0..rng.below(2)).map(|_| step("rbg")).collect(),
                    scens: gen_scens(rng, &mut fresh),
                }
            })
            .collect(),
    };

    // Filter sources: every combination, including both CLI fields at once
    // (clap forbids it on the command line, the code still orders them).
    let has_re = rng.chance(1, 3);
    let has_tags = rng.chance(1, 2);
    // a fifth of the name filters are compiled with `RegexBuilder` flags (the field `cli::Opts::re_filter` is public:
    // the pattern text alone does not say what such a regex matches)
    let re = has_re.then(|| {
        if rng.chance(1, 5) {
            let pat = *rng.pick(&["ALPHA", "Beta", "a  b", "gam ma", "AA", "xAAy"]);
            if rng.chance(1, 2) { regex::RegexBuilder::new(pat).case_insensitive(true).build().unwrap() }
            else { regex::RegexBuilder::new(pat).ignore_whitespace(true).case_insensitive(rng.chance(1, 2)).build().unwrap() }
        } else {
            Regex::new(*rng.pick(REGEXES)).unwrap()
        }
    });
    let depth = rng.below(5);
    let ast = has_tags.then(|| gen_tagop(rng, depth, TAGS));
    // Every third tag expression goes through the real tag-expression parser.
    let via_text = rng.chance(1, 3);
    let real_op = ast.as_ref().map(|t| {
        if via_text && !tagop_text(t).contains("allow.skipped") && !tagop_text(t).contains('ü') {
            tagop_text(t).parse::<TagOperation>().unwrap_or_else(|_| t.clone())
        } else {
            t.clone()
        }
    });
    let closure_bits: std::collections::HashMap<String, bool> = fs
        .scens
        .iter()
        .chain(fs.rules.iter().flat_map(|r| r.scens.iter()))
        .map(|s| (s.name.clone(), rng.chance(1, 2)))
        .collect();

    let show_scen = |s: &ScenSpec| {
        format!(
            "S {} {} {} {}",
            s.id,
            show_list(&s.tags, |t| hex(t)),
            b(re.as_ref().is_some_and(|r| r.is_match(&s.name))),
            b(closure_bits[&s.name]),
        )
    };
    let show_rule = |r: &RuleSpec| {
        format!(
            "R {} {} {} {}",
            r.id,
            show_list(&r.tags, |t| hex(t)),
            r.bg.len(),
            show_list(&r.scens, show_scen)
        )
    };
    let req = format!(
        "filter.feature {} {} F {} {} {} {} {}",
        b(has_re),
        show_opt(real_op.as_ref(), show_tagop),
        fs.id,
        show_list(&fs.tags, |t| hex(t)),
        fs.bg.len(),
        show_list(&fs.scens, show_scen),
        show_list(&fs.rules, show_rule),
    );

    let rec = Rc::new(RefCell::new(Vec::new()));
    let opts = cli::Opts::<cli::Empty, cli::Empty, cli::Empty, cli::Empty> {
        re_filter: re.clone(),
        tags_filter: real_op.clone(),
        parser: cli::Empty,
        runner: cli::Empty,
        writer: cli::Empty,
        custom: cli::Empty,
    };
    let bits = closure_bits.clone();
    let _w = block_on(
        Cucumber::<NoWorld, _, (), _, _, cli::Empty>::custom(
            VecParser(vec![Ok(mk_feat(&fs))]),
            RecRunner(Rc::clone(&rec)),
            NullWriter,
        )
        .with_cli(opts)
        .filter_run((), move |_, _, s| bits[&s.name]),
    );
    let got = rec.borrow();
    let imp = got.iter().map(show_feat).collect::<Vec<_>>().join(" | ");
    let total = fs.scens.len() + fs.rules.iter().map(|r| r.scens.len()).sum::<usize>();
    Case {
        req,
        imp,
        class: format!("re{}tags{}text{}", b(has_re), b(has_tags), b(via_text && has_tags)),
        nontrivial: total > 0,
    }
}
