import Cuke.Lemmas.SchedTrip
import Cuke.Lemmas.SchedSeq
import Cuke.Lemmas.SchedCount
import Cuke.Lemmas.Sched
import Cuke.Lemmas.SchedRetry
import Cuke.Model.SchedLts
import Cuke.Props.C10
/-!
# C05 — Retries: re-run exactly on failure within budget, fresh, sequential, delayed
Model: `Cuke.nextTry`, `Cuke.Retries.nextTry`, `Cuke.insertRetried`, `Cuke.leftUntilRetry`,
`Cuke.drainQ` and the `endA` / `ins` labels of the scheduler LTS (classes R, Q).
-/
namespace Cuke.C05
open Cuke List Cuke.SchedL

/-- **Retry decision**: a next attempt exists exactly when the attempt failed and a retry is left. -/
theorem retry_iff_failed_and_budget (o : RetryOptions) (failed : Bool) :
    (nextTry (some o) failed).isSome = true ↔ failed = true ∧ 0 < o.retries.left := by
  unfold nextTry RetryOptions.nextTry Retries.nextTry
  cases failed <;> simp
  split <;> simp_all <;> omega

/-- No retry options at all (no tag, no CLI/builder setting): never retried. -/
theorem no_options_never_retried (failed : Bool) : nextTry none failed = none := rfl

/-- A passed or merely skipped attempt (`failed = false`) is never retried. -/
theorem not_failed_never_retried (ret : Option RetryOptions) : nextTry ret false = none := by
  cases ret <;> simp [nextTry]

/-- "Failed" is: failed step, failed hook, or failed World creation — i.e. some Failed event (C10). -/
theorem failed_means_failure_event (sp : AttemptSpec) (wid : Nat) :
    (runAttempt sp wid).failed = true ↔ ∃ e ∈ (runAttempt sp wid).events, C10.isFailureEv e = true :=
  C10.failed_iff_failure_event sp wid

/-- **Counter values**: the next attempt carries `current + 1`, `left - 1`, and the same delay. -/
theorem retries_values (o o' : RetryOptions) (h : nextTry (some o) true = some o') :
    o'.retries.current = o.retries.current + 1 ∧ o'.retries.left + 1 = o.retries.left ∧ o'.after = o.after := by
  unfold nextTry RetryOptions.nextTry Retries.nextTry at h
  simp only [if_true] at h
  by_cases hl : o.retries.left = 0
  · simp [hl] at h
  · simp only [hl, if_false, Option.some.injEq] at h
    subst h
    simp; omega

/-- the k-th attempt of a scenario with budget `N`: `current = k`, `left = N - k` -/
def iterTry : Nat → RetryOptions → Option RetryOptions
  | 0, o => some o
  | k + 1, o => (iterTry k o).bind (fun x => nextTry (some x) true)

/-- **current = k, left = N - k, and at most N + 1 attempts.** Starting from `Retries::initial(N)`,
    attempt `k` exists iff `k ≤ N` and then carries exactly these values. -/
theorem attempts_values_and_bound (N : Nat) (after : Option Nat) (k : Nat) :
    iterTry k ⟨Retries.initial N, after⟩ =
      if k ≤ N then some ⟨⟨k, N - k⟩, after⟩ else none := by
  induction k with
  | zero => simp [iterTry, Retries.initial]
  | succ k ih =>
    simp only [iterTry, ih]
    by_cases h : k ≤ N
    · simp only [h, if_true, Option.bind_some, nextTry, RetryOptions.nextTry, Retries.nextTry]
      by_cases h2 : N - k = 0
      · have : ¬ (k + 1 ≤ N) := by omega
        simp [h2, this]
      · have : k + 1 ≤ N := by omega
        simp [h2, this]; omega
    · have : ¬ (k + 1 ≤ N) := by omega
      simp [h, this]

/-- A retried entry is put at the FRONT of its queue and, if it has a delay, stamped with the clock
    reading taken at that moment (after the failed attempt's Finished event). -/
theorem insertRetried_front (q : Queues) (e : Entry) (now : Nat) :
    (e.serial = true → ∃ e', (insertRetried q e now).serial = e' :: q.serial ∧ (insertRetried q e now).conc = q.conc ∧
        e'.id = e.id ∧ e'.ret = e.ret ∧ e'.t0 = (e.ret.bind (·.after)).map (fun _ => now)) ∧
    (e.serial = false → ∃ e', (insertRetried q e now).conc = e' :: q.conc ∧ (insertRetried q e now).serial = q.serial ∧
        e'.id = e.id ∧ e'.ret = e.ret ∧ e'.t0 = (e.ret.bind (·.after)).map (fun _ => now)) := by
  unfold insertRetried
  constructor <;> intro h <;> simp [h]

/-- **Delay respected**: an entry with delay `d` stamped at `t0` is ready only when strictly more than
    `d` has elapsed on the clock `get` reads. -/
theorem delay_respected (e : Entry) (o : RetryOptions) (d t0 now : Nat)
    (hr : e.ret = some o) (hd : o.after = some d) (ht : e.t0 = some t0) :
    e.ready now = true ↔ d < now - t0 := by
  simp [Entry.ready, leftUntilRetry, hr, hd, ht]
  omega

/-- Entries without a delay, and first attempts, are always ready. -/
theorem no_delay_always_ready (e : Entry) (now : Nat)
    (h : e.t0 = none ∨ e.ret = none ∨ ∃ o, e.ret = some o ∧ o.after = none) : e.ready now = true := by
  unfold Entry.ready leftUntilRetry
  rcases h with h | h | ⟨o, h1, h2⟩
  · cases hr : e.ret with
    | none => simp
    | some o => cases ha : o.after <;> simp [h, ha]
  · simp [h]
  · simp [h1, h2]

/-- Only ready entries are dispatched (so a delayed retry does not start early) … -/
theorem dispatched_are_ready (now : Nat) (ask : Option Nat) (q : Queues) :
    ∀ e ∈ (getBatch (fun e => e.ready now) ask q).1, e.ready now = true := by
  unfold getBatch
  by_cases h0 : (ask == some 0) = true
  · simp [h0]
  · simp only [h0, Bool.false_eq_true, if_false]
    split
    · exact drainQ_all_ready _ _ _
    · exact drainQ_all_ready _ _ _

/-- … while other scenarios keep running meanwhile: a waiting (not ready) entry at the head of a queue
    does not block the ready entries behind it. -/
theorem others_not_blocked (ready : Entry → Bool) (cnt : Option Nat) (e : Entry) (rest : List Entry)
    (h0 : cnt ≠ some 0) (hr : ready e = false) :
    (drainQ ready cnt (e :: rest)).1 = (drainQ ready cnt rest).1 :=
  drainQ_skip_not_ready ready cnt e rest h0 hr

/-- The LTS accepts an attempt's end only with the model's retry verdict: any other `retried` flag is a
    class-R disagreement. -/
theorem end_label_checked (c : SCfg) (s : SState) (id : Nat) (failed retried : Bool) (t : Nat) (e : Entry)
    (he : s.running.find? (fun x => x.id == id) = some e)
    (hbad : retried ≠ (nextTry e.ret failed).isSome) :
    ∃ d ∈ (stepL c s (.endA id failed retried t)).dis, d.cls = .R := by
  simp only [stepL, he]
  have : (retried == (nextTry e.ret failed).isSome) = false := by simpa using hbad
  simp [this, SState.note]

/-! ## Non-vacuity -/
example : nextTry (some ⟨⟨0, 2⟩, some 5⟩) true = some ⟨⟨1, 1⟩, some 5⟩ := by decide
example : iterTry 2 ⟨Retries.initial 2, none⟩ = some ⟨⟨2, 0⟩, none⟩ := by decide
example : iterTry 3 ⟨Retries.initial 2, none⟩ = none := by decide


/-! ## Whole runs: no attempt beyond the budget, in any run of any length

Over every log the scheduler LTS replays without a disagreement of the classes R (retry decision) and Q
(queue discipline) — Lemmas/SchedRetry.lean. -/

open Cuke.SchedRetry in
/-- **Lineage.** Every entry the scheduler holds at any moment of any clean run — queued, just handed out, or
    running — descends from the entry `Features::insert` built for a scenario of a delivered feature: the same
    scenario, the same serial flag, and its retry options are the initial ones moved some steps by `next_try`
    (`current + left` unchanged, same delay; no options stay no options). -/
theorem lts_retry_lineage (c : SCfg) (ls : List Label) (hg : GoodRQ (accept c ls) = true) :
    ∀ e ∈ ents (accept c ls), ∃ e0, Origin c e0 ∧ Desc e0 e :=
  foldl_rinv c ls {} (by intro e he; simp [ents, Queues.empty] at he) hg

theorem initial_current_zero (c : SCfg) (ft : SFeat) (e0 : Entry) (o0 : RetryOptions) (h : e0 ∈ newEntries c ft)
    (hr : e0.ret = some o0) : o0.retries.current = 0 := by
  simp only [newEntries, List.mem_map] at h
  obtain ⟨rs, _, rfl⟩ := h
  simp only [parseFromTags] at hr
  split at hr
  · simp only [Option.some.injEq] at hr
    subst hr
    rfl
  · cases hr

open Cuke.SchedRetry in
/-- **Within budget, over whole runs.** In every clean run, an attempt that is queued, handed out or running with
    retry counter `current` belongs to a scenario whose resolved budget `N` (what `parse_from_tags` gave it when
    its feature was delivered) satisfies `current + left = N` — so `current ≤ N`: at most `N + 1` attempts, the
    last one with `left = 0` (which `next_try` refuses to retry, `retry_iff_failed_and_budget`); and the delay
    it carries is the scenario's own. -/
theorem lts_attempt_within_budget (c : SCfg) (ls : List Label) (hg : GoodRQ (accept c ls) = true)
    (e : Entry) (he : e ∈ ents (accept c ls)) (o : RetryOptions) (hr : e.ret = some o) :
    ∃ e0 o0, Origin c e0 ∧ e0.key = e.key ∧ e0.ret = some o0 ∧ o0.retries.current = 0 ∧
      o.retries.current + o.retries.left = o0.retries.left ∧ o.retries.current ≤ o0.retries.left ∧ o.after = o0.after := by
  obtain ⟨e0, horig, hk, _, hd⟩ := lts_retry_lineage c ls hg e he
  rw [hr] at hd
  cases h0 : e0.ret with
  | none => simp [h0, retDesc] at hd
  | some o0 =>
    rw [h0] at hd
    simp only [retDesc] at hd
    obtain ⟨ft, _, hmem⟩ := horig
    have hz := initial_current_zero c ft e0 o0 hmem h0
    refine ⟨e0, o0, ⟨ft, ‹_›, hmem⟩, hk.symm, h0, hz, by omega, by omega, hd.2⟩

open Cuke.SchedRetry in
/-- **Never retried without options, over whole runs.** A scenario that resolved to no retry options stays
    without them in every entry ever made for it — so `next_try` never grants it a second attempt. -/
theorem lts_no_options_never_retried (c : SCfg) (ls : List Label) (hg : GoodRQ (accept c ls) = true)
    (e : Entry) (he : e ∈ ents (accept c ls)) (hr : e.ret = none) (failed : Bool) :
    nextTry e.ret failed = none := by
  rw [hr]; rfl

/-! non-vacuity: a clean run with a retried attempt — the second attempt is running with `current = 1, left = 1`
    of a budget of 2 -/
def sr : SScen := ⟨1, ["retry(2)"], 1⟩
def rcfg : SCfg :=
  { builderConc := some (some 2), cliConc := none, builderFF := false, cliFF := false, builderRetries := none,
    cliRetries := none, builderAfter := none, cliAfter := none, customWhich := false, durTable := [],
    feats := [⟨0, [], [sr], []⟩] }
def k1 : ScenKey := ⟨0, none, 1⟩
def rlog : List Label :=
  [.hookTake, .tx .started, .pOk 0, .ins 0 [] [⟨10, 1, some ⟨0, 2⟩, none⟩], .pEnd, .tx (.parsingFinished 1 0 1 1 0), .pFinish,
   .get1 1 (some 2) 0 1, .get2 1 (.cont (some 2)) [10] false 0, .tx (.featStarted 0), .disp 1 (.cont (some 1)),
   .tx (.scen k1 (some ⟨0, 2⟩) .started), .tx (.scen k1 (some ⟨0, 2⟩) .finished),
   .ins 2 [] [⟨11, 1, some ⟨1, 1⟩, none⟩], .endA 10 true true 2,
   .cons true, .notif 10 true true,
   .get1 3 (some 2) 0 1, .get2 3 (.cont (some 2)) [11] false 0, .disp 1 (.cont (some 1)),
   .tx (.scen k1 (some ⟨1, 1⟩) .started), .tx (.scen k1 (some ⟨1, 1⟩) .finished), .endA 11 false false 4,
   .cons true, .notif 11 false false, .tx (.featFinished 0),
   .get1 5 (some 2) 0 0, .get2 5 (.cont (some 2)) [] false 0, .idle true false, .tx .finished, .hookRestore, .exit]

example : (finalChecks (accept rcfg rlog)).dis.isEmpty = true ∧ Cuke.SchedRetry.GoodRQ (accept rcfg rlog) = true := by
  decide +kernel
example : (accept rcfg (rlog.take 20)).running.map (fun e => (e.id, e.ret.map (·.retries))) = [(11, some ⟨1, 1⟩)] := by
  decide +kernel
/-- an entry numbered beyond the budget (`current = 3` of 2) shows up as a disagreement of class R / Q — such logs are
    outside the theorem's hypothesis for the right reason -/
example : Cuke.SchedRetry.GoodRQ (accept rcfg (rlog.take 22 ++ [.ins 4 [] [⟨12, 1, some ⟨2, 0⟩, none⟩], .ins 5 [] [⟨13, 1, some ⟨3, 0⟩, none⟩]])) = false := by
  decide +kernel

/-! ## attempts of one scenario never overlap — over whole runs of the layered acceptor (Model/SchedSeq.lean) -/

open Cuke.SchedSeq in
/-- **Attempts of one scenario never overlap.** In every log replayed without a disagreement of either layer,
    at every moment (the statement holds for every prefix, since a prefix of a clean log is clean), the attempts in
    flight belong to pairwise different scenarios. -/
theorem lts_attempts_never_overlap (c : SCfg) (hwf : WF c) (ls : List Label) (hc : NClean (acceptN c ls) = true) :
    ((acceptN c ls).base.running.map (·.key.scen)).Nodup :=
  (acceptN_ninv c hwf ls hc).rnd

open Cuke.SchedSeq in
/-- … a scenario never has two entries waiting (in the queues or in the batch `get` handed out) … -/
theorem lts_one_waiting_entry_per_scenario (c : SCfg) (hwf : WF c) (ls : List Label) (hc : NClean (acceptN c ls) = true) :
    (((acceptN c ls).base.q.serial ++ (acceptN c ls).base.q.conc ++ (acceptN c ls).base.batch).map (·.key.scen)).Nodup :=
  (acceptN_ninv c hwf ls hc).qnd

open Cuke.SchedSeq in
/-- … and it has a waiting entry AND an attempt in flight only in the window between the insertion of the
    successor (`insert_retried_scenario`) and the end of the attempt that failed — where the attempt has already sent
    its `Finished` event (program order of `run_scenario`). -/
theorem lts_waiting_and_running_only_while_ending (c : SCfg) (hwf : WF c) (ls : List Label)
    (hc : NClean (acceptN c ls) = true) (e r : Entry)
    (he : e ∈ (acceptN c ls).base.q.serial ++ (acceptN c ls).base.q.conc ++ (acceptN c ls).base.batch)
    (hr : r ∈ (acceptN c ls).base.running) (hk : e.key.scen = r.key.scen) :
    e.key.scen ∈ (acceptN c ls).reins := by
  refine (acceptN_ninv c hwf ls hc).both _ ?_ ?_
  · simp only [Qs, SchedCons.scens, mem_map]; exact ⟨e, he, rfl⟩
  · simp only [Rs, SchedCons.scens, mem_map]; exact ⟨r, hr, hk.symm⟩

open Cuke.SchedSeq in
/-- **Sequential.** The successor of an attempt is never dispatched before that attempt ended: a dispatch accepted
    by the second layer hands out no scenario that still has an attempt in flight. -/
theorem lts_successor_waits_for_end (c : SCfg) (n : NState) (k : Nat) (sl : Slots)
    (hc : NClean (stepN c n (.disp k sl)) = true) :
    ∀ e ∈ n.base.batch, ∀ r ∈ n.base.running, r.key.scen ≠ e.key.scen := by
  intro e he r hr heq
  simp only [NClean, Bool.and_eq_true] at hc
  have hcn := hc.2
  unfold stepN at hcn
  simp only at hcn
  split at hcn
  · simp [NState.note] at hcn
  · rename_i hno
    apply hno
    simp only [overlaps, any_eq_true]
    exact ⟨e, he, r, hr, by simp [heq]⟩

open Cuke.SchedSeq in
/-- **Re-run exactly when a successor was inserted.** An `END` accepted by the second layer reports `retried`
    exactly when `insert_retried_scenario` ran for this attempt before (together with `retry_iff_failed_and_budget`
    and the base acceptor's check of the `END` label: exactly when it failed with budget left). -/
theorem lts_retried_iff_successor_inserted (c : SCfg) (n : NState) (id : Nat) (failed retried : Bool) (t : Nat) (e : Entry)
    (hf : n.base.running.find? (fun x => x.id == id) = some e)
    (hc : NClean (stepN c n (.endA id failed retried t)) = true) :
    retried = n.reins.contains e.key.scen := by
  simp only [NClean, Bool.and_eq_true] at hc
  have hcn := hc.2
  unfold stepN at hcn
  simp only [hf] at hcn
  split at hcn
  · rename_i h; simpa using h
  · simp [NState.note] at hcn

/-- the catalog of the example run is well-formed -/
theorem rcfg_wf : Cuke.SchedSeq.WF rcfg := by
  constructor
  · decide
  · intro ft hft ft' hft' x hx hx'
    simp only [rcfg, mem_singleton] at hft hft'
    rw [hft, hft']
  · intro ft hft ft' hft' _
    simp only [rcfg, mem_singleton] at hft hft'
    rw [hft, hft']

/-- non-vacuity: the example run with a retried attempt is clean in BOTH layers … -/
example : Cuke.SchedSeq.NClean (acceptN rcfg rlog) = true := by decide +kernel
/-- … in the window between `INS` and `END` (after label 14) scenario 1 has a waiting successor and is recorded … -/
example : (acceptN rcfg (rlog.take 14)).reins = [1] ∧ (acceptN rcfg (rlog.take 15)).reins = [] := by decide +kernel
/-- … and a log in which the successor is dispatched BEFORE the `END` of the failed attempt is flagged (class R) -/
example : ((acceptN rcfg (rlog.take 14 ++ [.get1 3 (some 1) 0 1, .get2 3 (.cont (some 1)) [11] false 1, .disp 1 (.cont (some 0))])).ndis.map (·.cls)) = [.R] := by
  decide +kernel
/-- … as is an `END` that says `retried` although no successor was inserted -/
example : ((acceptN rcfg (rlog.take 13 ++ [.endA 10 true true 2])).ndis.map (·.cls)) = [.R] := by decide +kernel

/-! ## a budget of N yields at most N + 1 attempts — over whole runs -/

open Cuke.SchedSeq Cuke.SchedCount in
/-- **Every attempt of a scenario is dispatched with its own retry counter.** In every log clean in both layers the
    (scenario, `current`) pairs of the attempts dispatched so far are pairwise distinct: the waiting entry of a scenario
    always carries a higher `current` than every attempt of it dispatched before. -/
theorem lts_dispatches_distinct (c : SCfg) (hwf : WF c) (ls : List Label) (hc : NClean (acceptN c ls) = true) :
    (dispatched c ls).Nodup :=
  (dispatched_inv c hwf ls hc).nd

open Cuke.SchedSeq Cuke.SchedCount Cuke.SchedRetry in
/-- … and every dispatched counter is within the budget the scenario resolved to when its feature was delivered … -/
theorem lts_dispatched_within_budget (c : SCfg) (ls : List Label) (hc : NClean (acceptN c ls) = true)
    (x k N : Nat) (hk : (x, k) ∈ dispatched c ls)
    (hbud : ∀ ft ∈ c.feats, ∀ e0 ∈ newEntries c ft, e0.key.scen = x → ∀ o0, e0.ret = some o0 → o0.retries.left ≤ N) :
    k ≤ N := by
  rcases dispatched_from_batch c ls _ (x, k) hk with h | ⟨pre, suf, hsplit, e, he, hsc⟩
  · cases h
  · subst hsplit
    have hcp : NClean (acceptN c pre) = true := by
      have : acceptN c (pre ++ suf) = suf.foldl (stepN c) (acceptN c pre) := by simp [acceptN, foldl_append]
      rw [this] at hc
      exact nclean_foldl_mono c suf _ hc
    have hg : GoodRQ (accept c pre) = true := by
      simp only [NClean, Bool.and_eq_true] at hcp
      have := hcp.1
      rw [acceptN_base] at this
      exact (SchedCons.clean_good _ (SchedOrd.clean0_all _ this).2.2).2
    have hbase : (pre.foldl (stepN c) {}).base = accept c pre := acceptN_base c pre
    rw [hbase] at he
    have hents : e ∈ ents (accept c pre) := by simp only [ents, mem_append]; exact Or.inl (Or.inr he)
    have hx : e.key.scen = x := by simpa [sc] using congrArg Prod.fst hsc
    have hkc : cur e.ret = k := by simpa [sc] using congrArg Prod.snd hsc
    cases hr : e.ret with
    | none => rw [hr] at hkc; simp [cur] at hkc; omega
    | some o =>
      obtain ⟨e0, o0, ⟨ft, hft, hmem⟩, hkey, h0, _, _, hle, _⟩ := lts_attempt_within_budget c pre hg e hents o hr
      have := hbud ft hft e0 hmem (by rw [hkey]; exact hx) o0 h0
      rw [hr] at hkc
      simp only [cur, Option.map_some, Option.getD_some] at hkc
      omega

open Cuke.SchedSeq Cuke.SchedCount in
/-- … hence **a scenario with a budget of `N` is dispatched at most `N + 1` times**, in every clean run of any length. -/
theorem lts_at_most_budget_plus_one_attempts (c : SCfg) (hwf : WF c) (ls : List Label) (hc : NClean (acceptN c ls) = true)
    (x N : Nat)
    (hbud : ∀ ft ∈ c.feats, ∀ e0 ∈ newEntries c ft, e0.key.scen = x → ∀ o0, e0.ret = some o0 → o0.retries.left ≤ N) :
    ((dispatched c ls).filter (fun p => p.1 == x)).length ≤ N + 1 := by
  have hnd := lts_dispatches_distinct c hwf ls hc
  have hlen : ((dispatched c ls).filter (fun p => p.1 == x)).length =
      (((dispatched c ls).filter (fun p => p.1 == x)).map Prod.snd).length := by simp
  rw [hlen]
  apply nodup_bounded_length
  · -- the second components of the pairs with first component `x` are distinct
    -- injectivity of `snd` on pairs with the same first component
    have key : ∀ (m : List (Nat × Nat)), m.Nodup → (∀ p ∈ m, p.1 = x) → (m.map Prod.snd).Nodup := by
      intro m
      induction m with
      | nil => intro _ _; exact nodup_nil
      | cons a m ih =>
        intro hm hx
        simp only [map_cons, nodup_cons] at hm ⊢
        refine ⟨?_, ih hm.2 (fun p hp => hx p (mem_cons_of_mem _ hp))⟩
        intro hmem
        simp only [mem_map] at hmem
        obtain ⟨b, hb, hsnd⟩ := hmem
        have : b = a := Prod.ext ((hx b (mem_cons_of_mem _ hb)).trans (hx a mem_cons_self).symm) hsnd
        exact hm.1 (this ▸ hb)
    exact key _ (hnd.filter _) (fun p hp => by simpa using (mem_filter.mp hp).2)
  · intro k hk
    simp only [mem_map, mem_filter] at hk
    obtain ⟨p, ⟨hp, hpx⟩, rfl⟩ := hk
    have hpx' : p.1 = x := by simpa using hpx
    have := lts_dispatched_within_budget c ls hc x p.2 N (by rw [← hpx']; exact hp) hbud
    omega

/-- non-vacuity: in the example run scenario 1 (budget 2) is dispatched twice, with `current` 0 and 1 -/
example : Cuke.SchedCount.dispatched rcfg rlog = [(1, 0), (1, 1)] := by decide +kernel

/-! ## The delay clause over whole runs -/

open Cuke.SchedInv in
/-- **Whatever a `features.get` hands out was ready.** In every log replayed without a disagreement, of any length: every
    entry in the batch handed out by a `features.get` (label `GET2`, clock reading `t2`; `t1` = the reading of the `GET1`
    that opened it, `t2` itself when `get(Some(0))` returned early) was ready at `t1` or at `t2` — for an entry retried
    with a delay `d` and stamped `t0` at its re-insertion this means `d < t1 − t0` or `d < t2 − t0` (`delay_respected`):
    no retry is dispatched before its delay has elapsed since the failed attempt ended, whatever the other scenarios do. -/
theorem lts_dispatched_entries_were_ready (c : SCfg) (pre : List Label) (t2 : Nat) (slots : Slots) (got : List Nat)
    (sleep : Bool) (running : Nat)
    (hc : SchedOrd.Clean0 (accept c (pre ++ [.get2 t2 slots got sleep running])) = true) :
    ∀ e ∈ (accept c (pre ++ [.get2 t2 slots got sleep running])).batch,
      e.ready (((accept c pre).lastGet1.map (·.1)).getD t2) = true ∨ e.ready t2 = true := by
  have hstep : accept c (pre ++ [.get2 t2 slots got sleep running]) =
      stepL c (accept c pre) (.get2 t2 slots got sleep running) := by simp [accept, List.foldl_append]
  rw [hstep] at hc ⊢
  have hc0 := SchedOrd.clean0_step_mono c _ _ hc
  obtain ⟨_, hv, hlg⟩ := SchedTrip.ww_get2_explicit c (accept c pre) t2 slots got sleep running
    (by simpa [SchedOrd.Clean0] using hc0) (by simpa [SchedOrd.Clean0] using hc)
  have hb : (stepL c (accept c pre) (.get2 t2 slots got sleep running)).batch =
      (getBatch (get2ready (get2c (accept c pre)) t2 got) (accept c pre).slots.ask (accept c pre).q).1 :=
    congrArg SchedTrip.W.batch hv
  intro e he
  rw [hb] at he
  have hr := SchedTrip.getBatch_all_ready' _ _ _ e he
  unfold get2ready at hr
  simp only [hlg] at hr
  cases h1 : e.ready (((accept c pre).lastGet1.map (·.1)).getD t2) with
  | true => exact Or.inl rfl
  | false =>
    right
    cases h2 : e.ready t2 with
    | true => rfl
    | false => simp [h1, h2] at hr

/-- non-vacuity: in `rlog` the second `features.get` hands out the retried entry -/
example : SchedOrd.Clean0 (accept rcfg (rlog.take 19)) = true ∧ (accept rcfg (rlog.take 19)).batch.map (·.id) = [11] := by
  decide +kernel

end Cuke.C05
