"""Known findings (committed file known_findings.json, never written at run time)."""
import json, os, re
ROOT = os.path.dirname(os.path.dirname(os.path.abspath(__file__)))

def _load():
    p = os.path.join(ROOT, "known_findings.json")
    if not os.path.exists(p):
        return {"findings": [], "fixed": []}
    return json.load(open(p))

def match(pid, d):
    """d: a disagreement / monitor failure dict. Returns the finding entry it is an instance of, or None."""
    for k in _load().get("findings", []):
        if k["property"] != pid:
            continue
        if k.get("family") and k["family"] != d.get("family"):
            continue
        tag = k.get("impl_tag")
        if tag and d.get("impl", "").startswith(tag):
            return k
    return None

def static_lines(pid):
    return []
