"""Human-written MANIFEST texts per property."""
HOOK_COMMITS = []
NOT_APPLICABLE = {}
TEXTS = {
    "C15": {
        "level": "Lean 4 theorems over the executable model of TagOperation::eval and of the filter closure / feature surgery in Cucumber::filter_run: eval is the Boolean homomorphism (= truth-table semantics over tag membership, for every expression and tag list), precedence name-regex > tag-expression > closure, kept scenarios = exactly the accepted ones as a sublist (order preserved) per container, rules/background/tags untouched. Unbounded in expression depth, tag lists and feature sizes. The model is tied to the code by running the real Cucumber::filter_run (scripted parser, recording runner, every combination of the three filter sources) and TagOperation::eval against cuke-driver on generated cases.",
        "note": "Trusted: Lean kernel + {propext, Quot.sound}; driver compilation; harness generators. regex matching is an oracle column computed by the real regex crate; the gherkin tag-expression text parser is exercised (1/3 of expressions) but not modelled.",
        "technique": "Lean 4 proof (induction on TagOp, List.filter/Sublist lemmas) + pure-function differential vs real filter_run",
    },
}
