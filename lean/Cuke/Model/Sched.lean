import Cuke.Model.Ev
import Cuke.Model.Tag
/-
  Model of the scheduler of `runner::Basic` (src/runner/basic.rs):
  `Features::{insert, insert_scenarios, insert_retried_scenario, get, is_finished}`,
  `FinishedRulesAndFeatures::{start_scenarios, rule_scenario_finished, feature_scenario_finished,
  finish_all_rules_and_features}`, the slot accounting and fail-fast switch of `execute`.

  Pure functions only; the transition system built from them is in `Cuke/Model/SchedLts.lean`.
  Time is a `Nat` (ns) supplied by the environment.
-/
namespace Cuke

/-- one queued scenario attempt: `(ScenarioId, feature, rule, scenario, Option<RetryOptionsWithDeadline>)` -/
structure Entry where
  id : Nat
  key : ScenKey
  serial : Bool
  ret : Option RetryOptions
  /-- the `Instant` stored by `with_deadline` (retried entries with a delay only) -/
  t0 : Option Nat
  deriving Repr, DecidableEq, Inhabited

structure Queues where
  serial : List Entry
  conc : List Entry
  deriving Repr, DecidableEq, Inhabited

def Queues.empty : Queues := ⟨[], []⟩
def Queues.isEmpty (q : Queues) : Bool := q.serial.isEmpty && q.conc.isEmpty

/-- `RetryOptionsWithDeadline::left_until_retry`: `dur.checked_sub(instant.elapsed())`;
    `Some(left)` (also `Some(0)`) means NOT ready. -/
def leftUntilRetry (e : Entry) (now : Nat) : Option Nat :=
  match e.ret with
  | none => none
  | some o =>
    match o.after, e.t0 with
    | some d, some t => if now - t ≤ d then some (d - (now - t)) else none
    | _, _ => none

def Entry.ready (e : Entry) (now : Nat) : Bool := (leftUntilRetry e now).isNone

/-- `insert_scenarios` for entries of an initial run (`retries.current = 0` or no retries):
    if the batch holds a Serial scenario, each present type goes IN FRONT of its queue,
    otherwise Concurrent ones are appended. -/
def insertInitial (q : Queues) (newSerial newConc : List Entry) : Queues :=
  if newSerial.isEmpty then { q with conc := q.conc ++ newConc }
  else { serial := newSerial ++ q.serial, conc := if newConc.isEmpty then q.conc else newConc ++ q.conc }

/-- `insert_scenarios` for a retried entry (`current > 0`): `with_deadline(now)` and front of its queue. -/
def insertRetried (q : Queues) (e : Entry) (now : Nat) : Queues :=
  let e := { e with t0 := (e.ret.bind (·.after)).map (fun _ => now) }
  if e.serial then { q with serial := e :: q.serial } else { q with conc := e :: q.conc }

/-- `drain(storage, ty, count)`: takes the first `count` ready entries (all if `none`), in queue order;
    returns (taken, remaining, some-scanned-entry-was-not-ready). Entries after the count was
    reached are not examined. -/
def drainQ (ready : Entry → Bool) : Option Nat → List Entry → List Entry × List Entry × Bool
  | _, [] => ([], [], false)
  | cnt, e :: rest =>
    if cnt == some 0 then ([], e :: rest, false)
    else if ready e then
      let r := drainQ ready (cnt.map (· - 1)) rest
      (e :: r.1, r.2.1, r.2.2)
    else
      let r := drainQ ready cnt rest
      (r.1, e :: r.2.1, true)

/-- `Features::get(max)`: `Some(0)` ⇒ nothing; else one ready Serial entry if any, else up to `max`
    ready Concurrent ones. Returns (batch, queues left, sleep hint present). -/
def getBatch (ready : Entry → Bool) (ask : Option Nat) (q : Queues) : List Entry × Queues × Bool :=
  if ask == some 0 then ([], q, false)
  else
    let s := drainQ ready (some 1) q.serial
    if !s.1.isEmpty then (s.1, { q with serial := s.2.1 }, s.2.2)
    else
      let c := drainQ ready ask q.conc
      (c.1, { serial := s.2.1, conc := c.2.1 }, s.2.2 || c.2.2)

/-- `Features::is_finished(fail_fast)` -/
def isFinished (parserDone : Bool) (brk : Bool) (q : Queues) : Bool :=
  parserDone && (brk || q.isEmpty)

/-! ## slots: `started_scenarios : ControlFlow<(), Option<usize>>` -/

inductive Slots where
  | cont (free : Option Nat)
  | brk
  deriving Repr, DecidableEq, Inhabited

/-- `started_scenarios.continue_value().unwrap_or(Some(0))` -/
def Slots.ask : Slots → Option Nat
  | .cont n => n
  | .brk => some 0

def Slots.isBrk : Slots → Bool
  | .brk => true
  | _ => false

/-- `*sc -= runnable.len()` -/
def Slots.onDispatch (s : Slots) (n : Nat) : Slots :=
  match s with
  | .cont (some k) => .cont (some (k - n))
  | s => s

/-- `*sc += 1` when `run_scenarios.next()` yielded a finished scenario -/
def Slots.onConsume (s : Slots) : Slots :=
  match s with
  | .cont (some k) => .cont (some (k + 1))
  | s => s

/-- `if fail_fast && scenario_failed && !retried { Break }` -/
def tripFailFast (failFast failed retried : Bool) : Bool := failFast && failed && !retried

/-! ## brackets: `FinishedRulesAndFeatures` -/

structure Brackets where
  feats : List (Nat × Nat)              -- feature ↦ finished scenarios
  rules : List ((Nat × Nat) × Nat)      -- (feature, rule) ↦ finished scenarios
  deriving Repr, DecidableEq, Inhabited

def Brackets.empty : Brackets := ⟨[], []⟩

def dedupAdj [BEq α] : List α → List α
  | [] => []
  | [a] => [a]
  | a :: b :: rest => if a == b then dedupAdj (b :: rest) else a :: dedupAdj (b :: rest)

/-- `start_scenarios(runnable)`: Started events for features / rules seen for the first time. -/
def startScenarios (b : Brackets) (batch : List Entry) : Brackets × List Ev :=
  let fs := dedupAdj (batch.map (·.key.feat))
  let (feats, newF) := fs.foldl (fun (acc : List (Nat × Nat) × List Nat) f =>
    if acc.1.any (fun e => e.1 == f) then acc else (acc.1 ++ [(f, 0)], acc.2 ++ [f])) (b.feats, [])
  let rs := dedupAdj (batch.filterMap (fun e => e.key.rule.map (fun r => (e.key.feat, r))))
  let (rules, newR) := rs.foldl (fun (acc : List ((Nat × Nat) × Nat) × List (Nat × Nat)) fr =>
    if acc.1.any (fun e => e.1 == fr) then acc else (acc.1 ++ [(fr, 0)], acc.2 ++ [fr])) (b.rules, [])
  ({ feats, rules }, newF.map Ev.featStarted ++ newR.map (fun fr => Ev.ruleStarted fr.1 fr.2))

/-- `rule_scenario_finished` + `feature_scenario_finished` for one drained notification.
    `none` = one of the `panic!("no Rule/Feature")` branches. `nRule` / `nFeat` are
    `rule.scenarios.len()` / `feature.count_scenarios()`. -/
def scenarioFinished (b : Brackets) (k : ScenKey) (retried : Bool) (nRule nFeat : Nat) : Option (Brackets × List Ev) :=
  if retried then some (b, [])
  else
    let rulePart : Option (List ((Nat × Nat) × Nat) × List Ev) :=
      match k.rule with
      | none => some (b.rules, [])
      | some r =>
        match b.rules.find? (fun e => e.1 == (k.feat, r)) with
        | none => none
        | some (_, c) =>
          if nRule == c + 1 then some (b.rules.filter (fun e => !(e.1 == (k.feat, r))), [Ev.ruleFinished k.feat r])
          else some (b.rules.map (fun e => if e.1 == (k.feat, r) then (e.1, c + 1) else e), [])
    match rulePart with
    | none => none
    | some (rules, evR) =>
      match b.feats.find? (fun e => e.1 == k.feat) with
      | none => none
      | some (_, c) =>
        if nFeat == c + 1 then
          some ({ feats := b.feats.filter (fun e => !(e.1 == k.feat)), rules }, evR ++ [Ev.featFinished k.feat])
        else some ({ feats := b.feats.map (fun e => if e.1 == k.feat then (e.1, c + 1) else e), rules }, evR)

/-- `finish_all_rules_and_features`: all open rules, then all open features (each group in hash order). -/
def finishAll (b : Brackets) : List Ev × List Ev :=
  (b.rules.map (fun e => Ev.ruleFinished e.1.1 e.1.2), b.feats.map (fun e => Ev.featFinished e.1))

end Cuke
