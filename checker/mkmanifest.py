#!/usr/bin/env python3
"""Regenerates /verif/MANIFEST.json from checker/props.py + checker/texts.py."""
import json, os, sys
sys.path.insert(0, os.path.dirname(os.path.abspath(__file__)))
from props import PROPS
from texts import TEXTS, NOT_APPLICABLE, HOOK_COMMITS

ROOT = os.path.dirname(os.path.dirname(os.path.abspath(__file__)))
ids = [json.loads(l)["id"] for l in open(os.path.join(ROOT, "properties.jsonl"))]
checks = []
for pid in ids:
    if pid not in PROPS:
        continue
    t = TEXTS[pid]
    checks.append({
        "property_id": pid,
        "quick_cmd": f"./check {pid} --tier quick",
        "thorough_cmd": f"./check {pid} --tier thorough",
        "evidence_file": f"evidence/{pid}.json",
        "replay_cmd_template": f"./check {pid} --replay {{path}}",
        "engine": "lean4-proof+correspondence",
        "level_claimed": {"category": "proof", "text": t["level"], "design_ref": t.get("design_ref", "DESIGN.md §6 " + pid)},
        "level_note": t["note"],
        "technique": t["technique"],
    })
na = [{"property_id": pid, "reason": NOT_APPLICABLE.get(pid, "not yet covered by the machinery in this round (planned in DESIGN.md §6); no check is registered, nothing is claimed")}
      for pid in ids if pid not in PROPS]
m = {
    "version": 1,
    "setup_cmd": "./setup.sh",
    "hooks": {
        "guard": "cucumber_rs_cucumber_verif",
        "enable": "RUSTFLAGS='--cfg cucumber_rs_cucumber_verif' (set in /verif/harness/.cargo/config.toml, so every harness build has it on)",
        "baseline_off_cmd": "cd /repo && cargo test --workspace --no-fail-fast --offline",
        "source_commits": HOOK_COMMITS,
        "add_only": True,
    },
    "engines": [{
        "name": "lean4-proof+correspondence",
        "path": "lean/ (theorems, models, cuke-driver), harness/ (Rust differential harness), check + checker/*.py",
        "serves_properties": [c["property_id"] for c in checks],
        "kind_free_text": "machine-checked Lean 4 theorems about hand-written executable models; models tied to /repo by a differential (pure function / state machine / trace-acceptor) correspondence run rebuilt from /repo's working tree on every check",
    }],
    "checks": checks,
    "not_applicable": na,
    "notes": "See DESIGN.md. known_findings.json lists genuine defects recorded rather than repaired and the fixed ones.",
}
json.dump(m, open(os.path.join(ROOT, "MANIFEST.json"), "w"), indent=1)
print(f"{len(checks)} checks, {len(na)} not_applicable")
