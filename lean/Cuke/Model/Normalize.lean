import Cuke.Model.Ev
/-
  Model of `writer::Normalize` (src/writer/normalize.rs): the three-level queue
  (`CucumberQueue` → `FeatureQueue` → `RulesQueue` / `ScenariosQueue`) with `LinkedHashMap`
  insertion order, `initial` flags and `FinishedState`s, and the cascading `emit`.
  `none` = one of the `panic!` / `unreachable!` branches.
-/
namespace Cuke

/-- `FinishedState` -/
inductive Fin where
  | no | pending | emitted
  deriving Repr, DecidableEq, Inhabited

/-- attempt key `(Source<Scenario>, Option<Retries>)` with its buffered events (`ScenariosQueue`) -/
structure AttQ where
  scen : Nat
  ret : Option Retries
  evs : List ScenEv
  deriving Repr, DecidableEq, Inhabited

/-- `RulesQueue` -/
structure RuleQ where
  initial : Bool
  fin : Fin
  atts : List AttQ
  deriving Repr, DecidableEq, Inhabited

inductive Item where
  | rule (r : Nat) (q : RuleQ)
  | att (a : AttQ)
  deriving Repr, DecidableEq, Inhabited

/-- `FeatureQueue` -/
structure FeatQ where
  initial : Bool
  fin : Fin
  items : List Item
  deriving Repr, DecidableEq, Inhabited

/-- `CucumberQueue` -/
structure Norm where
  feats : List (Nat × FeatQ)
  fin : Fin
  deriving Repr, DecidableEq, Inhabited

def Norm.init : Norm := { feats := [], fin := .no }

def RuleQ.new : RuleQ := { initial := true, fin := .no, atts := [] }
def FeatQ.new : FeatQ := { initial := true, fin := .no, items := [] }

/-! ## insertion -/

def Item.isRule (r : Nat) : Item → Bool
  | .rule r' _ => r' == r
  | _ => false

def Item.isAtt (scen : Nat) (ret : Option Retries) : Item → Bool
  | .att a => a.scen == scen && a.ret == ret
  | _ => false

def AttQ.is (scen : Nat) (ret : Option Retries) (a : AttQ) : Bool := a.scen == scen && a.ret == ret

/-- update the (unique) entry of a map that satisfies `p` -/
def updFirst (p : α → Bool) (g : α → α) : List α → List α
  | [] => []
  | a :: rest => if p a then g a :: rest else a :: updFirst p g rest

def AttQ.push (ev : ScenEv) (a : AttQ) : AttQ := { a with evs := a.evs ++ [ev] }

/-- `entry((scenario, retries)).or_insert_with(new).push(ev)` -/
def pushAtt (atts : List AttQ) (scen : Nat) (ret : Option Retries) (ev : ScenEv) : List AttQ :=
  if atts.any (AttQ.is scen ret) then updFirst (AttQ.is scen ret) (AttQ.push ev) atts
  else atts ++ [{ scen, ret, evs := [ev] }]

def Item.pushInRule (scen : Nat) (ret : Option Retries) (ev : ScenEv) : Item → Item
  | .rule r q => .rule r { q with atts := pushAtt q.atts scen ret ev }
  | it => it

def Item.pushAtt (ev : ScenEv) : Item → Item
  | .att a => .att (a.push ev)
  | it => it

def Item.finishRule : Item → Item
  | .rule r q => .rule r { q with fin := .pending }
  | it => it

/-- `FeatureQueue::insert_scenario_event`; `none` = "no Rule" panic -/
def FeatQ.insertScen (fq : FeatQ) (rule : Option Nat) (scen : Nat) (ret : Option Retries) (ev : ScenEv) : Option FeatQ :=
  match rule with
  | some r =>
    if fq.items.any (Item.isRule r) then
      some { fq with items := updFirst (Item.isRule r) (Item.pushInRule scen ret ev) fq.items }
    else none
  | none =>
    if fq.items.any (Item.isAtt scen ret) then
      some { fq with items := updFirst (Item.isAtt scen ret) (Item.pushAtt ev) fq.items }
    else some { fq with items := fq.items ++ [.att { scen, ret, evs := [ev] }] }

/-- `new_rule`: `LinkedHashMap::insert` — an existing key is replaced AND moved to the back -/
def FeatQ.newRule (fq : FeatQ) (r : Nat) : FeatQ :=
  { fq with items := fq.items.filter (fun it => !it.isRule r) ++ [.rule r RuleQ.new] }

/-- `rule_finished`; `none` = `unreachable!()` -/
def FeatQ.ruleFinished (fq : FeatQ) (r : Nat) : Option FeatQ :=
  if fq.items.any (Item.isRule r) then
    some { fq with items := updFirst (Item.isRule r) Item.finishRule fq.items }
  else none

def updFeat (feats : List (Nat × FeatQ)) (f : Nat) (g : FeatQ → Option FeatQ) : Option (List (Nat × FeatQ)) :=
  match feats with
  | [] => none    -- `panic!("no Feature")`
  | (f', q) :: rest =>
    if f' == f then (g q).map (fun q' => (f', q') :: rest)
    else (updFeat rest f g).map (fun r => (f', q) :: r)

/-- the queue update for one event (before `emit`); `none` = a panic branch -/
def Norm.insert (n : Norm) : Ev → Option Norm
  | .finished => some { n with fin := .pending }
  | .featStarted f => some { n with feats := n.feats.filter (fun e => !(e.1 == f)) ++ [(f, FeatQ.new)] }
  | .featFinished f => (updFeat n.feats f (fun q => some { q with fin := .pending })).map (fun fs => { n with feats := fs })
  | .ruleStarted f r => (updFeat n.feats f (fun q => some (q.newRule r))).map (fun fs => { n with feats := fs })
  | .ruleFinished f r => (updFeat n.feats f (fun q => q.ruleFinished r)).map (fun fs => { n with feats := fs })
  | .scen k ret ev => (updFeat n.feats k.feat (fun q => q.insertScen k.rule k.scen ret ev)).map (fun fs => { n with feats := fs })
  | _ => some n

/-! ## emission -/

/-- `ScenariosQueue::emit`: pops and emits buffered events up to and including `Finished`.
    Returns (emitted, reached Finished). -/
def emitAtt : List ScenEv → List ScenEv × Bool
  | [] => ([], false)
  | e :: rest => if e == .finished then ([e], true) else ((e :: (emitAtt rest).1), (emitAtt rest).2)

def wrapAtt (f : Nat) (r : Option Nat) (a : AttQ) (evs : List ScenEv) : List Ev :=
  evs.map (Ev.scen ⟨f, r, a.scen⟩ a.ret)

/-- the `while let Some(..) = current_item()` loop of `RulesQueue::emit` -/
def emitAtts (f : Nat) (r : Option Nat) : List AttQ → List Ev × List AttQ
  | [] => ([], [])
  | a :: rest =>
    let e := emitAtt a.evs
    if e.2 then
      let x := emitAtts f r rest
      (wrapAtt f r a e.1 ++ x.1, x.2)
    else (wrapAtt f r a e.1, { a with evs := [] } :: rest)

/-- `RulesQueue::emit`: (events, rule is finished-and-emitted, queue afterwards) -/
def emitRule (f r : Nat) (q : RuleQ) : List Ev × Bool × RuleQ :=
  let pre := if q.initial then [Ev.ruleStarted f r] else []
  let x := emitAtts f (some r) q.atts
  if q.fin == .pending then
    (pre ++ x.1 ++ [Ev.ruleFinished f r], true, { initial := false, fin := .emitted, atts := x.2 })
  else (pre ++ x.1, false, { q with initial := false, atts := x.2 })

/-- the `while let Some(x) = events.emit(..) { events.remove(x) }` loop over a feature's items -/
def emitItems (f : Nat) : List Item → List Ev × List Item
  | [] => ([], [])
  | .att a :: rest =>
    let e := emitAtt a.evs
    if e.2 then
      let x := emitItems f rest
      (wrapAtt f none a e.1 ++ x.1, x.2)
    else (wrapAtt f none a e.1, .att { a with evs := [] } :: rest)
  | .rule r q :: rest =>
    let e := emitRule f r q
    if e.2.1 then
      let x := emitItems f rest
      (e.1 ++ x.1, x.2)
    else (e.1, .rule r e.2.2 :: rest)

/-- the `while let Some(feature_to_remove) = self.queue.emit(..)` loop -/
def emitFeats : List (Nat × FeatQ) → List Ev × List (Nat × FeatQ)
  | [] => ([], [])
  | (f, q) :: rest =>
    let pre := if q.initial then [Ev.featStarted f] else []
    let x := emitItems f q.items
    if q.fin == .pending then
      let y := emitFeats rest
      (pre ++ x.1 ++ [Ev.featFinished f] ++ y.1, y.2)
    else (pre ++ x.1, (f, { q with initial := false, items := x.2 }) :: rest)

/-- `Normalize::handle_event`: (state, events forwarded to the inner writer by this call) -/
def Norm.handle (n : Norm) (e : Ev) : Option (Norm × List Ev) :=
  if n.fin == .emitted then some (n, [e])
  else
    match n.insert e with
    | none => none
    | some n1 =>
      let direct := if e.isRunLevel then [e] else []
      let x := emitFeats n1.feats
      if n1.fin == .pending then
        some ({ feats := x.2, fin := .emitted }, direct ++ x.1 ++ [.finished])
      else some ({ n1 with feats := x.2 }, direct ++ x.1)

/-- run a stream: per-call outputs -/
def normRun : Norm → List Ev → Option (Norm × List (List Ev))
  | n, [] => some (n, [])
  | n, e :: es =>
    match n.handle e with
    | none => none
    | some (n', out) =>
      match normRun n' es with
      | none => none
      | some (n'', outs) => some (n'', out :: outs)

end Cuke
