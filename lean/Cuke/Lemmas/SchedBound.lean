import Cuke.Lemmas.SchedCount
import Cuke.Lemmas.SchedSpin
/-!
  C04: every attempt that ended was dispatched — `#END + #in flight = #dispatched` in every clean run — so the number of
  ended attempts is bounded by the dispatch log, which `C04.lts_total_attempts_bounded` bounds before the run starts.
-/
namespace Cuke.SchedBound
open Cuke List Cuke.SchedL Cuke.SchedInv Cuke.SchedOrd Cuke.SchedCons Cuke.SchedSeq Cuke.SchedCount Cuke.SchedSpin

set_option linter.unusedSimpArgs false
set_option linter.unusedVariables false

/-- one step: ended + in flight = dispatched is kept -/
theorem len_step (c : SCfg) (s : SState) (l : Label) (d : List (Nat × Nat)) (n : Nat)
    (h : n + s.running.length = d.length) (hc : Clean0 (stepL c s l) = true) :
    (n + (if isEndA l then 1 else 0)) + (stepL c s l).running.length = (dstep s d l).length := by
  have hs0 : Clean0 s = true := clean0_step_mono c s l hc
  have hs : s.dis = [] := by simpa [Clean0] using hs0
  have hd : (stepL c s l).dis = [] := by simpa [Clean0] using hc
  have same : ∀ {l : Label}, (stepL c s l).running = s.running → isEndA l = false → (∀ k sl, l ≠ .disp k sl) →
      (n + (if isEndA l then 1 else 0)) + (stepL c s l).running.length = (dstep s d l).length := by
    intro l hr he hnd
    rw [hr, he]
    have : dstep s d l = d := by cases l <;> first | rfl | exact absurd rfl (hnd _ _)
    rw [this]; simpa using h
  cases l with
  | tx e => exact same (congrArg V.running (vw_tx c s e)) rfl (by intro _ _ hh; cases hh)
  | rx e => exact same (congrArg V.running (vw_rx c s e)) rfl (by intro _ _ hh; cases hh)
  | other => exact same (congrArg V.running (vw_other c s)) rfl (by intro _ _ hh; cases hh)
  | cbIn a b t => exact same (congrArg V.running (vw_cbIn c s a b t)) rfl (by intro _ _ hh; cases hh)
  | cbOut a b t => exact same (congrArg V.running (vw_cbOut c s a b t)) rfl (by intro _ _ hh; cases hh)
  | envMove => exact same (congrArg V.running (vw_env c s)) rfl (by intro _ _ hh; cases hh)
  | pPend => exact same (congrArg V.running (vw_pPend c s)) rfl (by intro _ _ hh; cases hh)
  | pWake => exact same (congrArg V.running (vw_pWake c s)) rfl (by intro _ _ hh; cases hh)
  | pOk f => exact same (congrArg V.running (vw_pOk c s f)) rfl (by intro _ _ hh; cases hh)
  | pErr => exact same (congrArg V.running (vw_pErr c s)) rfl (by intro _ _ hh; cases hh)
  | pEnd => exact same (congrArg V.running (vw_pEnd c s)) rfl (by intro _ _ hh; cases hh)
  | pFinish => exact same (congrArg V.running (vw_pFinish c s)) rfl (by intro _ _ hh; cases hh)
  | ins t a b => exact same (congrArg V.running (vw_ins c s t a b)) rfl (by intro _ _ hh; cases hh)
  | verdict b x y z => exact same (congrArg V.running (vw_verdict c s b x y z)) rfl (by intro _ _ hh; cases hh)
  | notif id f r => exact same (congrArg V.running (vw_notif c s id f r)) rfl (by intro _ _ hh; cases hh)
  | poll => exact same (congrArg V.running (vw_poll c s)) rfl (by intro _ _ hh; cases hh)
  | brk => exact same (congrArg V.running (vw_brk c s hs hd).2) rfl (by intro _ _ hh; cases hh)
  | hookTake => exact same (congrArg V.running (vw_hookTake c s hs hd).2) rfl (by intro _ _ hh; cases hh)
  | hookRestore => exact same (congrArg V.running (vw_hookRestore c s hs hd).2) rfl (by intro _ _ hh; cases hh)
  | exit => exact same (congrArg V.running (vw_exit c s hs hd).2.2) rfl (by intro _ _ hh; cases hh)
  | get1 t ask ns nc => exact same (congrArg V.running (vw_get1 c s t ask ns nc hs hd).2) rfl (by intro _ _ hh; cases hh)
  | idle fin sl => exact same (congrArg V.running (vw_idle c s fin sl hs hd).2.2.2.2) rfl (by intro _ _ hh; cases hh)
  | idleYield => exact same (congrArg V.running (vw_idleYield c s hs hd).2) rfl (by intro _ _ hh; cases hh)
  | idleSlept => exact same (congrArg V.running (vw_idleSlept c s hs hd).2) rfl (by intro _ _ hh; cases hh)
  | idleContinue => exact same (congrArg V.running (vw_idleContinue c s hs hd).2.2) rfl (by intro _ _ hh; cases hh)
  | cons got => exact same (congrArg V.running (vw_cons c s got hs hd).2.2) rfl (by intro _ _ hh; cases hh)
  | get2 t2 slots got sleep running =>
    have e := (get2_fields c s t2 slots got sleep running).2.2.2.2
    rw [← get2_eq c] at e
    exact same e rfl (by intro _ _ hh; cases hh)
  | disp k sl =>
    have hv := (vw_disp c s k sl hs hd).2
    have e5 : (stepL c s (.disp k sl)).running = s.running ++ s.batch := congrArg V.running hv
    rw [e5]
    simp only [isEndA, dstep, length_append, length_map, Bool.false_eq_true, if_false]
    omega
  | endA id f r t =>
    have hv := vw_endA c s id f r t hs hd
    have e5 : (stepL c s (.endA id f r t)).running = s.running.eraseP (fun x => x.id == id) := congrArg V.running hv
    rw [e5]
    -- the attempt was in flight (otherwise class A)
    have hfind : ∃ e, s.running.find? (fun e => e.id == id) = some e := by
      cases hf : s.running.find? (fun e => e.id == id) with
      | some e => exact ⟨e, rfl⟩
      | none =>
        exfalso
        rw [endA_eq] at hd
        unfold endR at hd
        simp [hf, SState.note, hs] at hd
    obtain ⟨e, hf⟩ := hfind
    have hlen := length_eraseP_of_find _ _ _ hf
    simp only [isEndA, dstep, if_true]
    omega

theorem len_run (c : SCfg) : ∀ (ls : List Label) (x : NState × List (Nat × Nat) × (List Nat × List Nat)) (n : Nat),
    n + x.1.base.running.length = x.2.1.length →
    Clean0 ((ls.foldl (stepN c) x.1).base) = true →
    (n + ls.countP isEndA) + (runD c ls x).1.base.running.length = (runD c ls x).2.1.length := by
  intro ls
  induction ls with
  | nil => intro x n h _; simpa [runD] using h
  | cons l rest ih =>
    intro x n h hc
    simp only [foldl_cons] at hc
    have hmono : ∀ (ls : List Label) (m : NState), Clean0 ((ls.foldl (stepN c) m).base) = true → Clean0 m.base = true := by
      intro ls
      induction ls with
      | nil => intro m hm; exact hm
      | cons l rest ih2 =>
        intro m hm
        simp only [foldl_cons] at hm
        have := ih2 _ hm
        rw [stepN_base] at this
        exact clean0_step_mono c _ _ this
    have hc1 : Clean0 (stepL c x.1.base l) = true := by
      have := hmono rest _ hc
      rwa [stepN_base] at this
    have hstep := len_step c x.1.base l x.2.1 n h hc1
    have := ih (stepN c x.1 l, dstep x.1.base x.2.1 l, gstep c x.1.base x.2.2 l) (n + (if isEndA l then 1 else 0))
      (by simp only [stepN_base]; exact hstep) hc
    simp only [runD, foldl_cons, countP_cons] at this ⊢
    have hcount : n + (if isEndA l = true then 1 else 0) + countP isEndA rest =
        n + (countP isEndA rest + if isEndA l = true then 1 else 0) := by omega
    rw [← hcount]
    exact this

/-- **every ended attempt was dispatched**: in a clean run `#END + #in flight = #dispatched` -/
theorem ended_le_dispatched (c : SCfg) (ls : List Label) (hc : NClean (acceptN c ls) = true) :
    ls.countP isEndA + (accept c ls).running.length = (dispatched c ls).length := by
  have hc0 : Clean0 ((ls.foldl (stepN c) ({} : NState)).base) = true := by
    simp only [NClean, Bool.and_eq_true] at hc
    exact hc.1
  have := len_run c ls ({}, [], ([], [])) 0 (by simp) hc0
  rw [runD_state] at this
  simp only [Nat.zero_add] at this
  have hb : (ls.foldl (stepN c) ({} : NState)).base = accept c ls := acceptN_base c ls
  rw [hb] at this
  exact this

end Cuke.SchedBound
