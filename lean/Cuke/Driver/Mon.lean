import Cuke.Driver.EvCodec
import Cuke.Model.Monitors
/-! `mon.c01`, `mon.c12` -/
namespace Cuke.Driver
open Cuke Cuke.Wire Cuke.Mon

def handleMonC01 : Toks → Option String :=
  fun ts => runAll (do
    let fos ← bool
    let cat ← catP
    let evs ← list evP
    let verdict ← bool
    let failedSteps ← nat
    let parseErrs ← nat
    pure (monC01 cat.toCatalog fos evs verdict failedSteps parseErrs)) ts

def handleMonC12 : Toks → Option String :=
  fun ts => runAll (do
    let cat ← catP
    let evs ← list evP
    let p ← nat; let s ← nat; let f ← nat; let r ← nat
    pure (monC12 cat.toCatalog evs ⟨p, s, f, r⟩)) ts

def handleMonC20 : Toks → Option String :=
  fun ts => runAll (do
    let _limit ← nat
    let plan ← list (do let s ← nat; let st ← nat; let n ← nat; pure (s, st, n))
    let marked ← list (do let s ← nat; let st ← nat; pure (s, st))
    let evs ← list evP
    pure (monC20 plan marked evs)) ts

def handleMonTraced : Toks → Option String :=
  fun ts => runAll (do
    let evs ← list evP
    pure (monTraced evs)) ts

end Cuke.Driver
