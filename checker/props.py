"""Per-property configuration of the check.

families: (harness family, quick count, thorough count)
A property's correspondence consists of the listed families only (DESIGN §2.3:
a disagreement in a family a property does not depend on does not alarm it).
"""

TRUSTED_BASE = [
    "Lean 4.33 kernel; axioms allowed: propext, Classical.choice, Quot.sound",
    "Lean compiler/runtime for the cuke-driver executable (same constants as the theorems, no implemented_by)",
    "Rust correspondence harness /verif/harness (generators, canonical encoding) and checker/*.py",
    "hand-written model: tie to /repo is the differential run of this check, not a translation",
]

PROPS = {
    "C15": {
        "module": "Cuke.Props.C15",
        "namespace": "Cuke.C15",
        "families": [("tag.eval", 10000, 300000), ("filter.feature", 6000, 150000)],
        "modelled_not_verified": [
            "regex::Regex::is_match (oracle column per scenario)",
            "gherkin tag-expression parser (a third of the expressions go through it)",
        ],
    },
    "C17": {
        "module": "Cuke.Props.C17",
        "namespace": "Cuke.C17",
        "families": [("match.find", 12000, 400000)],
        "modelled_not_verified": [
            "regex crate: captures_read / capture_names are oracle columns (whole match, per-group participation and text, names)",
            "Ord of (HashableRegex, Option<Location>) is used by the harness to number the keys (model sorts by that number)",
            "std HashMap: modelled as an association list with distinct keys iterated in arbitrary order (theorems quantify over the order)",
        ],
    },
    "C18": {
        "module": "Cuke.Props.C18",
        "namespace": "Cuke.C18",
        "skip_prefixes": ["mon.c10"],
        "families": [("retry.resolve", 10000, 300000), ("sched.run", 1000, 40000)],
        # the last clause (CLI --concurrency overrides, --fail-fast adds to the builder settings) is decided by how the
        # scheduler behaves: classes K (slot accounting incl. limit resolution) and FF of the scheduler runs
        "segments": {"sched.run": [1, 4]},
        "modelled_not_verified": [
            "humantime::parse_duration (oracle table for every parenthesised substring of every tag)",
        ],
    },
    "C13": {
        "module": "Cuke.Props.C13",
        "namespace": "Cuke.C13",
        # exit.run: the same combinators reached through the `Cucumber` builder methods (repeat_skipped / repeat_failed /
        # repeat_if / fail_on_skipped / fail_on_skipped_with in src/cucumber.rs)
        "families": [("pipe.comb", 6000, 150000), ("exit.run", 3000, 80000)],
        "modelled_not_verified": [
            "custom predicates/filters are drawn from a small closed family (always/never/parity/...) on both sides",
            "recording leaf writers and the dynamic boxing adapter (DynW) are harness code",
        ],
    },
    "C12": {
        "module": "Cuke.Props.C12",
        "namespace": "Cuke.C12",
        "families": [("pipe.summ", 5000, 150000)],
        "modelled_not_verified": [
            "the summary TEXT (Styles::summary) is parsed back by the harness into its numbers; formatting is not modelled",
            "usize arithmetic as Nat (skipped -= 1 never underflows on canonical streams)",
        ],
    },
    "C01": {
        "module": "Cuke.Props.C01",
        "namespace": "Cuke.C01",
        "skip_prefixes": ["mon.c10"],
        "families": [("pipe.verdict", 5000, 150000), ("exit.run", 3000, 80000), ("sched.run", 1000, 40000)],
        "segments": {"sched.run": [14]},
        "segment_names": ['c01'],
        "modelled_not_verified": [
            "the process exit status itself: observed is the panic of the real Cucumber::run_and_exit (family exit.run: real builder glue with_cli / repeat_* / fail_on_skipped* / filter_run's event loop around a replaying Runner, panic caught and its message compared with Cuke.exitOutcome)",
            "Libtest's own verdict is covered with C14 once the reporters are modelled",
        ],
    },
    "C02": {
        "module": "Cuke.Props.C02",
        "namespace": "Cuke.C02",
        # trace.run (request mon.traced only): with the tracing integration Log events are events of an attempt too
        "families": [("attempt.run", 800, 30000), ("sched.run", 1000, 40000), ("sched.lazy", 600, 30000), ("match.find", 6000, 200000), ("trace.run", 200, 3000)],
        # class A of the acceptor: a scenario event sent for an attempt that is not in flight (theorem
        # lts_scenario_event_of_attempt_in_flight)
        "segments": {"attempt.run": [0], "sched.run": [6, 13]},
        "segment_names": ['A', 'c02'],
        "skip_prefixes": ["mon.c09", "mon.c10", "mon.c20"],
        "modelled_not_verified": [
            "catch_unwind / unwinding: a panic is an outcome value of the model",
            "attempts of concurrent runs (sched.*) are checked against the grammar recogniser shapeOk (theorem runAttempt_shape), not against a per-attempt script",
            "Metadata timestamps are dropped",
            "step matching is abstracted to pass / no-match / ambiguous in the attempt model; the clause 'no match => Skipped, several matches => Failed as ambiguous' also depends on Collection::find, so the match.find family (C17's model, theorems find_none / find_unique / find_ambiguous) is part of this check",
        ],
    },
    "C09": {
        "module": "Cuke.Props.C09",
        "namespace": "Cuke.C09",
        "families": [("attempt.run", 800, 30000)],
        "segments": {"attempt.run": [1]},
        "skip_prefixes": ["mon.c10"],
        "modelled_not_verified": [
            "the harness' World carries an instance id from a global counter and a mutation counter; every callback logs them",
            "attribution of World::new calls to attempts uses the TX probe (last event sent in the same poll)",
        ],
    },
    "C10": {
        "module": "Cuke.Props.C10",
        "namespace": "Cuke.C10",
        # sched.*: the run-level clauses — the panic-hook window (probes HOOK take / HOOK restore / EXIT against the
        # acceptor, class I; theorems lts_panic_hook_*) and the Lean monitor `hookWindow` (segment c10) on every run
        "families": [("attempt.run", 800, 30000), ("sched.run", 1000, 40000), ("sched.lazy", 600, 30000), ("sched.custom", 400, 15000)],
        "segments": {"attempt.run": [0, 2], "sched.run": [5, 15], "sched.mon": [15]},
        "segment_names": ['I', 'c10'],
        "skip_prefixes": ["mon.c09"],
        "modelled_not_verified": [
            "catch_unwind and unwinding themselves; payload types String / &'static str / u32 are exercised",
            "the process-wide panic hook itself (std::panic::take_hook / set_hook): the model has one bit 'silent hook installed' driven by the probes around the two calls; that panics print nothing while it is set is observed by a counting hook installed by the harness (monitor mon.c10)",
        ],
    },
    "C03": {
        "module": "Cuke.Props.C03",
        "namespace": "Cuke.C03",
        "skip_prefixes": ["mon.c10", "mon.c20"],
        "families": [("sched.run", 1000, 40000), ("sched.lazy", 600, 30000), ("sched.custom", 400, 15000), ("trace.run", 200, 3000)],
        "segments": {"sched.run": [3, 5, 2, 4, 7], "sched.mon": [7]},
        "segment_names": ['B', 'I', 'R', 'FF', 'c03'],
        "modelled_not_verified": ["futures crate: FuturesUnordered, mpsc channels, join/select (the plumbing is checked by comparing sent and received event sequences)", "the async executor (hand-polled by the harness) and Instant / thread::sleep (clock readings are environment inputs of the model)", "HashMap iteration order at finish_all (model: any order inside the rule group and the feature group)", "runs with a custom retry_options closure (scenarios that START with current != 0; family sched.custom) are judged by the stream monitor `framed` only: the scheduler model resolves retry options from tags"],
    },
    "C04": {
        "module": "Cuke.Props.C04",
        "namespace": "Cuke.C04",
        "skip_prefixes": ["mon.c10"],
        "families": [("sched.run", 1000, 40000), ("sched.lazy", 600, 30000), ("sched.custom", 400, 15000)],
        "segments": {"sched.run": [5, 0, 2, 1, 8], "sched.mon": [8]},
        "segment_names": ['I', 'Q', 'R', 'K', 'c04'],
        "modelled_not_verified": ["futures crate: FuturesUnordered, mpsc channels, join/select (the plumbing is checked by comparing sent and received event sequences)", "the async executor (hand-polled by the harness) and Instant / thread::sleep (clock readings are environment inputs of the model)", "HashMap iteration order at finish_all (model: any order inside the rule group and the feature group)", "fairness of the environment (every gate is eventually opened, sleeps end, the parser ends) is assumed for termination"],
    },
    "C05": {
        "module": "Cuke.Props.C05",
        "namespace": "Cuke.C05",
        "families": [("sched.run", 1000, 40000), ("sched.lazy", 600, 30000), ("attempt.run", 800, 30000)],
        # attempt.run segment 1 = the callback log (World ids): "each attempt starts from a freshly created World"
        "segments": {"sched.run": [2, 0, 9], "attempt.run": [2, 1]},
        "skip_prefixes": ["mon.c10"],
        "segment_names": ['R', 'Q', 'c05'],
        "modelled_not_verified": ["futures crate: FuturesUnordered, mpsc channels, join/select (the plumbing is checked by comparing sent and received event sequences)", "the async executor (hand-polled by the harness) and Instant / thread::sleep (clock readings are environment inputs of the model)", "HashMap iteration order at finish_all (model: any order inside the rule group and the feature group)", "the retry delay is checked against two clock readings bracketing get(); wall-clock sleeping is runtime behaviour"],
    },
    "C06": {
        "module": "Cuke.Props.C06",
        "namespace": "Cuke.C06",
        "skip_prefixes": ["mon.c10"],
        "families": [("sched.run", 1000, 40000), ("sched.lazy", 600, 30000)],
        "segments": {"sched.run": [1, 0, 10]},
        "segment_names": ['K', 'Q', 'c06'],
        "modelled_not_verified": ["futures crate: FuturesUnordered, mpsc channels, join/select (the plumbing is checked by comparing sent and received event sequences)", "the async executor (hand-polled by the harness) and Instant / thread::sleep (clock readings are environment inputs of the model)", "HashMap iteration order at finish_all (model: any order inside the rule group and the feature group)"],
    },
    "C07": {
        "module": "Cuke.Props.C07",
        "namespace": "Cuke.C07",
        "skip_prefixes": ["mon.c10"],
        "families": [("sched.run", 1000, 40000), ("sched.lazy", 600, 30000)],
        "segments": {"sched.run": [0, 1, 5, 11]},
        "segment_names": ['Q', 'K', 'I', 'c07'],
        "modelled_not_verified": ["futures crate: FuturesUnordered, mpsc channels, join/select (the plumbing is checked by comparing sent and received event sequences)", "the async executor (hand-polled by the harness) and Instant / thread::sleep (clock readings are environment inputs of the model)", "HashMap iteration order at finish_all (model: any order inside the rule group and the feature group)"],
    },
    "C08": {
        "module": "Cuke.Props.C08",
        "namespace": "Cuke.C08",
        "families": [("sched.run", 1000, 40000), ("sched.lazy", 600, 30000), ("attempt.run", 800, 30000)],
        "segments": {"sched.run": [4, 3, 1, 12], "attempt.run": [2]},
        "skip_prefixes": ["mon.c09", "mon.c10"],
        "segment_names": ['FF', 'B', 'K', 'c08'],
        "modelled_not_verified": ["futures crate: FuturesUnordered, mpsc channels, join/select (the plumbing is checked by comparing sent and received event sequences)", "the async executor (hand-polled by the harness) and Instant / thread::sleep (clock readings are environment inputs of the model)", "HashMap iteration order at finish_all (model: any order inside the rule group and the feature group)"],
    },
    "C11": {
        "module": "Cuke.Props.C11",
        "namespace": "Cuke.C11",
        "families": [("norm.run", 5000, 150000)],
        "modelled_not_verified": [
            "linked-hash-map crate: modelled as association lists (insert on an existing key replaces and moves to the back; entry().or_insert keeps the position)",
            "Metadata (timestamps) dropped; panics (`no Feature`, `no Rule`, unreachable!) are the model's `none`",
        ],
    },
    "C16": {
        "module": "Cuke.Props.C16",
        "namespace": "Cuke.C16",
        "families": [("outline.expand", 8000, 200000)],
        "modelled_not_verified": [
            "gherkin's own parsing (the parsed AST is the request)",
            "the regex crate's implementation of `<([^>\\s]+)>` with replace_all: the model's scanner (leftmost, non-overlapping, Unicode White_Space) is tied to it by the differential",
        ],
    },
    "C19": {
        "module": "Cuke.Props.C19",
        "namespace": "Cuke.C19",
        "families": [("zoo.reg", 3, 3), ("zoo.dispatch", 2500, 100000)],
        "modelled_not_verified": [
            "macro expansion (syn/quote), inventory registration, regex::escape, cucumber-expressions: decided by the differential over the zoo compiled with the real macros, not by a theorem",
            "the zoo is a representative sample of signatures (sync/async, ()/Result, typed args, slice, #[step], literal/regex/expr, custom multi-group Parameter, two attributes on one fn, two Worlds)",
        ],
    },
    "C20": {
        "module": "Cuke.Props.C20",
        "namespace": "Cuke.C20",
        "families": [("trace.run", 200, 3000), ("trace.frame", 20000, 600000), ("trace.coll", 10000, 400000)],
        "modelled_not_verified": [
            "tracing / tracing-subscriber (one write per event, on_close on span drop) and the global dispatcher: one real run per child process",
            "the collector protocol model (Cuke.Tr) is tied directly: random operation sequences (start / finish scenario, log with / without / with an unregistered id, span close, waiter registration, forward_logs turn) run through a REAL tracing Collector (cfg hook VerifCollector) and through the model (family trace.coll); and end-to-end (monitor on the event stream of real runs). The byte-level framing (Cuke.Frame) is tied directly too: the real CollectorWriter::write runs on generated buffers (cfg hook verif_unframe)",
            "HashMap iteration order in the collector (broadcast of a log without a registered id to all active scenarios; order in which complete span entries fire): compared as sets per log / per turn",
            "String::from_utf8_lossy (buffers are valid UTF-8 in every run), str::split_terminator / rsplit_once / strip_suffix / u64::from_str: modelled on List Char, tied by the differential",
        ],
    },
    "C14": {
        "module": "Cuke.Props.C14",
        "namespace": "Cuke.C14",
        "families": [("report.run", 2500, 80000)],
        "modelled_not_verified": [
            "serde_json / junit-report / console: byte-level serialisation; well-formedness and escaping are tested by parsing the real output back (names with quotes, <&>, ]]>, backslashes, non-ASCII), not proved",
            "the plain terminal writer (writer::Basic) is modelled in non-terminal mode only (Coloring::Never): the branch that clears and re-draws lines is not modelled; docstrings, tables and the World dump (verbosity > 0) are not printed by the harness' features",
            "durations / timestamps are ignored; reporter CLI options other than the defaults are not varied yet",
        ],
    },
}
