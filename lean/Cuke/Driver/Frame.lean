import Cuke.Model.Wire
import Cuke.Model.TraceFrame
/-! `trace.frame <buf>`: what `CollectorWriter::write(buf)` sends and returns;
    `mon.frame <frames> <impl result>`: the framing round trip evaluated on the real reader -/
namespace Cuke.Driver
open Cuke Cuke.Wire Cuke.Frame

def showSent (r : List (Option Nat × Str) × Bool) : String :=
  showBool r.2 ++ " " ++ showList (fun (p : Option Nat × Str) => showOpt toString p.1 ++ " " ++ encodeStr (String.ofList p.2)) r.1

def sentP : P (List (Option Nat × Str) × Bool) := do
  let ok ← bool
  let l ← list (do let i ← opt nat; let t ← str; pure (i, t.toList))
  pure (l, ok)

def handleTraceFrame : Toks → Option String :=
  fun ts => runAll (do
    let buf ← str
    pure (showSent (unframe buf.toList))) ts

/-- the property on the reader: frames whose terminator occurs only at their end come back exactly;
    a loss on a frame whose TEXT contains the terminator is finding F-C20b -/
def monFrame (frames : List (Option Str × Str)) (imp : List (Option Nat × Str) × Bool) : String :=
  if !frames.all (fun f => idOk f.1) then "ok"
  else
    let want : List (Option Nat × Str) × Bool := (frames.map (fun f => (f.1.map decVal, f.2)), true)
    if imp == want then "ok"
    else if frames.all (fun f => Clean f.1 f.2) then "!monitor NEW frames whose terminator occurs only at their end did not come back as sent"
    else if frames.all (fun f => Clean f.1 f.2 || contains END f.2) then "!monitor F-C20b"
    else "!monitor NEW a frame is split early although its text does not contain the terminator"

def handleMonFrame : Toks → Option String :=
  fun ts => runAll (do
    let frames ← list (do let i ← opt str; let t ← str; pure (i.map String.toList, t.toList))
    let imp ← sentP
    pure (monFrame frames imp)) ts

end Cuke.Driver
