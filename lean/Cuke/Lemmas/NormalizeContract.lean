import Cuke.Model.Contract
import Cuke.Lemmas.NormalizeSeq
/-!
  The Runner contract (`Cuke.Contract`, a status ledger that knows nothing about the normalizer) implies
  the side conditions the C11 theorems are stated under (`Safe`, `startsRightN`) and that no `panic!` branch
  of `Normalize` is reached.

  Invariant (`Inv`): the queue mirrors the ledger — every queued entity is known to the ledger with the
  matching status (queued & unfinished ⇒ open, queued & finished ⇒ closed), and every OPEN entity of the
  ledger is queued. Emission only ever removes closed entities; insertion adds / updates exactly the entity
  the event names.
-/
namespace Cuke.NormL
open Cuke List

set_option linter.unusedSimpArgs false
set_option linter.unusedVariables false

/-! ## generic: membership after `updFirst` -/

theorem mem_updFirst {α} (p : α → Bool) (g : α → α) (l : List α) (x : α) (h : x ∈ updFirst p g l) :
    (∃ a, l.find? p = some a ∧ x = g a) ∨ (x ∈ l ∧ (p x = false ∨ x ∈ afterFirst p l)) := by
  induction l with
  | nil => simp [updFirst] at h
  | cons a rest ih =>
    by_cases hp : p a = true
    · simp only [updFirst, hp, if_true, mem_cons] at h
      rcases h with h | h
      · exact Or.inl ⟨a, by simp [find?, hp], h⟩
      · exact Or.inr ⟨by simp [h], Or.inr (by simp [afterFirst, hp, h])⟩
    · have hp' : p a = false := by simpa using hp
      simp only [updFirst, hp', Bool.false_eq_true, if_false, mem_cons] at h
      rcases h with h | h
      · subst h; exact Or.inr ⟨by simp, Or.inl hp'⟩
      · rcases ih h with ⟨b, hb, hx⟩ | ⟨hx, hx2⟩
        · exact Or.inl ⟨b, by simp [find?, hp', hb], hx⟩
        · refine Or.inr ⟨by simp [hx], ?_⟩
          rcases hx2 with h2 | h2
          · exact Or.inl h2
          · exact Or.inr (by simp [afterFirst, hp', h2])

theorem updFirst_mem_new {α} (p : α → Bool) (g : α → α) (l : List α) (a : α) (h : l.find? p = some a) :
    g a ∈ updFirst p g l := by
  induction l with
  | nil => simp at h
  | cons b rest ih =>
    by_cases hp : p b = true
    · simp only [find?, hp, Option.some.injEq] at h; subst h
      simp [updFirst, hp]
    · have hp' : p b = false := by simpa using hp
      simp only [find?, hp'] at h
      simp [updFirst, hp', ih h]

theorem updFirst_mem_old {α} (p : α → Bool) (g : α → α) (l : List α) (x : α) (hx : x ∈ l) (hp : p x = false) :
    x ∈ updFirst p g l := by
  induction l with
  | nil => simp at hx
  | cons b rest ih =>
    by_cases hb : p b = true
    · simp only [updFirst, hb, if_true, mem_cons]
      rcases mem_cons.mp hx with h | h
      · subst h; simp [hp] at hb
      · exact Or.inr h
    · have hb' : p b = false := by simpa using hb
      simp only [updFirst, hb', Bool.false_eq_true, if_false, mem_cons]
      rcases mem_cons.mp hx with h | h
      · exact Or.inl h
      · exact Or.inr (ih h)

theorem find_mem_pred {α} (p : α → Bool) (l : List α) (a : α) (h : l.find? p = some a) : a ∈ l ∧ p a = true :=
  ⟨mem_of_find?_eq_some h, find?_some h⟩

theorem any_of_mem {α} (p : α → Bool) (l : List α) (a : α) (ha : a ∈ l) (hp : p a = true) : l.any p = true :=
  any_eq_true.mpr ⟨a, ha, hp⟩

/-! ## feature level: what `updFeat` changes -/

theorem featIn_mem (n : Norm) (f : Nat) (q : FeatQ) (h : featIn n f = some q) : (f, q) ∈ n.feats := by
  simp only [featIn, Option.map_eq_some_iff] at h
  obtain ⟨⟨f', q'⟩, hfind, hq⟩ := h
  obtain ⟨hm, hp⟩ := find_mem_pred _ _ _ hfind
  have : f' = f := by simpa using hp
  subst this
  simp only at hq; subst hq
  exact hm

theorem featIn_of_mem (fs : List (Nat × FeatQ)) (fin : Fin) (f : Nat) (q : FeatQ) (hd : featsD fs = true) (hm : (f, q) ∈ fs) :
    featIn { feats := fs, fin := fin } f = some q := by
  induction fs with
  | nil => simp at hm
  | cons fq rest ih =>
    obtain ⟨f', q'⟩ := fq
    simp only [featsD, Bool.and_eq_true, Bool.not_eq_true', any_eq_false] at hd
    rcases mem_cons.mp hm with h | h
    · obtain ⟨rfl, rfl⟩ := Prod.mk.inj h
      simp [featIn, find?]
    · have hne : (f' == f) = false := by
        have := hd.1.1 (f, q) h
        simp only [beq_iff_eq] at this
        simpa using fun hc : f' = f => this hc.symm
      have := ih hd.2 h
      simp only [featIn, find?, hne] at this ⊢
      exact this

theorem featIn_none_of (n : Norm) (f : Nat) (h : ∀ q, (f, q) ∉ n.feats) : n.feats.any (fun e => e.1 == f) = false := by
  rw [any_eq_false]
  intro ⟨f', q⟩ hm hc
  have : f' = f := by simpa using hc
  subst this
  exact h q hm

/-- with distinct keys `updFeat` replaces exactly the entry of `f` -/
theorem updFeat_mem (fs fs' : List (Nat × FeatQ)) (f : Nat) (g : FeatQ → Option FeatQ) (h : updFeat fs f g = some fs')
    (hd : featsD fs = true) :
    ∃ q q', (f, q) ∈ fs ∧ g q = some q' ∧ (f, q') ∈ fs' ∧
      (∀ x, x ∈ fs' → x = (f, q') ∨ (x ∈ fs ∧ x.1 ≠ f)) ∧ (∀ x, x ∈ fs → x.1 ≠ f → x ∈ fs') := by
  induction fs generalizing fs' with
  | nil => simp [updFeat] at h
  | cons fq rest ih =>
    obtain ⟨f', q⟩ := fq
    simp only [featsD, Bool.and_eq_true, Bool.not_eq_true', any_eq_false] at hd
    by_cases hf : (f' == f) = true
    · have hf' : f' = f := by simpa using hf
      subst hf'
      simp only [updFeat, beq_self_eq_true, if_true, Option.map_eq_some_iff] at h
      obtain ⟨q', hq', rfl⟩ := h
      refine ⟨q, q', by simp, hq', by simp, ?_, ?_⟩
      · intro x hx
        rcases mem_cons.mp hx with h1 | h1
        · exact Or.inl h1
        · refine Or.inr ⟨by simp [h1], ?_⟩
          have := hd.1.1 x h1
          simpa using this
      · intro x hx hne
        rcases mem_cons.mp hx with h1 | h1
        · subst h1; exact absurd rfl hne
        · simp [h1]
    · have hf' : (f' == f) = false := by simpa using hf
      simp only [updFeat, hf', Bool.false_eq_true, if_false, Option.map_eq_some_iff] at h
      obtain ⟨r', hr', rfl⟩ := h
      obtain ⟨q0, q0', hm, hg, hm', hall, hold⟩ := ih r' hr' hd.2
      refine ⟨q0, q0', by simp [hm], hg, by simp [hm'], ?_, ?_⟩
      · intro x hx
        rcases mem_cons.mp hx with h1 | h1
        · subst h1
          exact Or.inr ⟨by simp, by simpa using hf'⟩
        · rcases hall x h1 with h2 | h2
          · exact Or.inl h2
          · exact Or.inr ⟨by simp [h2.1], h2.2⟩
      · intro x hx hne
        rcases mem_cons.mp hx with h1 | h1
        · subst h1; simp
        · simp [hold x h1 hne]

theorem updFeat_some (fs : List (Nat × FeatQ)) (f : Nat) (g : FeatQ → Option FeatQ) (q q' : FeatQ)
    (hfind : (fs.find? (fun e => e.1 == f)).map (·.2) = some q) (hg : g q = some q') :
    ∃ fs', updFeat fs f g = some fs' := by
  induction fs with
  | nil => simp at hfind
  | cons fq rest ih =>
    obtain ⟨f', q0⟩ := fq
    by_cases hf : (f' == f) = true
    · simp only [find?, hf, Option.map_some, Option.some.injEq] at hfind
      subst hfind
      simp only [updFeat, hf, if_true, hg, Option.map_some]; exact ⟨_, rfl⟩
    · have hf' : (f' == f) = false := by simpa using hf
      simp only [find?, hf'] at hfind
      obtain ⟨r, hr⟩ := ih hfind
      simp only [updFeat, hf', Bool.false_eq_true, if_false, hr, Option.map_some]; exact ⟨_, rfl⟩

/-- **T0 (one insertion)**: under `Safe` no `panic!` / `unreachable!` branch of the queue update is taken -/
theorem insert_some (n : Norm) (e : Ev) (hs : Safe n e = true) : ∃ n1, n.insert e = some n1 := by
  cases e with
  | started => exact ⟨_, rfl⟩
  | parsingFinished a b c d g => exact ⟨_, rfl⟩
  | parseErr i => exact ⟨_, rfl⟩
  | finished => exact ⟨_, rfl⟩
  | featStarted f => exact ⟨_, rfl⟩
  | featFinished f =>
    simp only [Safe] at hs
    cases hq : featIn n f with
    | none => simp [hq] at hs
    | some q =>
      obtain ⟨fs', h⟩ := updFeat_some n.feats f (fun q => some { q with fin := .pending }) q _ hq rfl
      simp only [Norm.insert, h, Option.map_some]; exact ⟨_, rfl⟩
  | ruleStarted f r =>
    simp only [Safe] at hs
    cases hq : featIn n f with
    | none => simp [hq] at hs
    | some q =>
      obtain ⟨fs', h⟩ := updFeat_some n.feats f (fun q => some (q.newRule r)) q _ hq rfl
      simp only [Norm.insert, h, Option.map_some]; exact ⟨_, rfl⟩
  | ruleFinished f r =>
    simp only [Safe] at hs
    cases hq : featIn n f with
    | none => simp [hq] at hs
    | some q =>
      simp only [hq] at hs
      cases hfind : q.items.find? (Item.isRule r) with
      | none => simp [hfind] at hs
      | some it =>
        have hany : q.items.any (Item.isRule r) = true :=
          any_of_mem _ _ it (mem_of_find?_eq_some hfind) (find?_some hfind)
        obtain ⟨fs', h⟩ := updFeat_some n.feats f (fun q => q.ruleFinished r) q { q with items := updFirst (Item.isRule r) Item.finishRule q.items } hq (by simp [FeatQ.ruleFinished, hany])
        simp only [Norm.insert, h, Option.map_some]; exact ⟨_, rfl⟩
  | scen k ret ev =>
    simp only [Safe] at hs
    cases hq : featIn n k.feat with
    | none => simp [hq] at hs
    | some q =>
      simp only [hq, safeScen, Bool.and_eq_true] at hs
      have : ∃ q', q.insertScen k.rule k.scen ret ev = some q' := by
        cases hr : k.rule with
        | none =>
          simp only [FeatQ.insertScen]
          split <;> exact ⟨_, rfl⟩
        | some r =>
          simp only [hr] at hs
          cases hfind : q.items.find? (Item.isRule r) with
          | none => simp [hfind] at hs
          | some it =>
            have hany : q.items.any (Item.isRule r) = true :=
              any_of_mem _ _ it (mem_of_find?_eq_some hfind) (find?_some hfind)
            simp only [FeatQ.insertScen, hany, if_true]; exact ⟨_, rfl⟩
      obtain ⟨q', hq'⟩ := this
      obtain ⟨fs', h⟩ := updFeat_some n.feats k.feat (fun q => q.insertScen k.rule k.scen ret ev) q _ hq hq'
      simp only [Norm.insert, h, Option.map_some]; exact ⟨_, rfl⟩

/-! ## reading the ledger's decisions -/

theorem cstep_featStarted (c c' : CSt) (f : Nat) (hfin : c.fin = false) (h : c.step (.featStarted f) = some c') :
    f ∉ c.openF ∧ f ∉ c.doneF ∧ c' = { c with openF := f :: c.openF } := by
  simp only [CSt.step] at h
  rw [if_neg (by rw [hfin]; exact Bool.false_ne_true)] at h
  split at h
  · rename_i hc
    simp only [Bool.and_eq_true, Bool.not_eq_true'] at hc
    refine ⟨by simpa using hc.1, by simpa using hc.2, ?_⟩
    simpa using h.symm
  · simp at h

theorem cstep_featFinished (c c' : CSt) (f : Nat) (hfin : c.fin = false) (h : c.step (.featFinished f) = some c') :
    f ∈ c.openF ∧ (∀ p ∈ c.openR, p.1 ≠ f) ∧ (∀ κ ∈ c.openA, κ.1.feat ≠ f) ∧
    c' = { c with openF := c.openF.filter (· != f), doneF := f :: c.doneF } := by
  simp only [CSt.step] at h
  rw [if_neg (by rw [hfin]; exact Bool.false_ne_true)] at h
  split at h
  · rename_i hc
    simp only [Bool.and_eq_true] at hc
    refine ⟨by simpa using hc.1.1, by simpa using hc.1.2, by simpa using hc.2, ?_⟩
    simpa using h.symm
  · simp at h

theorem cstep_ruleStarted (c c' : CSt) (f r : Nat) (hfin : c.fin = false) (h : c.step (.ruleStarted f r) = some c') :
    f ∈ c.openF ∧ (f, r) ∉ c.openR ∧ (f, r) ∉ c.doneR ∧ c' = { c with openR := (f, r) :: c.openR } := by
  simp only [CSt.step] at h
  rw [if_neg (by rw [hfin]; exact Bool.false_ne_true)] at h
  split at h
  · rename_i hc
    simp only [Bool.and_eq_true, Bool.not_eq_true'] at hc
    refine ⟨by simpa using hc.1.1, ?_, ?_, by simpa using h.symm⟩
    · simpa using hc.1.2
    · simpa using hc.2
  · simp at h

theorem cstep_ruleFinished (c c' : CSt) (f r : Nat) (hfin : c.fin = false) (h : c.step (.ruleFinished f r) = some c') :
    f ∈ c.openF ∧ (f, r) ∈ c.openR ∧ (∀ κ ∈ c.openA, κ.1.feat = f → κ.1.rule ≠ some r) ∧
    c' = { c with openR := c.openR.filter (· != (f, r)), doneR := (f, r) :: c.doneR } := by
  simp only [CSt.step] at h
  rw [if_neg (by rw [hfin]; exact Bool.false_ne_true)] at h
  split at h
  · rename_i hc
    simp only [Bool.and_eq_true] at hc
    refine ⟨by simpa using hc.1.1, by simpa using hc.1.2, ?_, by simpa using h.symm⟩
    intro κ hκ
    have := all_eq_true.mp hc.2 κ hκ
    intro h1 h2
    simp [h1, h2] at this
  · simp at h

/-- what the ledger demands of a scenario event, and how it moves -/
theorem cstep_scen (c c' : CSt) (k : ScenKey) (ret : Option Retries) (ev : ScenEv) (hfin : c.fin = false)
    (h : c.step (.scen k ret ev) = some c') :
    k.feat ∈ c.openF ∧ (∀ r, k.rule = some r → (k.feat, r) ∈ c.openR) ∧ (k, ret) ∉ c.doneA ∧
    ((ev = .started ∧ (k, ret) ∉ c.openA ∧ c' = { c with openA := (k, ret) :: c.openA }) ∨
     (ev ≠ .started ∧ (k, ret) ∈ c.openA ∧
       ((ev = .finished ∧ c' = { c with openA := c.openA.filter (· != (k, ret)), doneA := (k, ret) :: c.doneA }) ∨
        (ev ≠ .finished ∧ c' = c)))) := by
  simp only [CSt.step] at h
  rw [if_neg (by rw [hfin]; exact Bool.false_ne_true)] at h
  split at h
  · rename_i hc
    simp only [Bool.and_eq_true, Bool.not_eq_true'] at hc
    refine ⟨by simpa using hc.1.1, ?_, ?_, ?_⟩
    · intro r hr
      have := hc.1.2
      simp only [ruleOpenOk, hr] at this
      simpa using this
    · simpa using hc.2
    · by_cases hst : ev = .started
      · subst hst
        simp only [beq_self_eq_true, if_true] at h
        split at h
        · rename_i ho
          refine Or.inl ⟨rfl, ?_, by simpa using h.symm⟩
          simpa using ho
        · simp at h
      · have hst' : (ev == ScenEv.started) = false := by simpa using hst
        simp only [hst', Bool.false_eq_true, if_false] at h
        split at h
        · rename_i ho
          refine Or.inr ⟨hst, by simpa using ho, ?_⟩
          by_cases hf : ev = .finished
          · subst hf
            simp only [beq_self_eq_true, if_true] at h
            exact Or.inl ⟨rfl, by simpa using h.symm⟩
          · have hf' : (ev == ScenEv.finished) = false := by simpa using hf
            simp only [hf', Bool.false_eq_true, if_false] at h
            exact Or.inr ⟨hf, by simpa using h.symm⟩
        · simp at h
  · simp at h

theorem cstep_finished (c c' : CSt) (hfin : c.fin = false) (h : c.step .finished = some c') :
    c.openF = [] ∧ c' = { c with fin := true } := by
  simp only [CSt.step] at h
  rw [if_neg (by rw [hfin]; exact Bool.false_ne_true)] at h
  split at h
  · rename_i hc
    exact ⟨by simpa using hc, by simpa using h.symm⟩
  · simp at h

/-! ## the queue mirrors the ledger -/

def AttRel (c : CSt) (f : Nat) (r : Option Nat) (a : AttQ) : Prop :=
  (attComplete a = false → attKey f r a ∈ c.openA) ∧ (attComplete a = true → attKey f r a ∈ c.doneA)

def ItemRel (c : CSt) (f : Nat) : Item → Prop
  | .att a => AttRel c f none a
  | .rule r q => q.fin ≠ .emitted ∧ (q.fin = .no → (f, r) ∈ c.openR) ∧ (q.fin = .pending → (f, r) ∈ c.doneR) ∧
      ∀ a ∈ q.atts, AttRel c f (some r) a

def FeatRel (c : CSt) (fq : Nat × FeatQ) : Prop :=
  fq.2.fin ≠ .emitted ∧ (fq.2.fin = .no → fq.1 ∈ c.openF) ∧ (fq.2.fin = .pending → fq.1 ∈ c.doneF) ∧
  ∀ it ∈ fq.2.items, ItemRel c fq.1 it

/-- open and closed are disjoint in the ledger -/
structure CWf (c : CSt) : Prop where
  dF : ∀ f, f ∈ c.openF → f ∉ c.doneF
  dR : ∀ p, p ∈ c.openR → p ∉ c.doneR
  dA : ∀ κ, κ ∈ c.openA → κ ∉ c.doneA
  rF : ∀ p, p ∈ c.openR → p.1 ∈ c.openF
  aF : ∀ κ, κ ∈ c.openA → κ.1.feat ∈ c.openF
  aR : ∀ κ, κ ∈ c.openA → ∀ r, κ.1.rule = some r → (κ.1.feat, r) ∈ c.openR

/-- the attempts queued at position `(feature, rule?)` of a feature queue -/
def attAt (q : FeatQ) (ro : Option Nat) (a : AttQ) : Prop :=
  match ro with
  | none => Item.att a ∈ q.items
  | some r => ∃ rq, Item.rule r rq ∈ q.items ∧ a ∈ rq.atts

structure Inv (c : CSt) (fs : List (Nat × FeatQ)) : Prop where
  rel : ∀ fq ∈ fs, FeatRel c fq
  pF : ∀ f ∈ c.openF, ∃ q, (f, q) ∈ fs
  pR : ∀ f q, (f, q) ∈ fs → ∀ r, (f, r) ∈ c.openR → ∃ rq, Item.rule r rq ∈ q.items
  pA : ∀ f q, (f, q) ∈ fs → ∀ k ret, (k, ret) ∈ c.openA → k.feat = f →
        ∃ a, attAt q k.rule a ∧ a.scen = k.scen ∧ a.ret = ret

theorem rule_unique (items : List Item) (hd : itemsD items = true) (r : Nat) (rq rq2 : RuleQ)
    (h1 : Item.rule r rq ∈ items) (h2 : Item.rule r rq2 ∈ items) : rq = rq2 := by
  induction items with
  | nil => simp at h1
  | cons b rest ih =>
    cases b with
    | att a =>
      simp only [itemsD, Bool.and_eq_true] at hd
      simp only [mem_cons, reduceCtorEq, false_or] at h1 h2
      exact ih hd.2 h1 h2
    | rule r0 q0 =>
      simp only [itemsD, Bool.and_eq_true, Bool.not_eq_true', any_eq_false] at hd
      simp only [mem_cons, Item.rule.injEq] at h1 h2
      rcases h1 with ⟨rfl, rfl⟩ | h1
      · rcases h2 with ⟨_, rfl⟩ | h2
        · rfl
        · exact absurd (by simp [Item.isRule]) (hd.1.1 _ h2)
      · rcases h2 with ⟨rfl, rfl⟩ | h2
        · exact absurd (by simp [Item.isRule]) (hd.1.1 _ h1)
        · exact ih hd.2 h1 h2

theorem feat_items_D (fs : List (Nat × FeatQ)) (hd : featsD fs = true) (f : Nat) (q : FeatQ) (hm : (f, q) ∈ fs) :
    itemsD q.items = true := by
  induction fs with
  | nil => simp at hm
  | cons fq rest ih =>
    obtain ⟨f', q'⟩ := fq
    simp only [featsD, Bool.and_eq_true] at hd
    rcases mem_cons.mp hm with h | h
    · obtain ⟨rfl, rfl⟩ := Prod.mk.inj h
      exact hd.1.2
    · exact ih hd.2 h

theorem fin_cases (x : Fin) : x = .no ∨ x = .pending ∨ x = .emitted := by cases x <;> simp

/-- an open feature is queued with `fin = no` (and is the one `featIn` finds) -/
theorem open_feat (c : CSt) (n : Norm) (hwf : CWf c) (hinv : Inv c n.feats) (hd : NormD n) (f : Nat) (hf : f ∈ c.openF) :
    ∃ q, featIn n f = some q ∧ (f, q) ∈ n.feats ∧ q.fin = .no := by
  obtain ⟨q, hq⟩ := hinv.pF f hf
  refine ⟨q, featIn_of_mem n.feats n.fin f q hd hq, hq, ?_⟩
  obtain ⟨h1, _, h3, _⟩ := hinv.rel _ hq
  rcases fin_cases q.fin with h | h | h
  · exact h
  · exact absurd (h3 h) (hwf.dF f hf)
  · exact absurd h h1

theorem key_eq (k : ScenKey) (r : Option Nat) (a : AttQ) (ret : Option Retries) (hr : k.rule = r) (hs : a.scen = k.scen)
    (hret : a.ret = ret) : attKey k.feat r a = (k, ret) := by
  cases k; simp_all [attKey]

theorem attRel_known (c : CSt) (f : Nat) (r : Option Nat) (a : AttQ) (h : AttRel c f r a) :
    attKey f r a ∈ c.openA ∨ attKey f r a ∈ c.doneA := by
  cases hc : attComplete a
  · exact Or.inl (h.1 hc)
  · exact Or.inr (h.2 hc)

/-- an open rule is queued in its (open) feature with `fin = no`, and is the one `find?` finds -/
theorem open_rule (c : CSt) (hwf : CWf c) (f : Nat) (q : FeatQ) (hrel : FeatRel c (f, q))
    (r : Nat) (hr : (f, r) ∈ c.openR) (hex : ∃ rq, Item.rule r rq ∈ q.items) :
    ∃ rq, q.items.find? (Item.isRule r) = some (.rule r rq) ∧ Item.rule r rq ∈ q.items ∧ rq.fin = .no ∧
      ∀ a ∈ rq.atts, AttRel c f (some r) a := by
  obtain ⟨rq0, hrq0⟩ := hex
  have hany : q.items.any (Item.isRule r) = true := any_of_mem _ _ _ hrq0 (by simp [Item.isRule])
  obtain ⟨it, hit, hp⟩ := find_some_of_any _ _ hany
  obtain ⟨rq, rfl⟩ := isRule_cases r it hp
  have hm := mem_of_find?_eq_some hit
  obtain ⟨h1, _, h3, h4⟩ := hrel.2.2.2 _ hm
  refine ⟨rq, hit, hm, ?_, h4⟩
  rcases fin_cases rq.fin with h | h | h
  · exact h
  · exact absurd (h3 h) (hwf.dR _ hr)
  · exact absurd h h1

/-- **The contract implies the side conditions** of the C11 theorems, one event at a time. -/
theorem contract_safe (c c' : CSt) (n : Norm) (e : Ev) (hwf : CWf c) (hinv : Inv c n.feats) (hd : NormD n)
    (hfin : c.fin = false) (h : c.step e = some c') :
    Safe n e = true ∧ startsRightN n e = true ∧
    (e = .finished → n.feats.all (fun fq => fq.2.fin == .pending) = true) := by
  cases e with
  | started => simp [Safe, startsRightN]
  | parsingFinished a b c d g => simp [Safe, startsRightN]
  | parseErr i => simp [Safe, startsRightN]
  | finished =>
    refine ⟨by simp [Safe], by simp [startsRightN], fun _ => ?_⟩
    obtain ⟨hopen, _⟩ := cstep_finished c c' hfin h
    rw [all_eq_true]
    intro fq hfq
    obtain ⟨h1, h2, _, _⟩ := hinv.rel fq hfq
    rcases fin_cases fq.2.fin with hh | hh | hh
    · have := h2 hh; rw [hopen] at this; simp at this
    · simp [hh]
    · exact absurd hh h1
  | featStarted f =>
    obtain ⟨ho, hdn, _⟩ := cstep_featStarted c c' f hfin h
    refine ⟨?_, by simp [startsRightN], fun hh => by cases hh⟩
    simp only [Safe, Bool.not_eq_true']
    apply featIn_none_of
    intro q hq
    obtain ⟨h1, h2, h3, _⟩ := hinv.rel _ hq
    rcases fin_cases q.fin with hh | hh | hh
    · exact ho (h2 hh)
    · exact hdn (h3 hh)
    · exact h1 hh
  | featFinished f =>
    obtain ⟨ho, hnoR, hnoA, _⟩ := cstep_featFinished c c' f hfin h
    obtain ⟨q, hq, hm, hqfin⟩ := open_feat c n hwf hinv hd f ho
    refine ⟨?_, by simp [startsRightN], fun hh => by cases hh⟩
    simp only [Safe, hq, hqfin, beq_self_eq_true, Bool.true_and]
    rw [all_eq_true]
    intro it hit
    have hrel := (hinv.rel _ hm).2.2.2 it hit
    cases it with
    | att a =>
      simp only [itemComplete]
      cases hc : attComplete a with
      | true => rfl
      | false => exact absurd rfl (hnoA _ (hrel.1 hc))
    | rule r rq =>
      simp only [itemComplete]
      obtain ⟨h1, h2, _, _⟩ := hrel
      rcases fin_cases rq.fin with hh | hh | hh
      · exact absurd rfl (hnoR _ (h2 hh))
      · simp [hh]
      · exact absurd hh h1
  | ruleStarted f r =>
    obtain ⟨ho, hnoO, hnoD, _⟩ := cstep_ruleStarted c c' f r hfin h
    obtain ⟨q, hq, hm, hqfin⟩ := open_feat c n hwf hinv hd f ho
    refine ⟨?_, by simp [startsRightN], fun hh => by cases hh⟩
    simp only [Safe, hq, hqfin, beq_self_eq_true, Bool.true_and, Bool.not_eq_true']
    rw [any_eq_false]
    intro it hit hp
    obtain ⟨rq, rfl⟩ := isRule_cases r it hp
    obtain ⟨h1, h2, h3, _⟩ := (hinv.rel _ hm).2.2.2 _ hit
    rcases fin_cases rq.fin with hh | hh | hh
    · exact hnoO (h2 hh)
    · exact hnoD (h3 hh)
    · exact h1 hh
  | ruleFinished f r =>
    obtain ⟨ho, hr, hnoA, _⟩ := cstep_ruleFinished c c' f r hfin h
    obtain ⟨q, hq, hm, hqfin⟩ := open_feat c n hwf hinv hd f ho
    obtain ⟨rq, hfind, _, hrfin, hatts⟩ := open_rule c hwf f q (hinv.rel _ hm) r hr (hinv.pR f q hm r hr)
    refine ⟨?_, by simp [startsRightN], fun hh => by cases hh⟩
    simp only [Safe, hq, hfind, hrfin, beq_self_eq_true, Bool.true_and]
    rw [all_eq_true]
    intro a ha
    cases hc : attComplete a with
    | true => rfl
    | false => exact absurd rfl (hnoA _ ((hatts a ha).1 hc) rfl)
  | scen k ret ev =>
    obtain ⟨ho, hrule, hnd, hev⟩ := cstep_scen c c' k ret ev hfin h
    obtain ⟨q, hq, hm, hqfin⟩ := open_feat c n hwf hinv hd k.feat ho
    have hrel := hinv.rel _ hm
    have hpA := hinv.pA k.feat q hm k ret
    refine ⟨?_, ?_, fun hh => by cases hh⟩
    · simp only [Safe, hq, safeScen, hqfin, beq_self_eq_true, Bool.true_and]
      cases hr : k.rule with
      | some r =>
        obtain ⟨rq, hfind, _, hrfin, hatts⟩ :=
          open_rule c hwf k.feat q hrel r (hrule r hr) (hinv.pR _ q hm r (hrule r hr))
        simp only [hfind, hrfin, beq_self_eq_true, Bool.true_and, safeAtt]
        cases hfa : rq.atts.find? (AttQ.is k.scen ret) with
        | none => rfl
        | some a =>
          obtain ⟨ham, hap⟩ := find_mem_pred _ _ _ hfa
          obtain ⟨hs1, hs2⟩ := is_key _ _ _ hap
          simp only [Bool.not_eq_true']
          cases hc : attComplete a with
          | false => rfl
          | true =>
            have := (hatts a ham).2 hc
            rw [key_eq k (some r) a ret hr hs1 hs2] at this
            exact absurd this hnd
      | none =>
        simp only []
        cases hfa : q.items.find? (Item.isAtt k.scen ret) with
        | none => rfl
        | some it =>
          obtain ⟨ham, hap⟩ := find_mem_pred _ _ _ hfa
          obtain ⟨a, rfl, hs1, hs2⟩ := isAtt_cases _ _ it hap
          simp only [Bool.not_eq_true']
          cases hc : attComplete a with
          | false => rfl
          | true =>
            have := (hrel.2.2.2 _ ham).2 hc
            rw [key_eq k none a ret hr hs1 hs2] at this
            exact absurd this hnd
    · simp only [startsRightN, hq, startsRightF]
      have hkey : ∀ (ro : Option Nat) (a : AttQ), k.rule = ro → a.scen = k.scen → a.ret = ret → AttRel c k.feat ro a →
          (k, ret) ∈ c.openA ∨ (k, ret) ∈ c.doneA := by
        intro ro a h1 h2 h3 h4
        have := attRel_known c k.feat ro a h4
        rwa [key_eq k ro a ret h1 h2 h3] at this
      cases hr : k.rule with
      | some r =>
        obtain ⟨rq, hfind, hrm, hrfin, hatts⟩ :=
          open_rule c hwf k.feat q hrel r (hrule r hr) (hinv.pR _ q hm r (hrule r hr))
        simp only [hfind, startsRight]
        rcases hev with ⟨hst, hno, _⟩ | ⟨hst, hopen, _⟩
        · have : rq.atts.any (AttQ.is k.scen ret) = false := by
            rw [any_eq_false]
            intro a ha hp
            obtain ⟨hs1, hs2⟩ := is_key _ _ _ hp
            rcases hkey (some r) a hr hs1 hs2 (hatts a ha) with h1 | h1
            · exact hno h1
            · exact hnd h1
          simp [this, hst]
        · obtain ⟨a, hat, hs1, hs2⟩ := hpA hopen rfl
          rw [hr] at hat
          obtain ⟨rq2, hrq2, ha⟩ := hat
          have := rule_unique q.items (feat_items_D n.feats hd k.feat q hm) r rq rq2 hrm hrq2
          subst this
          have : rq.atts.any (AttQ.is k.scen ret) = true := any_of_mem _ _ a ha (by simp [AttQ.is, hs1, hs2])
          have hst' : (ev == ScenEv.started) = false := by simpa using hst
          simp [this, hst']
      | none =>
        simp only []
        rcases hev with ⟨hst, hno, _⟩ | ⟨hst, hopen, _⟩
        · have : q.items.any (Item.isAtt k.scen ret) = false := by
            rw [any_eq_false]
            intro it hit hp
            obtain ⟨a, rfl, hs1, hs2⟩ := isAtt_cases _ _ it hp
            rcases hkey none a hr hs1 hs2 (hrel.2.2.2 _ hit) with h1 | h1
            · exact hno h1
            · exact hnd h1
          simp [this, hst]
        · obtain ⟨a, ha, hs1, hs2⟩ := hpA hopen rfl
          rw [hr] at ha
          have : q.items.any (Item.isAtt k.scen ret) = true := any_of_mem _ _ _ ha (by simp [Item.isAtt, hs1, hs2])
          have hst' : (ev == ScenEv.started) = false := by simpa using hst
          simp [this, hst']

/-! ## the relation in flat form -/

def RuleRel (c : CSt) (f r : Nat) (fin : Fin) : Prop :=
  fin ≠ .emitted ∧ (fin = .no → (f, r) ∈ c.openR) ∧ (fin = .pending → (f, r) ∈ c.doneR)

theorem featRel_flat (c : CSt) (f : Nat) (q : FeatQ) : FeatRel c (f, q) ↔
    (q.fin ≠ .emitted ∧ (q.fin = .no → f ∈ c.openF) ∧ (q.fin = .pending → f ∈ c.doneF) ∧
     (∀ r rq, Item.rule r rq ∈ q.items → RuleRel c f r rq.fin) ∧
     (∀ ro a, attAt q ro a → AttRel c f ro a)) := by
  constructor
  · rintro ⟨h1, h2, h3, h4⟩
    refine ⟨h1, h2, h3, ?_, ?_⟩
    · intro r rq hm
      obtain ⟨a1, a2, a3, _⟩ := h4 _ hm
      exact ⟨a1, a2, a3⟩
    · intro ro a hat
      cases ro with
      | none => exact h4 _ hat
      | some r =>
        obtain ⟨rq, hrq, ha⟩ := hat
        exact (h4 _ hrq).2.2.2 a ha
  · rintro ⟨h1, h2, h3, h4, h5⟩
    refine ⟨h1, h2, h3, ?_⟩
    intro it hit
    cases it with
    | att a => exact h5 none a hit
    | rule r rq =>
      obtain ⟨a1, a2, a3⟩ := h4 r rq hit
      exact ⟨a1, a2, a3, fun a ha => h5 (some r) a ⟨rq, hit, ha⟩⟩

theorem attRel_mono (c c' : CSt) (f : Nat) (ro : Option Nat) (a : AttQ) (h : AttRel c f ro a)
    (ho : attKey f ro a ∈ c.openA → attKey f ro a ∈ c'.openA) (hd : attKey f ro a ∈ c.doneA → attKey f ro a ∈ c'.doneA) :
    AttRel c' f ro a := ⟨fun hc => ho (h.1 hc), fun hc => hd (h.2 hc)⟩

theorem ruleRel_mono (c c' : CSt) (f r : Nat) (fin : Fin) (h : RuleRel c f r fin)
    (ho : (f, r) ∈ c.openR → (f, r) ∈ c'.openR) (hd : (f, r) ∈ c.doneR → (f, r) ∈ c'.doneR) :
    RuleRel c' f r fin := ⟨h.1, fun hc => ho (h.2.1 hc), fun hc => hd (h.2.2 hc)⟩

/-- a feature entry stays related when the ledger keeps what it knows about that feature's entities -/
theorem featRel_mono (c c' : CSt) (f : Nat) (q : FeatQ) (h : FeatRel c (f, q))
    (hoF : f ∈ c.openF → f ∈ c'.openF) (hdF : f ∈ c.doneF → f ∈ c'.doneF)
    (hoR : ∀ r, (f, r) ∈ c.openR → (f, r) ∈ c'.openR) (hdR : ∀ r, (f, r) ∈ c.doneR → (f, r) ∈ c'.doneR)
    (hoA : ∀ κ : AttKey, κ.1.feat = f → κ ∈ c.openA → κ ∈ c'.openA) (hdA : ∀ κ : AttKey, κ.1.feat = f → κ ∈ c.doneA → κ ∈ c'.doneA) :
    FeatRel c' (f, q) := by
  rw [featRel_flat] at h ⊢
  obtain ⟨h1, h2, h3, h4, h5⟩ := h
  exact ⟨h1, fun hh => hoF (h2 hh), fun hh => hdF (h3 hh),
    fun r rq hm => ruleRel_mono c c' f r _ (h4 r rq hm) (hoR r) (hdR r),
    fun ro a hat => attRel_mono c c' f ro a (h5 ro a hat) (hoA _ rfl) (hdA _ rfl)⟩

/-! ## the ledger's own well-formedness is kept -/

theorem cwf_step (c c' : CSt) (e : Ev) (hwf : CWf c) (h : c.step e = some c') : CWf c' := by
  by_cases hfin : c.fin = true
  · simp only [CSt.step, hfin, if_true, Option.some.injEq] at h
    subst h; exact hwf
  · have hfin' : c.fin = false := by simp [hfin]
    cases e with
    | started => simp only [CSt.step, hfin', Bool.false_eq_true, if_false, Option.some.injEq] at h; subst h; exact hwf
    | parsingFinished a b c d g => simp only [CSt.step, hfin', Bool.false_eq_true, if_false, Option.some.injEq] at h; subst h; exact hwf
    | parseErr i => simp only [CSt.step, hfin', Bool.false_eq_true, if_false, Option.some.injEq] at h; subst h; exact hwf
    | finished =>
      obtain ⟨_, rfl⟩ := cstep_finished c c' hfin' h
      exact ⟨hwf.dF, hwf.dR, hwf.dA, hwf.rF, hwf.aF, hwf.aR⟩
    | featStarted f =>
      obtain ⟨ho, hd, rfl⟩ := cstep_featStarted c c' f hfin' h
      refine ⟨?_, hwf.dR, hwf.dA, ?_, ?_, hwf.aR⟩
      · intro x hx
        rcases mem_cons.mp hx with rfl | hx
        · exact hd
        · exact hwf.dF x hx
      · intro p hp; exact mem_cons_of_mem _ (hwf.rF p hp)
      · intro κ hκ; exact mem_cons_of_mem _ (hwf.aF κ hκ)
    | featFinished f =>
      obtain ⟨ho, hnoR, hnoA, rfl⟩ := cstep_featFinished c c' f hfin' h
      refine ⟨?_, hwf.dR, hwf.dA, ?_, ?_, hwf.aR⟩
      · intro x hx
        simp only [mem_filter, bne_iff_ne, ne_eq] at hx
        intro hc
        rcases mem_cons.mp hc with rfl | hc
        · exact hx.2 rfl
        · exact hwf.dF x hx.1 hc
      · intro p hp
        simp only [mem_filter, bne_iff_ne, ne_eq]
        exact ⟨hwf.rF p hp, hnoR p hp⟩
      · intro κ hκ
        simp only [mem_filter, bne_iff_ne, ne_eq]
        exact ⟨hwf.aF κ hκ, hnoA κ hκ⟩
    | ruleStarted f r =>
      obtain ⟨ho, hnoO, hnoD, rfl⟩ := cstep_ruleStarted c c' f r hfin' h
      refine ⟨hwf.dF, ?_, hwf.dA, ?_, hwf.aF, ?_⟩
      · intro p hp
        rcases mem_cons.mp hp with rfl | hp
        · exact hnoD
        · exact hwf.dR p hp
      · intro p hp
        rcases mem_cons.mp hp with rfl | hp
        · exact ho
        · exact hwf.rF p hp
      · intro κ hκ r' hr'; exact mem_cons_of_mem _ (hwf.aR κ hκ r' hr')
    | ruleFinished f r =>
      obtain ⟨ho, hr, hnoA, rfl⟩ := cstep_ruleFinished c c' f r hfin' h
      refine ⟨hwf.dF, ?_, hwf.dA, ?_, hwf.aF, ?_⟩
      · intro p hp
        simp only [mem_filter, bne_iff_ne, ne_eq] at hp
        intro hc
        rcases mem_cons.mp hc with rfl | hc
        · exact hp.2 rfl
        · exact hwf.dR p hp.1 hc
      · intro p hp
        simp only [mem_filter] at hp
        exact hwf.rF p hp.1
      · intro κ hκ r' hr'
        simp only [mem_filter, bne_iff_ne, ne_eq]
        refine ⟨hwf.aR κ hκ r' hr', ?_⟩
        intro hc
        obtain ⟨h1, h2⟩ := Prod.mk.inj hc
        subst h2
        exact hnoA κ hκ h1 hr'
    | scen k ret ev =>
      obtain ⟨ho, hrule, hnd, hev⟩ := cstep_scen c c' k ret ev hfin' h
      rcases hev with ⟨_, hno, rfl⟩ | ⟨_, hopen, ⟨_, rfl⟩ | ⟨_, rfl⟩⟩
      · refine ⟨hwf.dF, hwf.dR, ?_, hwf.rF, ?_, ?_⟩
        · intro κ hκ
          rcases mem_cons.mp hκ with rfl | hκ
          · exact hnd
          · exact hwf.dA κ hκ
        · intro κ hκ
          rcases mem_cons.mp hκ with rfl | hκ
          · exact ho
          · exact hwf.aF κ hκ
        · intro κ hκ r' hr'
          rcases mem_cons.mp hκ with rfl | hκ
          · exact hrule r' hr'
          · exact hwf.aR κ hκ r' hr'
      · refine ⟨hwf.dF, hwf.dR, ?_, hwf.rF, ?_, ?_⟩
        · intro κ hκ
          simp only [mem_filter, bne_iff_ne, ne_eq] at hκ
          intro hc
          rcases mem_cons.mp hc with rfl | hc
          · exact hκ.2 rfl
          · exact hwf.dA κ hκ.1 hc
        · intro κ hκ
          simp only [mem_filter] at hκ
          exact hwf.aF κ hκ.1
        · intro κ hκ r' hr'
          simp only [mem_filter] at hκ
          exact hwf.aR κ hκ.1 r' hr'
      · exact hwf

theorem cstep_fin (c c' : CSt) (e : Ev) (hfin : c.fin = false) (h : c.step e = some c') :
    (c'.fin = true ↔ e = .finished) := by
  cases e with
  | started => simp only [CSt.step, hfin, Bool.false_eq_true, if_false, Option.some.injEq] at h; subst h; simp [hfin]
  | parsingFinished a b c d g => simp only [CSt.step, hfin, Bool.false_eq_true, if_false, Option.some.injEq] at h; subst h; simp [hfin]
  | parseErr i => simp only [CSt.step, hfin, Bool.false_eq_true, if_false, Option.some.injEq] at h; subst h; simp [hfin]
  | finished => obtain ⟨_, rfl⟩ := cstep_finished c c' hfin h; simp
  | featStarted f => obtain ⟨_, _, rfl⟩ := cstep_featStarted c c' f hfin h; simp [hfin]
  | featFinished f => obtain ⟨_, _, _, rfl⟩ := cstep_featFinished c c' f hfin h; simp [hfin]
  | ruleStarted f r => obtain ⟨_, _, _, rfl⟩ := cstep_ruleStarted c c' f r hfin h; simp [hfin]
  | ruleFinished f r => obtain ⟨_, _, _, rfl⟩ := cstep_ruleFinished c c' f r hfin h; simp [hfin]
  | scen k ret ev =>
    obtain ⟨_, _, _, hev⟩ := cstep_scen c c' k ret ev hfin h
    rcases hev with ⟨_, _, rfl⟩ | ⟨_, _, ⟨_, rfl⟩ | ⟨_, rfl⟩⟩ <;> simp [hfin]

/-! ## insertion keeps the mirror -/

theorem inv_featStarted (c c' : CSt) (n n1 : Norm) (f : Nat) (hwf : CWf c) (hinv : Inv c n.feats) (hd : NormD n)
    (hfin : c.fin = false) (hstep : c.step (.featStarted f) = some c') (hi : n.insert (.featStarted f) = some n1) :
    Inv c' n1.feats := by
  have hsafe := (contract_safe c c' n _ hwf hinv hd hfin hstep).1
  obtain ⟨ho, hdn, rfl⟩ := cstep_featStarted c c' f hfin hstep
  simp only [Safe, Bool.not_eq_true'] at hsafe
  simp only [Norm.insert, Option.some.injEq] at hi
  subst hi
  simp only [filter_none (fun (e : Nat × FeatQ) => e.1 == f) n.feats hsafe]
  refine ⟨?_, ?_, ?_, ?_⟩
  · intro fq hfq
    rcases mem_append.mp hfq with h | h
    · obtain ⟨f0, q0⟩ := fq
      exact featRel_mono c _ f0 q0 (hinv.rel _ h) (fun hh => mem_cons_of_mem _ hh) id (fun _ => id) (fun _ => id)
        (fun _ _ => id) (fun _ _ => id)
    · simp only [mem_singleton] at h
      subst h
      exact ⟨by simp [FeatQ.new], fun _ => by simp, by simp [FeatQ.new], by simp [FeatQ.new]⟩
  · intro f' hf'
    rcases mem_cons.mp hf' with rfl | hf'
    · exact ⟨FeatQ.new, by simp⟩
    · obtain ⟨q, hq⟩ := hinv.pF f' hf'
      exact ⟨q, mem_append_left _ hq⟩
  · intro f0 q0 hm r hr
    rcases mem_append.mp hm with h | h
    · exact hinv.pR f0 q0 h r hr
    · simp only [mem_singleton, Prod.mk.injEq] at h
      obtain ⟨rfl, rfl⟩ := h
      exact absurd (hwf.rF _ hr) ho
  · intro f0 q0 hm k ret hk hkf
    rcases mem_append.mp hm with h | h
    · exact hinv.pA f0 q0 h k ret hk hkf
    · simp only [mem_singleton, Prod.mk.injEq] at h
      obtain ⟨rfl, rfl⟩ := h
      have := hwf.aF _ hk
      rw [hkf] at this
      exact absurd this ho

theorem inv_featFinished (c c' : CSt) (n n1 : Norm) (f : Nat) (hwf : CWf c) (hinv : Inv c n.feats) (hd : NormD n)
    (hfin : c.fin = false) (hstep : c.step (.featFinished f) = some c') (hi : n.insert (.featFinished f) = some n1) :
    Inv c' n1.feats := by
  obtain ⟨ho, hnoR, hnoA, rfl⟩ := cstep_featFinished c c' f hfin hstep
  simp only [Norm.insert, Option.map_eq_some_iff] at hi
  obtain ⟨fs', hu, rfl⟩ := hi
  obtain ⟨q, q', hm, hg, hm', hall, hold⟩ := updFeat_mem n.feats fs' f _ hu hd
  simp only [Option.some.injEq] at hg
  subst hg
  have hrelq := (featRel_flat c f q).mp (hinv.rel _ hm)
  refine ⟨?_, ?_, ?_, ?_⟩
  · intro fq hfq
    rcases hall fq hfq with rfl | ⟨h1, h2⟩
    · rw [featRel_flat]
      exact ⟨by simp, by simp, fun _ => by simp, hrelq.2.2.2.1, hrelq.2.2.2.2⟩
    · obtain ⟨f0, q0⟩ := fq
      refine featRel_mono c _ f0 q0 (hinv.rel _ h1) ?_ (fun hh => mem_cons_of_mem _ hh) (fun _ => id) (fun _ => id)
        (fun _ _ => id) (fun _ _ => id)
      intro hh
      simp only [mem_filter, bne_iff_ne, ne_eq]
      exact ⟨hh, h2⟩
  · intro f' hf'
    simp only [mem_filter, bne_iff_ne, ne_eq] at hf'
    obtain ⟨q0, hq0⟩ := hinv.pF f' hf'.1
    exact ⟨q0, hold _ hq0 hf'.2⟩
  · intro f0 q0 hm0 r hr
    rcases hall _ hm0 with h | ⟨h1, _⟩
    · obtain ⟨rfl, rfl⟩ := Prod.mk.inj h
      exact hinv.pR _ q hm r hr
    · exact hinv.pR f0 q0 h1 r hr
  · intro f0 q0 hm0 k ret hk hkf
    rcases hall _ hm0 with h | ⟨h1, _⟩
    · obtain ⟨rfl, rfl⟩ := Prod.mk.inj h
      exact hinv.pA _ q hm k ret hk hkf
    · exact hinv.pA f0 q0 h1 k ret hk hkf

theorem attAt_mono_items (q q' : FeatQ) (h : ∀ it ∈ q.items, it ∈ q'.items) (ro : Option Nat) (a : AttQ)
    (hat : attAt q ro a) : attAt q' ro a := by
  cases ro with
  | none => exact h _ hat
  | some r =>
    obtain ⟨rq, hrq, ha⟩ := hat
    exact ⟨rq, h _ hrq, ha⟩

theorem inv_ruleStarted (c c' : CSt) (n n1 : Norm) (f r : Nat) (hwf : CWf c) (hinv : Inv c n.feats) (hd : NormD n)
    (hfin : c.fin = false) (hstep : c.step (.ruleStarted f r) = some c') (hi : n.insert (.ruleStarted f r) = some n1) :
    Inv c' n1.feats := by
  have hsafe := (contract_safe c c' n _ hwf hinv hd hfin hstep).1
  obtain ⟨ho, hnoO, hnoD, rfl⟩ := cstep_ruleStarted c c' f r hfin hstep
  simp only [Norm.insert, Option.map_eq_some_iff] at hi
  obtain ⟨fs', hu, rfl⟩ := hi
  obtain ⟨q, q', hm, hg, hm', hall, hold⟩ := updFeat_mem n.feats fs' f _ hu hd
  simp only [Option.some.injEq] at hg
  have hq := featIn_of_mem n.feats n.fin f q hd hm
  simp only [Safe, hq, Bool.and_eq_true, Bool.not_eq_true'] at hsafe
  have hitems : q'.items = q.items ++ [.rule r RuleQ.new] := by
    rw [← hg]
    simp only [FeatQ.newRule]
    rw [filter_none (Item.isRule r) q.items hsafe.2]
  have hqfin : q'.fin = q.fin := by rw [← hg]; rfl
  have hsub : ∀ it ∈ q.items, it ∈ q'.items := fun it hit => by rw [hitems]; exact mem_append_left _ hit
  have hrelq := (featRel_flat c f q).mp (hinv.rel _ hm)
  refine ⟨?_, ?_, ?_, ?_⟩
  · intro fq hfq
    rcases hall fq hfq with rfl | ⟨h1, h2⟩
    · rw [featRel_flat, hqfin]
      refine ⟨hrelq.1, hrelq.2.1, hrelq.2.2.1, ?_, ?_⟩
      · intro r0 rq0 hm0
        rw [hitems] at hm0
        rcases mem_append.mp hm0 with h | h
        · exact ruleRel_mono c _ f r0 _ (hrelq.2.2.2.1 r0 rq0 h) (fun hh => mem_cons_of_mem _ hh) id
        · simp only [mem_singleton, Item.rule.injEq] at h
          obtain ⟨rfl, rfl⟩ := h
          exact ⟨by simp [RuleQ.new], fun _ => by simp, by simp [RuleQ.new]⟩
      · intro ro a hat
        have : attAt q ro a := by
          cases ro with
          | none =>
            simp only [attAt, hitems, mem_append, mem_singleton, reduceCtorEq, or_false] at hat
            exact hat
          | some r0 =>
            obtain ⟨rq0, hrq0, ha⟩ := hat
            rw [hitems] at hrq0
            rcases mem_append.mp hrq0 with h | h
            · exact ⟨rq0, h, ha⟩
            · simp only [mem_singleton, Item.rule.injEq] at h
              obtain ⟨rfl, rfl⟩ := h
              simp [RuleQ.new] at ha
        exact hrelq.2.2.2.2 ro a this
    · obtain ⟨f0, q0⟩ := fq
      exact featRel_mono c _ f0 q0 (hinv.rel _ h1) id id (fun _ hh => mem_cons_of_mem _ hh) (fun _ => id)
        (fun _ _ => id) (fun _ _ => id)
  · intro f' hf'
    obtain ⟨q0, hq0⟩ := hinv.pF f' hf'
    by_cases hff : f' = f
    · subst hff; exact ⟨q', hm'⟩
    · exact ⟨q0, hold _ hq0 hff⟩
  · intro f0 q0 hm0 r0 hr0
    rcases hall _ hm0 with h | ⟨h1, h2⟩
    · obtain ⟨rfl, rfl⟩ := Prod.mk.inj h
      rcases mem_cons.mp hr0 with h | h
      · obtain ⟨_, rfl⟩ := Prod.mk.inj h
        exact ⟨RuleQ.new, by rw [hitems]; simp⟩
      · obtain ⟨rq0, hrq0⟩ := hinv.pR _ q hm r0 h
        exact ⟨rq0, hsub _ hrq0⟩
    · rcases mem_cons.mp hr0 with h | h
      · obtain ⟨rfl, _⟩ := Prod.mk.inj h
        exact absurd rfl h2
      · exact hinv.pR f0 q0 h1 r0 h
  · intro f0 q0 hm0 k ret hk hkf
    rcases hall _ hm0 with h | ⟨h1, _⟩
    · obtain ⟨rfl, rfl⟩ := Prod.mk.inj h
      obtain ⟨a, hat, hs⟩ := hinv.pA _ q hm k ret hk hkf
      exact ⟨a, attAt_mono_items q q0 hsub _ a hat, hs⟩
    · exact hinv.pA f0 q0 h1 k ret hk hkf

theorem inv_ruleFinished (c c' : CSt) (n n1 : Norm) (f r : Nat) (hwf : CWf c) (hinv : Inv c n.feats) (hd : NormD n)
    (hfin : c.fin = false) (hstep : c.step (.ruleFinished f r) = some c') (hi : n.insert (.ruleFinished f r) = some n1) :
    Inv c' n1.feats := by
  obtain ⟨ho, hr, hnoA, rfl⟩ := cstep_ruleFinished c c' f r hfin hstep
  simp only [Norm.insert, Option.map_eq_some_iff] at hi
  obtain ⟨fs', hu, rfl⟩ := hi
  obtain ⟨q, q', hm, hg, hm', hall, hold⟩ := updFeat_mem n.feats fs' f _ hu hd
  have hdq := feat_items_D n.feats hd f q hm
  obtain ⟨rq, hfind, hrm, hrfin, _⟩ := open_rule c hwf f q (hinv.rel _ hm) r hr (hinv.pR f q hm r hr)
  have hany : q.items.any (Item.isRule r) = true := any_of_mem _ _ _ hrm (by simp [Item.isRule])
  simp only [FeatQ.ruleFinished, hany, if_true, Option.some.injEq] at hg
  have hitems : q'.items = updFirst (Item.isRule r) Item.finishRule q.items := by rw [← hg]
  have hqfin : q'.fin = q.fin := by rw [← hg]
  -- members of the new item list
  have hnew : ∀ x ∈ q'.items, x = .rule r { rq with fin := .pending } ∨ (x ∈ q.items ∧ x.isRule r = false) := by
    intro x hx
    rw [hitems] at hx
    rcases mem_updFirst _ _ _ _ hx with ⟨a, ha, rfl⟩ | ⟨hx1, hx2⟩
    · rw [hfind] at ha
      simp only [Option.some.injEq] at ha
      subst ha
      exact Or.inl rfl
    · rcases hx2 with h | h
      · exact Or.inr ⟨hx1, h⟩
      · exact Or.inr ⟨hx1, itemsD_after_rule q.items r hdq x h⟩
  have hkeep : ∀ x ∈ q.items, x.isRule r = false → x ∈ q'.items := by
    intro x hx hp; rw [hitems]; exact updFirst_mem_old _ _ _ x hx hp
  have hmod : Item.rule r { rq with fin := .pending } ∈ q'.items := by
    rw [hitems]; exact updFirst_mem_new _ Item.finishRule _ _ hfind
  have hrelq := (featRel_flat c f q).mp (hinv.rel _ hm)
  refine ⟨?_, ?_, ?_, ?_⟩
  · intro fq hfq
    rcases hall fq hfq with rfl | ⟨h1, h2⟩
    · rw [featRel_flat, hqfin]
      refine ⟨hrelq.1, hrelq.2.1, hrelq.2.2.1, ?_, ?_⟩
      · intro r0 rq0 hm0
        rcases hnew _ hm0 with h | ⟨h1, h2⟩
        · simp only [Item.rule.injEq] at h
          obtain ⟨rfl, rfl⟩ := h
          exact ⟨by simp, by simp, fun _ => by simp⟩
        · have hne : r0 ≠ r := by simpa [Item.isRule] using h2
          refine ruleRel_mono c _ f r0 _ (hrelq.2.2.2.1 r0 rq0 h1) ?_ (fun hh => mem_cons_of_mem _ hh)
          intro hh
          simp only [mem_filter, bne_iff_ne, ne_eq, Prod.mk.injEq, true_and]
          exact ⟨hh, hne⟩
      · intro ro a hat
        have : attAt q ro a := by
          cases ro with
          | none =>
            rcases hnew _ hat with h | ⟨h1, _⟩
            · cases h
            · exact h1
          | some r0 =>
            obtain ⟨rq0, hrq0, ha⟩ := hat
            rcases hnew _ hrq0 with h | ⟨h1, _⟩
            · simp only [Item.rule.injEq] at h
              obtain ⟨rfl, rfl⟩ := h
              exact ⟨rq, hrm, ha⟩
            · exact ⟨rq0, h1, ha⟩
        exact hrelq.2.2.2.2 ro a this
    · obtain ⟨f0, q0⟩ := fq
      refine featRel_mono c _ f0 q0 (hinv.rel _ h1) id id ?_ (fun _ hh => mem_cons_of_mem _ hh)
        (fun _ _ => id) (fun _ _ => id)
      intro r0 hh
      simp only [mem_filter, bne_iff_ne, ne_eq, Prod.mk.injEq]
      exact ⟨hh, fun hc => h2 hc.1⟩
  · intro f' hf'
    obtain ⟨q0, hq0⟩ := hinv.pF f' hf'
    by_cases hff : f' = f
    · subst hff; exact ⟨q', hm'⟩
    · exact ⟨q0, hold _ hq0 hff⟩
  · intro f0 q0 hm0 r0 hr0
    simp only [mem_filter, bne_iff_ne, ne_eq] at hr0
    rcases hall _ hm0 with h | ⟨h1, h2⟩
    · obtain ⟨rfl, rfl⟩ := Prod.mk.inj h
      have hne : r0 ≠ r := fun hc => hr0.2 (by rw [hc])
      obtain ⟨rq0, hrq0⟩ := hinv.pR _ q hm r0 hr0.1
      exact ⟨rq0, hkeep _ hrq0 (by simpa [Item.isRule] using hne)⟩
    · exact hinv.pR f0 q0 h1 r0 hr0.1
  · intro f0 q0 hm0 k ret hk hkf
    rcases hall _ hm0 with h | ⟨h1, _⟩
    · obtain ⟨rfl, rfl⟩ := Prod.mk.inj h
      obtain ⟨a, hat, hs⟩ := hinv.pA _ q hm k ret hk hkf
      refine ⟨a, ?_, hs⟩
      have hne := hnoA _ hk hkf
      cases hkr : k.rule with
      | none =>
        rw [hkr] at hat
        exact hkeep _ hat (by simp [Item.isRule])
      | some r0 =>
        rw [hkr] at hat hne
        obtain ⟨rq0, hrq0, ha⟩ := hat
        have : r0 ≠ r := fun hc => hne (by rw [hc])
        exact ⟨rq0, hkeep _ hrq0 (by simpa [Item.isRule] using this), ha⟩
    · exact hinv.pA f0 q0 h1 k ret hk hkf

/-! ## what `insert_scenario_event` does to the attempts of a feature queue -/

theorem is_iff (scen : Nat) (ret : Option Retries) (a : AttQ) : a.is scen ret = true ↔ (a.scen = scen ∧ a.ret = ret) := by
  simp [AttQ.is]

theorem is_false_iff (scen : Nat) (ret : Option Retries) (a : AttQ) : a.is scen ret = false ↔ ¬(a.scen = scen ∧ a.ret = ret) := by
  rw [← is_iff]; simp

theorem pushAtt_mem (atts : List AttQ) (scen : Nat) (ret : Option Retries) (ev : ScenEv) (hd : attsD atts = true)
    (a' : AttQ) (h : a' ∈ pushAtt atts scen ret ev) :
    (a' ∈ atts ∧ ¬(a'.scen = scen ∧ a'.ret = ret)) ∨
    (a'.scen = scen ∧ a'.ret = ret ∧
      ((∃ a ∈ atts, a.scen = scen ∧ a.ret = ret ∧ a' = a.push ev) ∨
       ((∀ a ∈ atts, ¬(a.scen = scen ∧ a.ret = ret)) ∧ a' = ⟨scen, ret, [ev]⟩))) := by
  unfold pushAtt at h
  by_cases hex : atts.any (AttQ.is scen ret) = true
  · simp only [hex, if_true] at h
    rcases mem_updFirst _ _ _ _ h with ⟨a, ha, rfl⟩ | ⟨hx1, hx2⟩
    · obtain ⟨ham, hap⟩ := find_mem_pred _ _ _ ha
      obtain ⟨h1, h2⟩ := (is_iff _ _ _).mp hap
      exact Or.inr ⟨h1, h2, Or.inl ⟨a, ham, h1, h2, rfl⟩⟩
    · have : a'.is scen ret = false := by
        rcases hx2 with h2 | h2
        · exact h2
        · exact attsD_after atts scen ret hd a' h2
      exact Or.inl ⟨hx1, (is_false_iff _ _ _).mp this⟩
  · have hex' : atts.any (AttQ.is scen ret) = false := by simpa using hex
    simp only [hex', Bool.false_eq_true, if_false, mem_append, mem_singleton] at h
    rw [any_eq_false] at hex'
    rcases h with h | h
    · exact Or.inl ⟨h, (is_false_iff _ _ _).mp (by simpa using hex' a' h)⟩
    · subst h
      exact Or.inr ⟨rfl, rfl, Or.inr ⟨fun a ha => (is_false_iff _ _ _).mp (by simpa using hex' a ha), rfl⟩⟩

theorem pushAtt_keep (atts : List AttQ) (scen : Nat) (ret : Option Retries) (ev : ScenEv) (a : AttQ) (ha : a ∈ atts)
    (hne : ¬(a.scen = scen ∧ a.ret = ret)) : a ∈ pushAtt atts scen ret ev := by
  unfold pushAtt
  split
  · exact updFirst_mem_old _ _ _ a ha ((is_false_iff _ _ _).mpr hne)
  · exact mem_append_left _ ha

theorem pushAtt_has (atts : List AttQ) (scen : Nat) (ret : Option Retries) (ev : ScenEv) :
    ∃ a' ∈ pushAtt atts scen ret ev, a'.scen = scen ∧ a'.ret = ret := by
  unfold pushAtt
  by_cases hex : atts.any (AttQ.is scen ret) = true
  · simp only [hex, if_true]
    obtain ⟨a, ha, hp⟩ := find_some_of_any _ _ hex
    obtain ⟨h1, h2⟩ := (is_iff _ _ _).mp hp
    exact ⟨a.push ev, updFirst_mem_new _ _ _ _ ha, h1, h2⟩
  · have hex' : atts.any (AttQ.is scen ret) = false := by simpa using hex
    simp only [hex', Bool.false_eq_true, if_false]
    exact ⟨⟨scen, ret, [ev]⟩, by simp, rfl, rfl⟩

theorem isAtt_iff (scen : Nat) (ret : Option Retries) (a : AttQ) : (Item.att a).isAtt scen ret = true ↔ (a.scen = scen ∧ a.ret = ret) := by
  simp [Item.isAtt]

theorem isAtt_false_iff (scen : Nat) (ret : Option Retries) (a : AttQ) :
    (Item.att a).isAtt scen ret = false ↔ ¬(a.scen = scen ∧ a.ret = ret) := by
  rw [← isAtt_iff]; simp

/-- the attempts of a feature queue after `insert_scenario_event`: the addressed attempt got the event (or
    was created with it); every other attempt, and every rule bracket, is as before -/
theorem insertScen_attAt (q q' : FeatQ) (rule : Option Nat) (scen : Nat) (ret : Option Retries) (ev : ScenEv)
    (hd : itemsD q.items = true) (h : q.insertScen rule scen ret ev = some q') :
    q'.fin = q.fin ∧
    (∀ r rq', Item.rule r rq' ∈ q'.items → ∃ rq, Item.rule r rq ∈ q.items ∧ rq'.fin = rq.fin) ∧
    (∀ r rq, Item.rule r rq ∈ q.items → ∃ rq', Item.rule r rq' ∈ q'.items) ∧
    (∀ ro a', attAt q' ro a' →
        (attAt q ro a' ∧ ¬(ro = rule ∧ a'.scen = scen ∧ a'.ret = ret)) ∨
        (ro = rule ∧ a'.scen = scen ∧ a'.ret = ret ∧
          ((∃ a, attAt q rule a ∧ a.scen = scen ∧ a.ret = ret ∧ a' = a.push ev) ∨
           ((∀ a, attAt q rule a → ¬(a.scen = scen ∧ a.ret = ret)) ∧ a' = ⟨scen, ret, [ev]⟩)))) ∧
    (∀ ro a, attAt q ro a → ¬(ro = rule ∧ a.scen = scen ∧ a.ret = ret) → attAt q' ro a) ∧
    (∃ a', attAt q' rule a' ∧ a'.scen = scen ∧ a'.ret = ret) := by
  cases rule with
  | none =>
    simp only [FeatQ.insertScen] at h
    by_cases hex : q.items.any (Item.isAtt scen ret) = true
    · simp only [hex, if_true, Option.some.injEq] at h
      subst h
      obtain ⟨it, hfind, hp⟩ := find_some_of_any _ _ hex
      obtain ⟨a0, rfl, hs1, hs2⟩ := isAtt_cases _ _ it hp
      have ha0 := mem_of_find?_eq_some hfind
      have hnew : ∀ x ∈ updFirst (Item.isAtt scen ret) (Item.pushAtt ev) q.items,
          x = .att (a0.push ev) ∨ (x ∈ q.items ∧ x.isAtt scen ret = false) := by
        intro x hx
        rcases mem_updFirst _ _ _ _ hx with ⟨a, ha, rfl⟩ | ⟨hx1, hx2⟩
        · rw [hfind] at ha
          simp only [Option.some.injEq] at ha
          subst ha
          exact Or.inl rfl
        · rcases hx2 with h2 | h2
          · exact Or.inr ⟨hx1, h2⟩
          · exact Or.inr ⟨hx1, itemsD_after_att q.items scen ret hd x h2⟩
      have hkeep : ∀ x ∈ q.items, x.isAtt scen ret = false → x ∈ updFirst (Item.isAtt scen ret) (Item.pushAtt ev) q.items :=
        fun x hx hp => updFirst_mem_old _ _ _ x hx hp
      have hmod : Item.att (a0.push ev) ∈ updFirst (Item.isAtt scen ret) (Item.pushAtt ev) q.items :=
        updFirst_mem_new _ (Item.pushAtt ev) _ _ hfind
      refine ⟨rfl, ?_, ?_, ?_, ?_, ?_⟩
      · intro r rq' hm
        rcases hnew _ hm with h | ⟨h1, _⟩
        · cases h
        · exact ⟨rq', h1, rfl⟩
      · intro r rq hm
        exact ⟨rq, hkeep _ hm (by simp [Item.isAtt])⟩
      · intro ro a' hat
        cases ro with
        | none =>
          rcases hnew _ hat with h | ⟨h1, h2⟩
          · simp only [Item.att.injEq] at h
            subst h
            exact Or.inr ⟨rfl, hs1, hs2, Or.inl ⟨a0, ha0, hs1, hs2, rfl⟩⟩
          · exact Or.inl ⟨h1, fun hc => (isAtt_false_iff _ _ _).mp h2 hc.2⟩
        | some r =>
          obtain ⟨rq, hrq, ha⟩ := hat
          rcases hnew _ hrq with h | ⟨h1, _⟩
          · cases h
          · exact Or.inl ⟨⟨rq, h1, ha⟩, fun hc => by cases hc.1⟩
      · intro ro a hat hne
        cases ro with
        | none => exact hkeep _ hat ((isAtt_false_iff _ _ _).mpr (fun hc => hne ⟨rfl, hc⟩))
        | some r =>
          obtain ⟨rq, hrq, ha⟩ := hat
          exact ⟨rq, hkeep _ hrq (by simp [Item.isAtt]), ha⟩
      · exact ⟨a0.push ev, hmod, hs1, hs2⟩
    · have hex' : q.items.any (Item.isAtt scen ret) = false := by simpa using hex
      simp only [hex', Bool.false_eq_true, if_false, Option.some.injEq] at h
      subst h
      rw [any_eq_false] at hex'
      refine ⟨rfl, ?_, ?_, ?_, ?_, ?_⟩
      · intro r rq' hm
        simp only [mem_append, mem_singleton, reduceCtorEq, or_false] at hm
        exact ⟨rq', hm, rfl⟩
      · intro r rq hm
        exact ⟨rq, mem_append_left _ hm⟩
      · intro ro a' hat
        cases ro with
        | none =>
          simp only [attAt, mem_append, mem_singleton, Item.att.injEq] at hat
          rcases hat with h | h
          · exact Or.inl ⟨h, fun hc => (isAtt_false_iff _ _ _).mp (by simpa using hex' _ h) hc.2⟩
          · subst h
            exact Or.inr ⟨rfl, rfl, rfl, Or.inr ⟨fun a ha => (isAtt_false_iff _ _ _).mp (by simpa using hex' _ ha), rfl⟩⟩
        | some r =>
          obtain ⟨rq, hrq, ha⟩ := hat
          simp only [mem_append, mem_singleton, reduceCtorEq, or_false] at hrq
          exact Or.inl ⟨⟨rq, hrq, ha⟩, fun hc => by cases hc.1⟩
      · intro ro a hat _
        exact attAt_mono_items q _ (fun it hit => mem_append_left _ hit) ro a hat
      · exact ⟨⟨scen, ret, [ev]⟩, by simp [attAt], rfl, rfl⟩
  | some r =>
    simp only [FeatQ.insertScen] at h
    by_cases hex : q.items.any (Item.isRule r) = true
    · simp only [hex, if_true, Option.some.injEq] at h
      subst h
      obtain ⟨it, hfind, hp⟩ := find_some_of_any _ _ hex
      obtain ⟨rq, rfl⟩ := isRule_cases r it hp
      have hrm := mem_of_find?_eq_some hfind
      have hdq : attsD rq.atts = true := itemsD_rule_atts q.items hd r rq hrm
      have hnew : ∀ x ∈ updFirst (Item.isRule r) (Item.pushInRule scen ret ev) q.items,
          x = .rule r { rq with atts := pushAtt rq.atts scen ret ev } ∨ (x ∈ q.items ∧ x.isRule r = false) := by
        intro x hx
        rcases mem_updFirst _ _ _ _ hx with ⟨a, ha, rfl⟩ | ⟨hx1, hx2⟩
        · rw [hfind] at ha
          simp only [Option.some.injEq] at ha
          subst ha
          exact Or.inl rfl
        · rcases hx2 with h2 | h2
          · exact Or.inr ⟨hx1, h2⟩
          · exact Or.inr ⟨hx1, itemsD_after_rule q.items r hd x h2⟩
      have hkeep : ∀ x ∈ q.items, x.isRule r = false → x ∈ updFirst (Item.isRule r) (Item.pushInRule scen ret ev) q.items :=
        fun x hx hp => updFirst_mem_old _ _ _ x hx hp
      have hmod : Item.rule r { rq with atts := pushAtt rq.atts scen ret ev } ∈
          updFirst (Item.isRule r) (Item.pushInRule scen ret ev) q.items :=
        updFirst_mem_new _ (Item.pushInRule scen ret ev) _ _ hfind
      have huniq : ∀ rq2, Item.rule r rq2 ∈ q.items → rq2 = rq := fun rq2 h2 => rule_unique q.items hd r rq2 rq h2 hrm
      refine ⟨rfl, ?_, ?_, ?_, ?_, ?_⟩
      · intro r0 rq' hm
        rcases hnew _ hm with h | ⟨h1, _⟩
        · simp only [Item.rule.injEq] at h
          obtain ⟨rfl, rfl⟩ := h
          exact ⟨rq, hrm, rfl⟩
        · exact ⟨rq', h1, rfl⟩
      · intro r0 rq0 hm
        by_cases hr0 : r0 = r
        · subst hr0; exact ⟨_, hmod⟩
        · exact ⟨rq0, hkeep _ hm (by simpa [Item.isRule] using hr0)⟩
      · intro ro a' hat
        cases ro with
        | none =>
          rcases hnew _ hat with h | ⟨h1, _⟩
          · cases h
          · exact Or.inl ⟨h1, fun hc => by cases hc.1⟩
        | some r0 =>
          obtain ⟨rq0, hrq0, ha⟩ := hat
          rcases hnew _ hrq0 with h | ⟨h1, h2⟩
          · simp only [Item.rule.injEq] at h
            obtain ⟨rfl, rfl⟩ := h
            rcases pushAtt_mem rq.atts scen ret ev hdq a' ha with ⟨m1, m2⟩ | ⟨m1, m2, m3⟩
            · exact Or.inl ⟨⟨rq, hrm, m1⟩, fun hc => m2 hc.2⟩
            · refine Or.inr ⟨rfl, m1, m2, ?_⟩
              rcases m3 with ⟨a, ha1, ha2, ha3, ha4⟩ | ⟨m4, m5⟩
              · exact Or.inl ⟨a, ⟨rq, hrm, ha1⟩, ha2, ha3, ha4⟩
              · refine Or.inr ⟨?_, m5⟩
                rintro a ⟨rq2, hrq2, ha2⟩
                rw [huniq rq2 hrq2] at ha2
                exact m4 a ha2
          · have hne : r0 ≠ r := by simpa [Item.isRule] using h2
            exact Or.inl ⟨⟨rq0, h1, ha⟩, fun hc => hne (Option.some.inj hc.1)⟩
      · intro ro a hat hne
        cases ro with
        | none => exact hkeep _ hat (by simp [Item.isRule])
        | some r0 =>
          obtain ⟨rq0, hrq0, ha⟩ := hat
          by_cases hr0 : r0 = r
          · subst hr0
            rw [huniq rq0 hrq0] at ha
            exact ⟨_, hmod, pushAtt_keep rq.atts scen ret ev a ha (fun hc => hne ⟨rfl, hc⟩)⟩
          · exact ⟨rq0, hkeep _ hrq0 (by simpa [Item.isRule] using hr0), ha⟩
      · obtain ⟨a', ha', hs⟩ := pushAtt_has rq.atts scen ret ev
        exact ⟨a', ⟨_, hmod, ha'⟩, hs⟩
    · have hex' : q.items.any (Item.isRule r) = false := by simpa using hex
      simp [hex'] at h

theorem complete_push (a : AttQ) (ev : ScenEv) : attComplete (a.push ev) = true ↔ ev = .finished := by
  simp [attComplete, AttQ.push]

theorem complete_new (scen : Nat) (ret : Option Retries) (ev : ScenEv) :
    attComplete ⟨scen, ret, [ev]⟩ = true ↔ ev = .finished := by
  simp [attComplete]

/-- how a scenario event moves the ledger -/
theorem scen_ledger (c c' : CSt) (k : ScenKey) (ret : Option Retries) (ev : ScenEv)
    (hev : (ev = .started ∧ (k, ret) ∉ c.openA ∧ c' = { c with openA := (k, ret) :: c.openA }) ∨
     (ev ≠ .started ∧ (k, ret) ∈ c.openA ∧
       ((ev = .finished ∧ c' = { c with openA := c.openA.filter (· != (k, ret)), doneA := (k, ret) :: c.doneA }) ∨
        (ev ≠ .finished ∧ c' = c)))) :
    c'.openF = c.openF ∧ c'.doneF = c.doneF ∧ c'.openR = c.openR ∧ c'.doneR = c.doneR ∧
    (∀ κ', κ' ≠ (k, ret) → κ' ∈ c.openA → κ' ∈ c'.openA) ∧ (∀ κ', κ' ∈ c.doneA → κ' ∈ c'.doneA) ∧
    (∀ κ', κ' ∈ c'.openA → κ' ≠ (k, ret) → κ' ∈ c.openA) ∧
    (ev = .finished → (k, ret) ∈ c'.doneA) ∧ (ev ≠ .finished → (k, ret) ∈ c'.openA) := by
  rcases hev with ⟨hst, hno, rfl⟩ | ⟨hst, hopen, ⟨hf, rfl⟩ | ⟨hf, rfl⟩⟩
  · refine ⟨rfl, rfl, rfl, rfl, fun κ' _ h => mem_cons_of_mem _ h, fun _ h => h, ?_, ?_, fun _ => by simp⟩
    · intro κ' h hne
      rcases mem_cons.mp h with h | h
      · exact absurd h hne
      · exact h
    · intro hc; rw [hst] at hc; cases hc
  · refine ⟨rfl, rfl, rfl, rfl, ?_, fun _ h => mem_cons_of_mem _ h, ?_, fun _ => by simp, fun hc => absurd hf hc⟩
    · intro κ' hne h
      simp only [mem_filter, bne_iff_ne, ne_eq]
      exact ⟨h, hne⟩
    · intro κ' h _
      simp only [mem_filter] at h
      exact h.1
  · exact ⟨rfl, rfl, rfl, rfl, fun _ _ h => h, fun _ h => h, fun _ h _ => h, fun hc => absurd hc hf, fun _ => hopen⟩

theorem attKey_eq_iff (f : Nat) (ro : Option Nat) (a : AttQ) (k : ScenKey) (ret : Option Retries) (hf : k.feat = f) :
    attKey f ro a = (k, ret) ↔ (ro = k.rule ∧ a.scen = k.scen ∧ a.ret = ret) := by
  cases k with
  | mk kf kr ks =>
    simp only at hf
    subst hf
    simp only [attKey, Prod.mk.injEq, ScenKey.mk.injEq, true_and]
    constructor
    · rintro ⟨⟨h1, h2⟩, h3⟩; exact ⟨h1, h2, h3⟩
    · rintro ⟨h1, h2, h3⟩; exact ⟨⟨h1, h2⟩, h3⟩

theorem inv_scen (c c' : CSt) (n n1 : Norm) (k : ScenKey) (ret : Option Retries) (ev : ScenEv) (hwf : CWf c)
    (hinv : Inv c n.feats) (hd : NormD n) (hfin : c.fin = false)
    (hstep : c.step (.scen k ret ev) = some c') (hi : n.insert (.scen k ret ev) = some n1) :
    Inv c' n1.feats := by
  obtain ⟨ho, hrule, hnd, hev⟩ := cstep_scen c c' k ret ev hfin hstep
  obtain ⟨lF, lF', lR, lR', l2o, l2d, l3, l4d, l4o⟩ := scen_ledger c c' k ret ev hev
  simp only [Norm.insert, Option.map_eq_some_iff] at hi
  obtain ⟨fs', hu, rfl⟩ := hi
  obtain ⟨q, q', hm, hg, hm', hall, hold⟩ := updFeat_mem n.feats fs' k.feat _ hu hd
  have hdq := feat_items_D n.feats hd k.feat q hm
  obtain ⟨hqfin, hrules1, hrules2, hatt1, hatt2, hatt3⟩ := insertScen_attAt q q' k.rule k.scen ret ev hdq hg
  have hrelq := (featRel_flat c k.feat q).mp (hinv.rel _ hm)
  refine ⟨?_, ?_, ?_, ?_⟩
  · intro fq hfq
    rcases hall fq hfq with rfl | ⟨h1, h2⟩
    · rw [featRel_flat, hqfin, lF, lF']
      refine ⟨hrelq.1, hrelq.2.1, hrelq.2.2.1, ?_, ?_⟩
      · intro r0 rq' hm0
        obtain ⟨rq, hrq, hfe⟩ := hrules1 r0 rq' hm0
        rw [hfe]
        exact ruleRel_mono c c' _ r0 _ (hrelq.2.2.2.1 r0 rq hrq) (by rw [lR]; exact id) (by rw [lR']; exact id)
      · intro ro a' hat
        rcases hatt1 ro a' hat with ⟨h1, h2⟩ | ⟨h1, h2, h3, h4⟩
        · have hne : attKey k.feat ro a' ≠ (k, ret) := fun hc => h2 ((attKey_eq_iff _ ro a' k ret rfl).mp hc)
          exact attRel_mono c c' _ ro a' (hrelq.2.2.2.2 ro a' h1) (l2o _ hne) (l2d _)
        · have hkey : attKey k.feat ro a' = (k, ret) := (attKey_eq_iff _ ro a' k ret rfl).mpr ⟨h1, h2, h3⟩
          have hcomp : attComplete a' = true ↔ ev = .finished := by
            rcases h4 with ⟨a, _, _, _, rfl⟩ | ⟨_, rfl⟩
            · exact complete_push a ev
            · exact complete_new _ _ ev
          refine ⟨fun hc => ?_, fun hc => ?_⟩
          · rw [hkey]
            exact l4o (fun hf => by rw [hcomp.mpr hf] at hc; cases hc)
          · rw [hkey]
            exact l4d (hcomp.mp hc)
    · obtain ⟨f0, q0⟩ := fq
      refine featRel_mono c c' f0 q0 (hinv.rel _ h1) (by rw [lF]; exact id) (by rw [lF']; exact id)
        (fun _ => by rw [lR]; exact id) (fun _ => by rw [lR']; exact id) ?_ (fun κ' _ => l2d κ')
      intro κ' hκ'
      exact l2o κ' (fun hc => h2 (by rw [← hκ', hc]))
  · intro f' hf'
    rw [lF] at hf'
    obtain ⟨q0, hq0⟩ := hinv.pF f' hf'
    by_cases hff : f' = k.feat
    · subst hff; exact ⟨q', hm'⟩
    · exact ⟨q0, hold _ hq0 hff⟩
  · intro f0 q0 hm0 r0 hr0
    rw [lR] at hr0
    rcases hall _ hm0 with h | ⟨h1, _⟩
    · obtain ⟨rfl, rfl⟩ := Prod.mk.inj h
      obtain ⟨rq0, hrq0⟩ := hinv.pR _ q hm r0 hr0
      exact hrules2 r0 rq0 hrq0
    · exact hinv.pR f0 q0 h1 r0 hr0
  · intro f0 q0 hm0 k' ret' hk' hkf
    rcases hall _ hm0 with h | ⟨h1, h2⟩
    · obtain ⟨rfl, rfl⟩ := Prod.mk.inj h
      by_cases hkk : (k', ret') = (k, ret)
      · obtain ⟨rfl, rfl⟩ := Prod.mk.inj hkk
        exact hatt3
      · obtain ⟨a, hat, hs1, hs2⟩ := hinv.pA _ q hm k' ret' (l3 _ hk' hkk) hkf
        refine ⟨a, hatt2 _ a hat ?_, hs1, hs2⟩
        rintro ⟨e1, e2, e3⟩
        apply hkk
        cases k' with
        | mk kf kr ks =>
          cases k with
          | mk kf2 kr2 ks2 =>
            simp only at hkf e1 e2 e3 hs1 hs2
            subst hkf e1
            rw [← hs1, ← hs2, e2, e3]
    · have hne : (k', ret') ≠ (k, ret) := fun hc => h2 (by rw [← hkf, (Prod.mk.inj hc).1])
      exact hinv.pA f0 q0 h1 k' ret' (l3 _ hk' hne) hkf

/-! ## emission only removes closed entities -/

/-- same key, same completeness -/
def attSim (a' a : AttQ) : Prop := a'.scen = a.scen ∧ a'.ret = a.ret ∧ attComplete a' = attComplete a

def attsFwd (atts' atts : List AttQ) : Prop := ∀ a' ∈ atts', ∃ a ∈ atts, attSim a' a
def attsBwd (atts' atts : List AttQ) : Prop := ∀ a ∈ atts, attComplete a = false → ∃ a' ∈ atts', a'.scen = a.scen ∧ a'.ret = a.ret

theorem emitAtt_done_iff (a : AttQ) (hc : attClean a = true) : (emitAtt a.evs).2 = true ↔ attComplete a = true := by
  rw [(emitAtt_clean a.evs hc).2]
  simp [attComplete]

theorem emitAtts_sim (f : Nat) (r : Option Nat) (atts : List AttQ) (hc : atts.all attClean = true) :
    attsFwd (emitAtts f r atts).2 atts ∧ attsBwd (emitAtts f r atts).2 atts := by
  induction atts with
  | nil => simp [emitAtts, attsFwd, attsBwd]
  | cons a rest ih =>
    simp only [all_cons, Bool.and_eq_true] at hc
    obtain ⟨ih1, ih2⟩ := ih hc.2
    have hdone := emitAtt_done_iff a hc.1
    simp only [emitAtts]
    by_cases hf : (emitAtt a.evs).2 = true
    · simp only [hf, if_true]
      refine ⟨?_, ?_⟩
      · intro a' ha'
        obtain ⟨a0, h0, hs⟩ := ih1 a' ha'
        exact ⟨a0, mem_cons_of_mem _ h0, hs⟩
      · intro a0 h0 hinc
        rcases mem_cons.mp h0 with rfl | h0
        · rw [hdone.mp hf] at hinc; cases hinc
        · exact ih2 a0 h0 hinc
    · have hinc : attComplete a = false := by
        cases hh : attComplete a with
        | false => rfl
        | true => exact absurd (hdone.mpr hh) hf
      simp only [hf, Bool.false_eq_true, if_false]
      refine ⟨?_, ?_⟩
      · intro a' ha'
        rcases mem_cons.mp ha' with rfl | ha'
        · exact ⟨a, by simp, rfl, rfl, by rw [hinc]; simp [attComplete]⟩
        · exact ⟨a', mem_cons_of_mem _ ha', rfl, rfl, rfl⟩
      · intro a0 h0 _
        rcases mem_cons.mp h0 with rfl | h0
        · exact ⟨_, mem_cons_self, rfl, rfl⟩
        · exact ⟨a0, mem_cons_of_mem _ h0, rfl, rfl⟩

/-- the attempts queued at position `ro` of an item list -/
def attIn (items : List Item) (ro : Option Nat) (a : AttQ) : Prop :=
  match ro with
  | none => Item.att a ∈ items
  | some r => ∃ rq, Item.rule r rq ∈ items ∧ a ∈ rq.atts

theorem attAt_iff (q : FeatQ) (ro : Option Nat) (a : AttQ) : attAt q ro a ↔ attIn q.items ro a := by
  cases ro <;> rfl

theorem attIn_cons_of (it : Item) (items : List Item) (ro : Option Nat) (a : AttQ) (h : attIn items ro a) :
    attIn (it :: items) ro a := by
  cases ro with
  | none => exact mem_cons_of_mem _ h
  | some r => obtain ⟨rq, h1, h2⟩ := h; exact ⟨rq, mem_cons_of_mem _ h1, h2⟩

/-- what is left of an item list after emission, relative to what was there -/
structure ItemsSim (items' items : List Item) : Prop where
  s1 : ∀ ro a', attIn items' ro a' → ∃ a, attIn items ro a ∧ attSim a' a
  s2 : ∀ r rq', Item.rule r rq' ∈ items' → ∃ rq, Item.rule r rq ∈ items ∧ rq'.fin = rq.fin
  s3 : ∀ ro a, attIn items ro a → attComplete a = false → ∃ a', attIn items' ro a' ∧ a'.scen = a.scen ∧ a'.ret = a.ret
  s4 : ∀ r rq, Item.rule r rq ∈ items → rq.fin ≠ .pending → ∃ rq', Item.rule r rq' ∈ items'

theorem itemsSim_refl (items : List Item) : ItemsSim items items :=
  ⟨fun _ a h => ⟨a, h, rfl, rfl, rfl⟩, fun _ rq h => ⟨rq, h, rfl⟩, fun _ a h _ => ⟨a, h, rfl, rfl⟩, fun _ rq h _ => ⟨rq, h⟩⟩

theorem itemsSim_drop (it : Item) (items' rest : List Item) (h : ItemsSim items' rest)
    (hatt : ∀ a, it = .att a → attComplete a = true)
    (hrule : ∀ r rq, it = .rule r rq → rq.fin = .pending ∧ ∀ a ∈ rq.atts, attComplete a = true) :
    ItemsSim items' (it :: rest) := by
  refine ⟨?_, ?_, ?_, ?_⟩
  · intro ro a' h'
    obtain ⟨a, ha, hs⟩ := h.s1 ro a' h'
    exact ⟨a, attIn_cons_of it rest ro a ha, hs⟩
  · intro r rq' h'
    obtain ⟨rq, hrq, hf⟩ := h.s2 r rq' h'
    exact ⟨rq, mem_cons_of_mem _ hrq, hf⟩
  · intro ro a ha hinc
    cases ro with
    | none =>
      rcases mem_cons.mp ha with h0 | h0
      · rw [hatt a h0.symm] at hinc; cases hinc
      · exact h.s3 none a h0 hinc
    | some r =>
      obtain ⟨rq, hrq, har⟩ := ha
      rcases mem_cons.mp hrq with h0 | h0
      · rw [(hrule r rq h0.symm).2 a har] at hinc; cases hinc
      · exact h.s3 (some r) a ⟨rq, h0, har⟩ hinc
  · intro r rq hrq hne
    rcases mem_cons.mp hrq with h0 | h0
    · exact absurd (hrule r rq h0.symm).1 hne
    · exact h.s4 r rq h0 hne

theorem emitItems_sim (f : Nat) (items : List Item) (hok : items.all itemOk = true) :
    ItemsSim (emitItems f items).2 items := by
  induction items with
  | nil => simpa [emitItems] using itemsSim_refl []
  | cons it rest ih =>
    simp only [all_cons, Bool.and_eq_true] at hok
    have ihr := ih hok.2
    cases it with
    | att a =>
      have hclean : attClean a = true := hok.1
      have hdone := emitAtt_done_iff a hclean
      simp only [emitItems]
      by_cases hf : (emitAtt a.evs).2 = true
      · simp only [hf, if_true]
        exact itemsSim_drop _ _ _ ihr (fun a0 h0 => by cases h0; exact hdone.mp hf) (fun _ _ h0 => by cases h0)
      · have hinc : attComplete a = false := by
          cases hh : attComplete a with
          | false => rfl
          | true => exact absurd (hdone.mpr hh) hf
        simp only [hf, Bool.false_eq_true, if_false]
        refine ⟨?_, ?_, ?_, ?_⟩
        · intro ro a' h'
          cases ro with
          | none =>
            rcases mem_cons.mp h' with h0 | h0
            · simp only [Item.att.injEq] at h0
              subst h0
              exact ⟨a, by simp [attIn], rfl, rfl, by rw [hinc]; simp [attComplete]⟩
            · exact ⟨a', mem_cons_of_mem _ h0, rfl, rfl, rfl⟩
          | some r =>
            obtain ⟨rq, hrq, har⟩ := h'
            rcases mem_cons.mp hrq with h0 | h0
            · cases h0
            · exact ⟨a', ⟨rq, mem_cons_of_mem _ h0, har⟩, rfl, rfl, rfl⟩
        · intro r rq' h'
          rcases mem_cons.mp h' with h0 | h0
          · cases h0
          · exact ⟨rq', mem_cons_of_mem _ h0, rfl⟩
        · intro ro a0 h0 _
          cases ro with
          | none =>
            rcases mem_cons.mp h0 with h1 | h1
            · simp only [Item.att.injEq] at h1
              subst h1
              exact ⟨_, (mem_cons_self : _ ∈ _ :: rest), rfl, rfl⟩
            · exact ⟨a0, mem_cons_of_mem _ h1, rfl, rfl⟩
          | some r =>
            obtain ⟨rq, hrq, har⟩ := h0
            rcases mem_cons.mp hrq with h1 | h1
            · cases h1
            · exact ⟨a0, ⟨rq, mem_cons_of_mem _ h1, har⟩, rfl, rfl⟩
        · intro r rq hrq _
          rcases mem_cons.mp hrq with h1 | h1
          · cases h1
          · exact ⟨rq, mem_cons_of_mem _ h1⟩
    | rule r q =>
      have hrok : ruleOk q = true := hok.1
      simp only [ruleOk, Bool.and_eq_true, Bool.or_eq_true] at hrok
      obtain ⟨sa1, sa2⟩ := emitAtts_sim f (some r) q.atts hrok.1
      simp only [emitItems]
      by_cases hp : q.fin = .pending
      · have hdone : (emitRule f r q).2.1 = true := by simp [emitRule, hp]
        simp only [hdone, if_true]
        refine itemsSim_drop _ _ _ ihr (fun _ h0 => by cases h0) ?_
        intro r0 rq0 h0
        simp only [Item.rule.injEq] at h0
        obtain ⟨rfl, rfl⟩ := h0
        refine ⟨hp, ?_⟩
        rcases hrok.2 with h2 | h2
        · rw [hp] at h2; cases h2
        · exact fun a ha => all_eq_true.mp h2 a ha
      · have hp' : (q.fin == Fin.pending) = false := by simpa using hp
        have hdone : (emitRule f r q).2.1 = false := by simp [emitRule, hp']
        have hq' : (emitRule f r q).2.2 = { q with initial := false, atts := (emitAtts f (some r) q.atts).2 } := by
          simp [emitRule, hp']
        simp only [hdone, Bool.false_eq_true, if_false, hq']
        refine ⟨?_, ?_, ?_, ?_⟩
        · intro ro a' h'
          cases ro with
          | none =>
            rcases mem_cons.mp h' with h0 | h0
            · cases h0
            · exact ⟨a', mem_cons_of_mem _ h0, rfl, rfl, rfl⟩
          | some r0 =>
            obtain ⟨rq, hrq, har⟩ := h'
            rcases mem_cons.mp hrq with h0 | h0
            · simp only [Item.rule.injEq] at h0
              obtain ⟨rfl, rfl⟩ := h0
              obtain ⟨a, ha, hs⟩ := sa1 a' har
              exact ⟨a, ⟨q, by simp, ha⟩, hs⟩
            · exact ⟨a', ⟨rq, mem_cons_of_mem _ h0, har⟩, rfl, rfl, rfl⟩
        · intro r0 rq' h'
          rcases mem_cons.mp h' with h0 | h0
          · simp only [Item.rule.injEq] at h0
            obtain ⟨rfl, rfl⟩ := h0
            exact ⟨q, by simp, rfl⟩
          · exact ⟨rq', mem_cons_of_mem _ h0, rfl⟩
        · intro ro a0 h0 hinc
          cases ro with
          | none =>
            rcases mem_cons.mp h0 with h1 | h1
            · cases h1
            · exact ⟨a0, mem_cons_of_mem _ h1, rfl, rfl⟩
          | some r0 =>
            obtain ⟨rq, hrq, har⟩ := h0
            rcases mem_cons.mp hrq with h1 | h1
            · simp only [Item.rule.injEq] at h1
              obtain ⟨rfl, rfl⟩ := h1
              obtain ⟨a', ha', hs⟩ := sa2 a0 har hinc
              exact ⟨a', ⟨_, mem_cons_self, ha'⟩, hs⟩
            · exact ⟨a0, ⟨rq, mem_cons_of_mem _ h1, har⟩, rfl, rfl⟩
        · intro r0 rq hrq _
          rcases mem_cons.mp hrq with h1 | h1
          · simp only [Item.rule.injEq] at h1
            obtain ⟨rfl, rfl⟩ := h1
            exact ⟨_, mem_cons_self⟩
          · exact ⟨rq, mem_cons_of_mem _ h1⟩

/-- what is left of the feature map after emission -/
theorem emitFeats_sim (fs : List (Nat × FeatQ)) (hok : fs.all featOk = true) :
    (∀ f q', (f, q') ∈ (emitFeats fs).2 → ∃ q, (f, q) ∈ fs ∧ q'.fin = q.fin ∧ ItemsSim q'.items q.items) ∧
    (∀ f q, (f, q) ∈ fs → q.fin ≠ .pending → ∃ q', (f, q') ∈ (emitFeats fs).2) := by
  induction fs with
  | nil => simp [emitFeats]
  | cons fq rest ih =>
    obtain ⟨f0, q0⟩ := fq
    simp only [all_cons, Bool.and_eq_true] at hok
    obtain ⟨ih1, ih2⟩ := ih hok.2
    simp only [emitFeats]
    by_cases hp : q0.fin = .pending
    · simp only [hp, beq_self_eq_true, if_true]
      refine ⟨?_, ?_⟩
      · intro f q' hm
        obtain ⟨q, hq, h⟩ := ih1 f q' hm
        exact ⟨q, mem_cons_of_mem _ hq, h⟩
      · intro f q hm hne
        rcases mem_cons.mp hm with h0 | h0
        · obtain ⟨rfl, rfl⟩ := Prod.mk.inj h0
          exact absurd hp hne
        · exact ih2 f q h0 hne
    · have hp' : (q0.fin == Fin.pending) = false := by simpa using hp
      simp only [hp', Bool.false_eq_true, if_false]
      have hiok : q0.items.all itemOk = true := by
        have := hok.1
        simp only [featOk, Bool.and_eq_true] at this
        exact this.1
      refine ⟨?_, ?_⟩
      · intro f q' hm
        rcases mem_cons.mp hm with h0 | h0
        · obtain ⟨rfl, rfl⟩ := Prod.mk.inj h0
          exact ⟨q0, by simp, rfl, emitItems_sim _ q0.items hiok⟩
        · exact ⟨q', mem_cons_of_mem _ h0, rfl, itemsSim_refl _⟩
      · intro f q hm _
        rcases mem_cons.mp hm with h0 | h0
        · obtain ⟨rfl, rfl⟩ := Prod.mk.inj h0
          exact ⟨_, mem_cons_self⟩
        · exact ⟨q, mem_cons_of_mem _ h0⟩

theorem attRel_sim (c : CSt) (f : Nat) (ro : Option Nat) (a' a : AttQ) (hs : attSim a' a) (h : AttRel c f ro a) :
    AttRel c f ro a' := by
  obtain ⟨h1, h2, h3⟩ := hs
  have hk : attKey f ro a' = attKey f ro a := by simp [attKey, h1, h2]
  unfold AttRel
  rw [hk, h3]
  exact h

/-- **Emission keeps the mirror.** -/
theorem inv_emit (c : CSt) (fs : List (Nat × FeatQ)) (hwf : CWf c) (hok : fs.all featOk = true) (hinv : Inv c fs) :
    Inv c (emitFeats fs).2 := by
  obtain ⟨F1, F2⟩ := emitFeats_sim fs hok
  refine ⟨?_, ?_, ?_, ?_⟩
  · intro fq hfq
    obtain ⟨f, q'⟩ := fq
    obtain ⟨q, hq, hfe, hsim⟩ := F1 f q' hfq
    have hrelq := (featRel_flat c f q).mp (hinv.rel _ hq)
    rw [featRel_flat, hfe]
    refine ⟨hrelq.1, hrelq.2.1, hrelq.2.2.1, ?_, ?_⟩
    · intro r rq' hm
      obtain ⟨rq, hrq, hf⟩ := hsim.s2 r rq' hm
      rw [hf]
      exact hrelq.2.2.2.1 r rq hrq
    · intro ro a' hat
      obtain ⟨a, ha, hs⟩ := hsim.s1 ro a' ((attAt_iff q' ro a').mp hat)
      exact attRel_sim c f ro a' a hs (hrelq.2.2.2.2 ro a ((attAt_iff q ro a).mpr ha))
  · intro f hf
    obtain ⟨q, hq⟩ := hinv.pF f hf
    refine F2 f q hq ?_
    intro hp
    exact hwf.dF f hf ((hinv.rel _ hq).2.2.1 hp)
  · intro f q' hm r hr
    obtain ⟨q, hq, _, hsim⟩ := F1 f q' hm
    obtain ⟨rq, hrq⟩ := hinv.pR f q hq r hr
    have hrelq := (featRel_flat c f q).mp (hinv.rel _ hq)
    exact hsim.s4 r rq hrq (fun hp => hwf.dR _ hr ((hrelq.2.2.2.1 r rq hrq).2.2 hp))
  · intro f q' hm k ret hk hkf
    obtain ⟨q, hq, _, hsim⟩ := F1 f q' hm
    obtain ⟨a, hat, hs1, hs2⟩ := hinv.pA f q hq k ret hk hkf
    have hrelq := (featRel_flat c f q).mp (hinv.rel _ hq)
    have hinc : attComplete a = false := by
      cases hc : attComplete a with
      | false => rfl
      | true =>
        have := (hrelq.2.2.2.2 _ a hat).2 hc
        have hkey : attKey f k.rule a = (k, ret) := by rw [← hkf]; exact key_eq k k.rule a ret rfl hs1 hs2
        rw [hkey] at this
        exact absurd this (hwf.dA _ hk)
    obtain ⟨a', ha', h1, h2⟩ := hsim.s3 k.rule a ((attAt_iff q _ a).mp hat) hinc
    exact ⟨a', (attAt_iff q' _ a').mpr ha', by rw [h1, hs1], by rw [h2, hs2]⟩

/-- **Insertion keeps the mirror**, whatever the event -/
theorem inv_insert (c c' : CSt) (n n1 : Norm) (e : Ev) (hwf : CWf c) (hinv : Inv c n.feats) (hd : NormD n)
    (hfin : c.fin = false) (hstep : c.step e = some c') (hi : n.insert e = some n1) : Inv c' n1.feats := by
  cases e with
  | started =>
    simp only [CSt.step, hfin, Bool.false_eq_true, if_false, Option.some.injEq] at hstep
    simp only [Norm.insert, Option.some.injEq] at hi
    subst hstep hi; exact hinv
  | parsingFinished a b c d g =>
    simp only [CSt.step, hfin, Bool.false_eq_true, if_false, Option.some.injEq] at hstep
    simp only [Norm.insert, Option.some.injEq] at hi
    subst hstep hi; exact hinv
  | parseErr i =>
    simp only [CSt.step, hfin, Bool.false_eq_true, if_false, Option.some.injEq] at hstep
    simp only [Norm.insert, Option.some.injEq] at hi
    subst hstep hi; exact hinv
  | finished =>
    obtain ⟨_, rfl⟩ := cstep_finished c c' hfin hstep
    simp only [Norm.insert, Option.some.injEq] at hi
    subst hi
    exact ⟨hinv.rel, hinv.pF, hinv.pR, hinv.pA⟩
  | featStarted f => exact inv_featStarted c c' n n1 f hwf hinv hd hfin hstep hi
  | featFinished f => exact inv_featFinished c c' n n1 f hwf hinv hd hfin hstep hi
  | ruleStarted f r => exact inv_ruleStarted c c' n n1 f r hwf hinv hd hfin hstep hi
  | ruleFinished f r => exact inv_ruleFinished c c' n n1 f r hwf hinv hd hfin hstep hi
  | scen k ret ev => exact inv_scen c c' n n1 k ret ev hwf hinv hd hfin hstep hi

theorem cwf_init : CWf {} := by
  refine ⟨?_, ?_, ?_, ?_, ?_, ?_⟩ <;> intro x hx <;> simp at hx

theorem inv_init : Inv {} [] := by
  refine ⟨?_, ?_, ?_, ?_⟩
  · intro fq h; simp at h
  · intro f h; simp at h
  · intro f q h; simp at h
  · intro f q h; simp at h

end Cuke.NormL
