//! C02 / C09 / C10: attempts of the REAL runner vs `runAttempt`.
//! A case is a whole run (1..6 scenarios, random hooks / retries / concurrency /
//! gate schedule); it yields one request line per attempt.

use std::collections::{BTreeMap, HashMap, VecDeque};

use crate::{common::*, rr::*};

pub struct GenRun {
    pub feats: Vec<RFeat>,
    pub cfg: RunCfg,
    pub scripts: HashMap<(String, usize), AttScript>,
    /// scenario id -> (nbg kinds, step kinds, retry budget)
    pub info: BTreeMap<usize, (Vec<Kind>, Vec<Kind>, Option<usize>)>,
}

fn gen_kind(rng: &mut Rng, p_bad: usize) -> Kind {
    if rng.chance(p_bad, 20) { *rng.pick(&[Kind::NoMatch, Kind::Amb]) } else { Kind::Run }
}

fn gen_pan(rng: &mut Rng) -> Pan {
    let k = rng.below(3);
    match rng.below(3) { 0 => Pan::Str(k), 1 => Pan::Lit(k), _ => Pan::Any(k) }
}

pub fn gen_run(rng: &mut Rng, max_scen: usize, allow_serial: bool) -> GenRun {
    let mut next = 0usize;
    let mut fresh = || { next += 1; next };
    let p_bad = *rng.pick(&[0usize, 2, 4]);
    let p_pan = *rng.pick(&[0usize, 2, 5]);
    let nfeat = rng.range(1, 2);
    let mut feats = vec![];
    let mut info = BTreeMap::new();
    let mut scripts = HashMap::new();
    let mut budget_left = max_scen;
    let gates = rng.below(3);
    for _ in 0..nfeat {
        let fid = fresh();
        let fbg: Vec<Kind> = (0..rng.below(3)).map(|_| gen_kind(rng, p_bad / 2)).collect();
        let mut mk_scens = |rng: &mut Rng, fresh: &mut dyn FnMut() -> usize, bg: &Vec<Kind>, n: usize,
                            info: &mut BTreeMap<usize, (Vec<Kind>, Vec<Kind>, Option<usize>)>| {
            (0..n).map(|_| {
                let id = fresh();
                let steps: Vec<Kind> = (0..rng.below(4)).map(|_| gen_kind(rng, p_bad)).collect();
                let budget = if rng.chance(1, 2) { Some(rng.below(3)) } else { None };
                let mut tags = vec![];
                if let Some(b) = budget { tags.push(format!("retry({b})")); }
                if allow_serial && rng.chance(1, 5) { tags.push("serial".to_owned()); }
                info.insert(id, (bg.clone(), steps.clone(), budget));
                RScen { id, tags, steps }
            }).collect::<Vec<_>>()
        };
        let ntop = rng.below(budget_left.min(3) + 1);
        budget_left -= ntop;
        let top = mk_scens(rng, &mut fresh, &fbg, ntop, &mut info);
        let mut rules = vec![];
        for _ in 0..rng.below(2) {
            let rid = fresh();
            let rbg: Vec<Kind> = (0..rng.below(2)).map(|_| gen_kind(rng, p_bad / 2)).collect();
            let all_bg: Vec<Kind> = fbg.iter().chain(&rbg).copied().collect();
            let n = rng.below(budget_left.min(2) + 1);
            budget_left -= n;
            rules.push(RRule { id: rid, tags: vec![], bg: rbg, scens: mk_scens(rng, &mut fresh, &all_bg, n, &mut info) });
        }
        feats.push(RFeat { id: fid, tags: vec![], bg: fbg, scens: top, rules });
    }
    // scripts
    for (id, (bg, steps, budget)) in &info {
        for att in 0..=budget.unwrap_or(0) {
            let mut sp = HashMap::new();
            for (i, k) in bg.iter().enumerate() {
                if *k == Kind::Run && rng.chance(p_pan, 30) { sp.insert((true, i), gen_pan(rng)); }
            }
            for (i, k) in steps.iter().enumerate() {
                if *k == Kind::Run && rng.chance(p_pan, 20) { sp.insert((false, i), gen_pan(rng)); }
            }
            let init = if rng.chance(p_pan, 40) {
                if rng.chance(1, 2) { Init::Err(rng.below(3)) } else { Init::Panic(gen_pan(rng)) }
            } else { Init::Ok };
            scripts.insert((format!("s-{id}"), att), AttScript {
                init,
                before: rng.chance(p_pan, 40).then(|| gen_pan(rng)),
                after: rng.chance(p_pan, 40).then(|| gen_pan(rng)),
                step_panics: sp,
                gates,
            });
        }
    }
    let cfg = RunCfg {
        has_before: rng.chance(1, 2),
        has_after: rng.chance(1, 2),
        builder_conc: match rng.below(4) { 0 => None, 1 => Some(None), _ => Some(Some(rng.range(1, 3))) },
        cli_conc: rng.chance(1, 4).then(|| rng.range(1, 3)),
        fifo_bias: *rng.pick(&[0usize, 0, 4, 8]),
        eager: rng.chance(1, 3),
        // a third of the runs go through the `Cucumber` builder (its `before` / `after` / `steps` … and `run`)
        via_cucumber: rng.chance(1, 3),
        ..RunCfg::default()
    };
    GenRun { feats, cfg, scripts, info }
}

pub fn eager_parser(feats: &[RFeat]) -> ScriptedParser {
    ScriptedParser {
        items: feats.iter().map(|f| (0usize, PItem::Feat(build_feature(f)))).collect::<VecDeque<_>>(),
        end_pendings: 0,
    }
}

fn show_out(k: Kind, pan: Option<&Pan>) -> String {
    match (k, pan) {
        (Kind::NoMatch, _) => "n".to_owned(),
        (Kind::Amb, _) => "a".to_owned(),
        (Kind::Run, Some(p)) => format!("x {}", p.id()),
        (Kind::Run, None) => "p".to_owned(),
    }
}

/// `RX A <feat> <rule> <scen> <ret> <kind...>` -> (scen, ret, wire scen-ev)
pub fn parse_rx_attempt_ev(l: &str) -> Option<(String, String, String)> {
    let rest = l.strip_prefix("RX A ")?;
    let t: Vec<&str> = rest.split(' ').collect();
    let scen = t[2].to_owned();
    let ret = t[3].to_owned();
    let kind = &t[4..];
    let wire = match kind[0] {
        "bg" => {
            let idx = kind[1].parse::<usize>().ok()? - RBG;
            format!("bg {idx} {}", kind[2..].join(" "))
        }
        "step" => {
            let idx = kind[1].parse::<usize>().ok()? - RST;
            format!("step {idx} {}", kind[2..].join(" "))
        }
        "log" => "log 0".to_owned(),
        _ => kind.join(" "),
    };
    Some((scen, ret, wire))
}

pub struct AttemptObs {
    pub scen: String,
    pub ret: String,
    pub att: usize,
    pub events: Vec<String>,
    pub calls: Vec<String>,
    pub wid: u64,
    pub failed: Option<bool>,
    pub retried: Option<bool>,
}

/// Splits a run log into per-attempt observations (in order of the attempt's first event).
pub fn attempts_of(log: &[String]) -> Vec<AttemptObs> {
    let mut out: Vec<AttemptObs> = vec![];
    let mut idx: HashMap<(String, usize), usize> = HashMap::new();
    // ScenarioId -> (scen, att) from GET2 lines
    let mut ids: HashMap<String, (String, usize)> = HashMap::new();
    for l in log {
        if let Some((scen, ret, wire)) = parse_rx_attempt_ev(l) {
            let att = ret.split('/').next().and_then(|x| x.parse().ok()).unwrap_or(0);
            let i = *idx.entry((scen.clone(), att)).or_insert_with(|| {
                out.push(AttemptObs { scen: scen.clone(), ret: ret.clone(), att, events: vec![], calls: vec![], wid: 0, failed: None, retried: None });
                out.len() - 1
            });
            if out[i].ret != ret {
                out[i].events.push(format!("!ret-changed {ret}"));
            }
            out[i].events.push(wire);
        }
    }
    for l in log {
        if let Some(rest) = l.strip_prefix("GET2 ") {
            if let Some(got) = rest.split(' ').find_map(|t| t.strip_prefix("got=[")) {
                for e in got.trim_end_matches(']').split(',').filter(|x| !x.is_empty()) {
                    let p: Vec<&str> = e.split(':').collect();
                    let att = p[2].split('/').next().and_then(|x| x.parse().ok()).unwrap_or(0);
                    ids.insert(p[0].to_owned(), (p[1].to_owned(), att));
                }
            }
        } else if let Some(rest) = l.strip_prefix("END ") {
            let kv: HashMap<&str, &str> = rest.split(' ').filter_map(|t| t.split_once('=')).collect();
            if let Some((scen, att)) = ids.get(kv["id"]) {
                if let Some(&i) = idx.get(&(scen.clone(), *att)) {
                    out[i].failed = Some(kv["failed"] == "1");
                    out[i].retried = Some(kv["retried"] == "1");
                }
            }
        } else if let Some(rest) = l.strip_prefix("CB ") {
            let t: Vec<&str> = rest.split(' ').collect();
            let (kind, scen, att) = (t[0], t[1].to_owned(), t[2].parse::<usize>().unwrap_or(0));
            let Some(&i) = idx.get(&(scen, att)) else { continue };
            let kv = |k: &str| t.iter().find_map(|x| x.strip_prefix(k)).unwrap_or("?").to_owned();
            match kind {
                "new" => out[i].calls.push(format!("new {}", match t[3] { "ok" => "ok".to_owned(), "err" => format!("err {}", t[4]), _ => format!("pan {}", t[4]) })),
                "newid" => out[i].wid = t[3].parse().unwrap_or(0),
                "before" => out[i].calls.push(format!("before {} {}", kv("w="), kv("seen="))),
                "step" => out[i].calls.push(format!("step {} {} {} {}", t[3], t[4], kv("w="), kv("seen="))),
                "after" => out[i].calls.push(format!("after {} {}", t[3], kv("w=").replace(':', " "))),
                _ => {}
            }
        }
    }
    out
}

pub fn attempt_request(g: &GenRun, a: &AttemptObs) -> String {
    let id: usize = a.scen.trim_start_matches("s-").parse().unwrap();
    let (bg, steps, _) = &g.info[&id];
    let sc = g.scripts.get(&(a.scen.clone(), a.att));
    let pan = |b: bool, i: usize| sc.and_then(|s| s.step_panics.get(&(b, i)));
    let init = match sc.map_or(Init::Ok, |s| s.init) {
        Init::Ok => "ok".to_owned(),
        Init::Err(k) => format!("err {k}"),
        Init::Panic(p) => format!("pan {}", p.id()),
    };
    let hk = |p: Option<Pan>| p.map_or_else(|| "ok".to_owned(), |p| format!("pan {}", p.id()));
    format!(
        "attempt.run {} {} {} {} {} {} {} {} {} {}",
        b(g.cfg.has_before), b(g.cfg.has_after), bg.len(), steps.len(), init,
        hk(sc.and_then(|s| s.before)), hk(sc.and_then(|s| s.after)),
        show_list(&bg.iter().enumerate().collect::<Vec<_>>(), |(i, k)| show_out(**k, pan(true, *i))),
        show_list(&steps.iter().enumerate().collect::<Vec<_>>(), |(i, k)| show_out(**k, pan(false, *i))),
        a.wid,
    )
}

pub fn attempt_impl_line(a: &AttemptObs) -> String {
    format!(
        "{} ; {} ; {}",
        show_list(&a.events, |e| e.clone()),
        show_list(&a.calls, |c| c.clone()),
        a.failed.map_or("?", |f| b(f)),
    )
}

thread_local! {
    pub static HOOK_CALLS: std::cell::Cell<usize> = const { std::cell::Cell::new(0) };
    pub static HOOK_QUIET: std::cell::Cell<bool> = const { std::cell::Cell::new(false) };
}

/// Installs the harness' counting panic hook (once per process).
pub fn install_counting_hook() {
    static ONCE: std::sync::Once = std::sync::Once::new();
    ONCE.call_once(force_install_counting_hook);
}

/// (re-)installs the counting hook unconditionally — needed after a run in which the runner itself
/// panicked and therefore never restored the hook it had taken
pub fn force_install_counting_hook() {
    std::panic::set_hook(Box::new(|info| {
        HOOK_CALLS.with(|c| c.set(c.get() + 1));
        if !HOOK_QUIET.with(std::cell::Cell::get) {
            eprintln!("HARNESS PANIC: {info}");
        }
    }));
}

/// Captures what the process writes to its standard error stream (file descriptor 2) — this is where the DEFAULT panic
/// hook prints. C10: while a run is in progress contained panics print nothing through the process panic hook; the
/// counting hook sees a hook the runner put back too early, the capture sees the default hook (installed by a
/// `take_hook()` that is not followed by a `set_hook`).
pub mod errcap {
    use std::{io::Write as _, os::fd::AsRawFd as _};
    unsafe extern "C" {
        fn dup(fd: i32) -> i32;
        fn dup2(a: i32, b: i32) -> i32;
        fn close(fd: i32) -> i32;
    }
    pub struct Cap { saved: i32, path: std::path::PathBuf }
    pub fn start() -> Option<Cap> {
        let path = std::env::temp_dir().join(format!("cvh-stderr-{}.txt", std::process::id()));
        let f = std::fs::File::create(&path).ok()?;
        let _ = std::io::stderr().flush();
        // SAFETY: plain POSIX descriptor duplication; `f` stays open until `dup2` has copied it onto fd 2
        let saved = unsafe { dup(2) };
        if saved < 0 { return None; }
        if unsafe { dup2(f.as_raw_fd(), 2) } < 0 { unsafe { close(saved) }; return None; }
        Some(Cap { saved, path })
    }
    impl Cap {
        pub fn finish(self) -> String {
            let _ = std::io::stderr().flush();
            // SAFETY: restores the descriptor saved by `start`
            unsafe { dup2(self.saved, 2); close(self.saved); }
            let text = std::fs::read_to_string(&self.path).unwrap_or_default();
            let _ = std::fs::remove_file(&self.path);
            if !text.is_empty() { eprint!("{text}"); }
            text
        }
    }
}

/// C10 run-level monitor observation: (hook calls during the run, hook calls for one probe panic
/// after the run, did the stream end with run-Finished)
pub fn run_with_hook_probe(
    cfg: &RunCfg, parser: ScriptedParser, scripts: HashMap<(String, usize), AttScript>, rng: &mut Rng,
) -> (RunOut, String) {
    install_counting_hook();
    HOOK_CALLS.with(|c| c.set(0));
    HOOK_QUIET.with(|q| q.set(true));
    let cap = errcap::start();
    let out = run(cfg, parser, scripts, rng);
    // panics printed by the default hook while the run was in progress
    let printed = cap.map_or(0, |c| c.finish().matches("panicked at").count());
    if out.panicked.is_some() {
        force_install_counting_hook();
    }
    let during = HOOK_CALLS.with(std::cell::Cell::get) + printed;
    let _ = std::panic::catch_unwind(|| panic!("probe"));
    let after = HOOK_CALLS.with(std::cell::Cell::get) - (during - printed);
    HOOK_QUIET.with(|q| q.set(false));
    let last_x = out.log.iter().rev().find(|l| l.starts_with("RX ")).is_some_and(|l| l == "RX X");
    let mon = format!("mon.c10 {during} {after} {}", b(out.ended && last_x));
    (out, mon)
}

pub fn gen_attempts(rng: &mut Rng, idx: usize) -> Case {
    let _ = idx;
    let g = gen_run(rng, 6, true);
    let (out, mon10) = run_with_hook_probe(&g.cfg, eager_parser(&g.feats), g.scripts.clone(), rng);
    let atts = attempts_of(&out.log);
    let mut req = vec![];
    let mut imp = vec![];
    for a in &atts {
        req.push(attempt_request(&g, a));
        imp.push(attempt_impl_line(a));
    }
    // run-level sanity of the harness itself
    if let Some(m) = &out.panicked {
        req.push("harness.ended".to_owned());
        imp.push(format!("!runner-panicked {}", hex(m)));
    } else if !out.ended || out.stuck {
        req.push("harness.ended".to_owned());
        imp.push(format!("!run-did-not-end polls={}", out.polls));
    }
    // C09 monitor: world ids per attempt are distinct across attempts
    let wids: Vec<String> = atts.iter().filter(|a| a.wid != 0).map(|a| a.wid.to_string()).collect();
    req.push(format!("mon.c09 {}", show_list(&wids, |w| w.clone())));
    imp.push("ok".to_owned());
    req.push(mon10);
    imp.push("ok".to_owned());
    let interleaved = {
        // did events of different attempts interleave in this run?
        let mut last: Option<(String, String)> = None;
        let mut closed: std::collections::HashSet<(String, String)> = Default::default();
        let mut inter = false;
        for l in &out.log {
            if let Some((s, r, w)) = parse_rx_attempt_ev(l) {
                let k = (s, r);
                if let Some(p) = &last { if *p != k && !closed.contains(p) { inter = true; } }
                if w == "fin" { closed.insert(k.clone()); }
                last = Some(k);
            }
        }
        inter
    };
    Case {
        req: req.join("\n"),
        imp: imp.join("\n"),
        class: format!("atts{}{}{}{}", atts.len().min(9), if g.cfg.has_before { "B" } else { "" }, if g.cfg.has_after { "A" } else { "" }, if interleaved { "/interleaved" } else { "" }),
        nontrivial: !atts.is_empty(),
    }
}
