import Cuke.Model.Writers
/-
  Model of the glue between a finished run and the process verdict:
  `Cucumber::filter_run_and_exit` (src/cucumber.rs). After `filter_run` returned the writer,
  `if writer.execution_has_failed() { panic!(msg) }` where `msg` lists the non-zero counters
  `failed_steps`, `parsing_errors`, `hook_errors` (in that order, joined by ", ").
-/
namespace Cuke

/-- `(n > 1).then_some("s").unwrap_or_default()` -/
def pluralS (n : Nat) : String := if n > 1 then "s" else ""

/-- the parts of the panic message, in program order -/
def exitParts (s : StatsVec) : List String :=
  (if s.failed > 0 then [s!"{s.failed} step{pluralS s.failed} failed"] else []) ++
  (if s.parsingErrors > 0 then [s!"{s.parsingErrors} parsing error{pluralS s.parsingErrors}"] else []) ++
  (if s.hookErrors > 0 then [s!"{s.hookErrors} hook error{pluralS s.hookErrors}"] else [])

/-- `filter_run_and_exit` after the run: `none` = returns normally (exit status 0),
    `some msg` = `panic!(msg)` (the test binary exits non-zero). -/
def exitOutcome (failed : Bool) (s : StatsVec) : Option String :=
  if failed then some (", ".intercalate (exitParts s)) else none

/-- the whole of `run_and_exit` for a pipeline `w` fed the run's events -/
def runAndExit (cat : Catalog) (w : W) (evs : List Ev) : Option String :=
  let st := (runW cat w evs).1
  exitOutcome (execFailed w st) (statsOf w st)

end Cuke
