import Cuke.Model.Sched
import Cuke.Model.RetryOpts
import Cuke.Model.Attempt
/-
  The scheduler as a labelled transition system whose labels are the lines of the run log
  (cfg-guarded probes of `src/runner/basic.rs` + harness observations, in program order).

  `accept` replays a log: labels that are ENVIRONMENT choices (parser delivery, which attempt
  progresses, clock readings, attempt verdicts) are inputs; labels that are IMPLEMENTATION decisions
  (queue order after an insert, what `get` returned, slot counter, bracket events, fail-fast trip,
  idle / exit decision, run-level events) must equal what the model computes. The acceptor is lenient:
  a differing decision is recorded as a disagreement of its class (Q queue discipline, K slot
  accounting, R retry decision, B brackets, FF fail-fast, I idle/exit/run-level, A attempt) and the
  model state then follows the implementation, so later labels are still judged.
-/
namespace Cuke

structure SScen where
  id : Nat
  tags : List String
  nsteps : Nat
  deriving Repr, DecidableEq

structure SRule where
  id : Nat
  tags : List String
  scens : List SScen
  deriving Repr, DecidableEq

structure SFeat where
  id : Nat
  tags : List String
  scens : List SScen
  rules : List SRule
  deriving Repr, DecidableEq

structure SCfg where
  /-- `none` = builder default (`Some(64)`), `some none` = unlimited -/
  builderConc : Option (Option Nat)
  cliConc : Option Nat
  builderFF : Bool
  cliFF : Bool
  builderRetries : Option Nat
  cliRetries : Option Nat
  builderAfter : Option Nat
  cliAfter : Option Nat
  customWhich : Bool
  durTable : List (String × Option Nat)
  feats : List SFeat
  /-- scenario id ↦ number of background steps it inherits (feature background ++ rule background) -/
  bgTable : List (Nat × Nat) := []

def SCfg.limit (c : SCfg) : Option Nat := c.cliConc.or (c.builderConc.getD (some 64))
def SCfg.failFast (c : SCfg) : Bool := c.cliFF || c.builderFF
def SCfg.dur (c : SCfg) : List Char → Option Nat := fun d =>
  match c.durTable.find? (fun e => e.1.toList == d) with
  | some (_, v) => v
  | none => none
def SCfg.retryCli (c : SCfg) : RetryCli :=
  { retry := c.cliRetries.or c.builderRetries, retryAfter := c.cliAfter.or c.builderAfter, filter := none }

def SFeat.countScenarios (f : SFeat) : Nat := f.scens.length + (f.rules.map (·.scens.length)).sum
def SFeat.countSteps (f : SFeat) : Nat :=
  (f.scens.map (·.nsteps)).sum + ((f.rules.flatMap (·.scens)).map (·.nsteps)).sum

def SCfg.feat? (c : SCfg) (f : Nat) : Option SFeat := c.feats.find? (fun x => x.id == f)
def SCfg.nFeat (c : SCfg) (f : Nat) : Nat := ((c.feat? f).map SFeat.countScenarios).getD 0
def SCfg.nRule (c : SCfg) (f r : Nat) : Nat :=
  match c.feat? f with
  | none => 0
  | some ft => ((ft.rules.find? (fun x => x.id == r)).map (·.scens.length)).getD 0

/-- `which_scenario`: default = a `serial` tag on scenario, rule or feature (custom: `xserial`) -/
def isSerial (c : SCfg) (scTags ruleTags featTags : List String) : Bool :=
  (scTags ++ ruleTags ++ featTags).any (fun t => t == (if c.customWhich then "xserial" else "serial"))

/-- the scenarios of a delivered feature in the order of `Features::insert`: top-level, then per rule -/
def featScenarios (f : SFeat) : List (Option SRule × SScen) :=
  f.scens.map (fun s => (none, s)) ++ f.rules.flatMap (fun r => r.scens.map (fun s => (some r, s)))

/-- queue entry as printed by the `INS` probe -/
structure QE where
  id : Nat
  scen : Nat
  ret : Option Retries
  after : Option (Nat × Option Nat)
  deriving Repr, DecidableEq

/-- what an entry must look like in the probe (everything but the id, which the implementation picks) -/
def Entry.shape (e : Entry) : Nat × Option Retries × Option (Nat × Option Nat) :=
  (e.key.scen, e.ret.map (·.retries), (e.ret.bind (·.after)).map (fun d => (d, e.t0)))
def QE.shape (e : QE) : Nat × Option Retries × Option (Nat × Option Nat) := (e.scen, e.ret, e.after)

inductive Label where
  | hookTake | hookRestore | exit
  | tx (e : Ev)
  | pOk (f : Nat) | pErr | pEnd | pPend | pWake | pFinish
  | ins (t : Nat) (serial conc : List QE)
  | get1 (t : Nat) (ask : Option Nat) (ns nc : Nat)
  | get2 (t : Nat) (slots : Slots) (got : List Nat) (sleep : Bool) (running : Nat)
  | idle (fin sleep : Bool)
  | idleContinue
  /-- the two suspension points of the idle branch: the yield, the end of the sleep for a retry delay -/
  | idleYield
  | idleSlept
  | disp (n : Nat) (slots : Slots)
  | cons (some : Bool)
  | notif (id : Nat) (failed retried : Bool)
  | brk
  | endA (id : Nat) (failed retried : Bool) (t : Nat)
  /-- an event received from the `Runner::run` stream -/
  | rx (e : Ev)
  /-- user code of attempt (scenario, current) entered / left, harness clock -/
  | cbIn (scen att t : Nat)
  | cbOut (scen att t : Nat)
  /-- the harness had to move the environment (open a gate, wake the parser, wait for a sleeper):
      the runner made no progress on its own -/
  | envMove
  /-- the harness is about to poll the runner's stream again (logged once per poll in which something happened) -/
  | poll
  /-- what the real `Summarize` said after the run's events went through it:
      `execution_has_failed`, failed steps, parsing errors, hook errors -/
  | verdict (failed : Bool) (failedSteps parseErrs hookErrs : Nat)
  | other
  deriving Repr, DecidableEq

inductive DClass where
  | Q | K | R | B | FF | I | A
  deriving Repr, DecidableEq

structure Dis where
  cls : DClass
  at_ : Nat
  msg : String
  deriving Repr

/-- expected run-level / bracket events: ordered items, or a group whose order is free (hash order) -/
inductive Exp where
  | one (e : Ev)
  | anyOf (es : List Ev)
  deriving Repr

/-- where `execute` is in its loop (program order of its decision labels) -/
inductive Phase where
  | init        -- before the panic hook is taken
  | loopTop     -- about to call `features.get`
  | afterGet1   -- inside `get`, before it returns
  | afterGet2   -- `get` returned: idle branch or dispatch
  | idle1       -- `is_finished` evaluated, not finished: must suspend
  | idle2       -- suspended (yield / sleep done): `continue`
  | selecting   -- batch dispatched: awaiting `run_scenarios.next()`
  | draining    -- draining completion notifications
  | exiting     -- loop left: finish_all, run-Finished, hook restore
  | exited
  deriving Repr, DecidableEq

structure SState where
  q : Queues := Queues.empty
  parserDone : Bool := false
  slots : Slots := .cont none
  /-- dispatched attempts whose `END` has not been seen -/
  running : List Entry := []
  /-- attempts that ended and whose future `run_scenarios.next()` has not yet returned -/
  endedUnconsumed : Nat := 0
  notifs : List (Nat × ScenKey × Bool × Bool) := []
  br : Brackets := Brackets.empty
  out : List Ev := []
  expect : List Exp := []
  cFeatures : Nat := 0
  cRules : Nat := 0
  cScenarios : Nat := 0
  cSteps : Nat := 0
  cErrors : Nat := 0
  /-- feature just delivered by the parser, its `INS` line is awaited -/
  pendingFeat : Option Nat := none
  /-- attempt that just sent Finished and may be re-inserted: (entry, id) -/
  lastGet1 : Option (Nat × Option Nat) := none
  batch : List Entry := []
  hookTaken : Bool := false
  exiting : Bool := false
  exited : Bool := false
  nextPE : Nat := 0
  tripDue : Bool := false
  /-- idle branch: (sleep hint reported, has `execute` suspended since) -/
  idleSleep : Bool := false
  idleSuspended : Bool := true
  /-- the stream returned Pending (a new poll began) since the idle branch was entered -/
  polledIdle : Bool := false
  parserStopped : Bool := false
  dis : List Dis := []
  pos : Nat := 0
  phase : Phase := .init

def SState.note (s : SState) (c : DClass) (m : String) : SState :=
  { s with dis := s.dis ++ [⟨c, s.pos, m⟩] }

def expEmpty (l : List Exp) : Bool := l.all (fun x => match x with | .anyOf [] => true | _ => false)

/-- consume an expected event; `none` if `e` is not what is expected next -/
def takeExp (e : Ev) : List Exp → Option (List Exp)
  | [] => none
  | .one x :: rest => if x == e then some rest else none
  | .anyOf [] :: rest => takeExp e rest
  | .anyOf es :: rest => if es.contains e then some (.anyOf (es.erase e) :: rest) else none

/-- program-order check: the label must arrive in one of the given phases -/
def SState.inPhase (s : SState) (ok : List Phase) (what : String) : SState :=
  if ok.contains s.phase then s else s.note .I s!"{what} in phase {repr s.phase}"

def SState.checkExpectDone (s : SState) (ctx : String) : SState :=
  if expEmpty s.expect then { s with expect := [] }
  else ({ s with expect := [] }).note .B s!"{ctx}: expected events were not sent: {repr s.expect}"

/-- entries `Features::insert` builds for a delivered feature (ids are filled in from the probe) -/
def newEntries (c : SCfg) (f : SFeat) : List Entry :=
  (featScenarios f).map (fun rs =>
    let ruleTags := rs.1.map (·.tags)
    let ro := parseFromTags c.dur c.retryCli rs.2.tags ruleTags f.tags
    { id := 0, key := { feat := f.id, rule := rs.1.map (·.id), scen := rs.2.id },
      serial := isSerial c rs.2.tags (ruleTags.getD []) f.tags, ret := ro, t0 := none })

/-- adopt the probe's ids for a model-computed queue with the same shapes -/
def adoptIds (model : List Entry) (probe : List QE) : List Entry :=
  (model.zip probe).map (fun p => { p.1 with id := p.2.id, t0 := (p.2.after.bind (·.2)) })

def sameShapes (model : List Entry) (probe : List QE) (ignoreT0 : Bool) : Bool :=
  model.length == probe.length &&
  (model.zip probe).all (fun p =>
    let a := p.1.shape; let b := p.2.shape
    a.1 == b.1 && a.2.1 == b.2.1 &&
    (if ignoreT0 then (a.2.2.map (·.1)) == (b.2.2.map (·.1)) else a.2.2 == b.2.2))

/-- rebuild an entry list from the probe alone (used when the model's queue disagrees: follow the implementation) -/
def entriesOfProbe (c : SCfg) (old : List Entry) (serial : Bool) (probe : List QE) : List Entry :=
  probe.map (fun p =>
    match old.find? (fun e => e.id == p.id) with
    | some e => e
    | none =>
      -- locate the scenario in the catalog
      let key : ScenKey := (c.feats.findSome? (fun f =>
        (featScenarios f).findSome? (fun rs => if rs.2.id == p.scen then some ({ feat := f.id, rule := rs.1.map (·.id), scen := p.scen } : ScenKey) else none))).getD ⟨0, none, p.scen⟩
      { id := p.id, key, serial, ret := p.ret.map (fun r => { retries := r, after := p.after.map (·.1) }), t0 := p.after.bind (·.2) })

/-- follow the implementation: take the queues as the probe shows them -/
def SState.followQueues (s : SState) (c : SCfg) (ps pc : List QE) : SState :=
  let old := s.q.serial ++ s.q.conc
  { s with q := { serial := entriesOfProbe c old true ps, conc := entriesOfProbe c old false pc } }

def findRunning (s : SState) (k : ScenKey) (ret : Option Retries) : Option Entry :=
  s.running.find? (fun e => e.key == k && e.ret.map (·.retries) == ret)

/-- one label -/
def stepL (c : SCfg) (s : SState) (l : Label) : SState :=
  let s := { s with pos := s.pos + 1 }
  match l with
  | .other => s
  | .verdict .. => s
  | .poll => if s.phase == .idle1 || s.phase == .idle2 then { s with polledIdle := true } else s
  | .rx _ => s
  -- user code (World::new, hooks, steps) runs inside the scenario futures, which are polled only while `execute`
  -- awaits a completion, and only for attempts dispatched and not yet ended
  | .cbIn sc att _ =>
    if s.phase == .selecting && s.running.any (fun e => e.key.scen == sc && ((e.ret.map (·.retries.current)).getD 0) == att) then s
    else s.note .K s!"user code of attempt ({sc},{att}) entered while it is not in flight / execute is not awaiting its scenarios"
  | .cbOut sc att _ =>
    if s.phase == .selecting && s.running.any (fun e => e.key.scen == sc && ((e.ret.map (·.retries.current)).getD 0) == att) then s
    else s.note .K s!"user code of attempt ({sc},{att}) left while it is not in flight / execute is not awaiting its scenarios"
  | .envMove =>
    -- work conservation: a completed attempt must be consumed (and its slot refilled) before the
    -- runner goes idle
    if s.endedUnconsumed > 0 && s.phase == .selecting then
      s.note .K s!"runner idle although {s.endedUnconsumed} finished scenario(s) were not consumed (free slot not refilled)"
    else s
  | .hookTake =>
    let s := s.inPhase [.init] "panic hook taken"
    { s with hookTaken := true, slots := .cont c.limit, expect := s.expect ++ [.one .started], phase := .loopTop }
  | .hookRestore =>
    let s := s.inPhase [.exiting] "panic hook restored"
    let s := s.checkExpectDone "before the hook is restored"
    let s := if s.hookTaken then s else s.note .I "hook restored without being taken"
    { s with hookTaken := false }
  | .exit =>
    let s := s.inPhase [.exiting] "exit"
    -- C10: the panic hook saved at the start is put back before `execute` returns
    let s := if s.hookTaken then s.note .I "execute returned with the panic hook still taken (not restored)" else s
    { s with exited := true, phase := .exited }
  | .tx e =>
    let s := { s with out := s.out ++ [e] }
    match e with
    | .scen k ret _ =>
      if (findRunning s k ret).isSome then s
      else s.note .A s!"scenario event of an attempt that is not running: {repr k} {repr ret}"
    | _ =>
      match takeExp e s.expect with
      | some rest => { s with expect := rest }
      | none => s.note (match e with | .featStarted _ | .featFinished _ | .ruleStarted _ _ | .ruleFinished _ _ => .B | _ => .I)
                  s!"unexpected event {repr e}; expected {repr s.expect}"
  | .pPend => s
  | .pWake =>
    if s.endedUnconsumed > 0 && s.phase == .selecting then
      s.note .K s!"runner idle although {s.endedUnconsumed} finished scenario(s) were not consumed (free slot not refilled)"
    else s
  | .pOk f =>
    let s := if s.parserStopped then s.note .FF "feature ingested after the parser loop should have stopped" else s
    match c.feat? f with
    | none => s.note .I s!"unknown feature {f}"
    | some ft =>
      { s with cFeatures := s.cFeatures + 1, cRules := s.cRules + ft.rules.length,
               cScenarios := s.cScenarios + ft.countScenarios, cSteps := s.cSteps + ft.countSteps,
               pendingFeat := some f }
  | .pErr =>
    let s := if s.parserStopped then s.note .FF "parser item consumed after the parser loop should have stopped" else s
    { s with cErrors := s.cErrors + 1, expect := s.expect ++ [.one (.parseErr s.nextPE)], nextPE := s.nextPE + 1,
             parserStopped := c.failFast }
  | .pEnd =>
    { s with expect := s.expect ++ [.one (.parsingFinished s.cFeatures s.cRules s.cScenarios s.cSteps s.cErrors)] }
  | .pFinish => { s with parserDone := true }
  | .ins t ps pc =>
    match s.pendingFeat with
    | some f =>
      -- insertion of a freshly parsed feature
      let ft := (c.feat? f).getD ⟨f, [], [], []⟩
      let es := newEntries c ft
      let q' := insertInitial s.q (es.filter (·.serial)) (es.filter (fun e => !e.serial))
      let ok := sameShapes q'.serial ps false && sameShapes q'.conc pc false
      let s := { s with pendingFeat := none }
      if ok then { s with q := { serial := adoptIds q'.serial ps, conc := adoptIds q'.conc pc } }
      else (s.note .Q s!"queue after inserting feature {f} differs: model serial={repr (q'.serial.map Entry.shape)} conc={repr (q'.conc.map Entry.shape)}").followQueues c ps pc
    | none =>
      -- re-insertion of a retried scenario: the new entry is the one whose id is not in the queues
      let known := (s.q.serial ++ s.q.conc).map (·.id)
      let fresh := (ps.map (fun p => (true, p)) ++ pc.map (fun p => (false, p))).filter (fun p => !known.contains p.2.id)
      match fresh with
      | [(ser, p)] =>
        -- the attempt being retried: same scenario, previous `current`
        match s.running.find? (fun e => e.key.scen == p.scen) with
        | none => (s.note .R s!"re-insertion of scenario {p.scen} which is not running").followQueues c ps pc
        | some e =>
          match (nextTry e.ret true).map (fun o => ({ e with id := p.id, ret := some o } : Entry)) with
          | none =>
            (s.note .R s!"scenario {p.scen} re-inserted although its retry budget is exhausted").followQueues c ps pc
          | some ne =>
            let q' := insertRetried s.q ne t
            let ok := sameShapes q'.serial ps false && sameShapes q'.conc pc false && ser == e.serial
            if ok then { s with q := { serial := adoptIds q'.serial ps, conc := adoptIds q'.conc pc } }
            else (s.note .Q s!"queue after re-inserting scenario {p.scen} differs: model serial={repr (q'.serial.map Entry.shape)} conc={repr (q'.conc.map Entry.shape)}").followQueues c ps pc
      | _ => (s.note .Q s!"INS without a pending feature and not a single new entry").followQueues c ps pc
  | .get1 t ask ns nc =>
    let s := s.inPhase [.loopTop, .draining] "features.get called"
    -- every completion notification pending at this point was sent before `run_scenarios.next()` returned, and the
    -- drain loop runs until the channel is empty: none may be left (a late one would trip fail-fast / close a bracket late)
    let s := if s.notifs.isEmpty then s else s.note .FF s!"features.get called while {s.notifs.length} completion notification(s) are still undrained"
    let s := if s.tripDue then { (s.note .FF "final failure drained under fail-fast but the runner did not stop dispatching") with tripDue := false } else s
    let s := { s with phase := .afterGet1 }
    let s := if ask == s.slots.ask then s else s.note .K s!"get asked with {repr ask}, model slots {repr s.slots}"
    let s := if ns == s.q.serial.length && nc == s.q.conc.length then s
             else s.note .Q s!"queue sizes {ns}/{nc} differ from model {s.q.serial.length}/{s.q.conc.length}"
    { s with lastGet1 := some (t, ask) }
  | .get2 t2 slots got sleep running =>
    -- `get(Some(0))` returns before touching the queues (no GET1 probe)
    let s := if s.slots.ask == some 0 && (s.phase == .loopTop || s.phase == .draining) then
        (if s.tripDue then { (s.note .FF "final failure drained under fail-fast but the runner did not stop dispatching") with tripDue := false } else s)
      else s.inPhase [.afterGet1] "features.get returned"
    let s := { s with phase := .afterGet2 }
    let s := s.checkExpectDone "at loop top"
    let s := if slots == s.slots then s else { (s.note .K s!"slots {repr slots}, model {repr s.slots}") with slots := slots }
    let s := if running == s.running.length + s.endedUnconsumed then s
             else s.note .K s!"run_scenarios.len() = {running}, model {s.running.length + s.endedUnconsumed}"
    let t1 := (s.lastGet1.map (·.1)).getD t2
    -- readiness: definite when both clock readings agree, otherwise what the implementation did
    let ready : Entry → Bool := fun e =>
      let r1 := e.ready t1; let r2 := e.ready t2
      if r1 == r2 then r1 else got.contains e.id
    let r := getBatch ready s.slots.ask s.q
    let gotIds := r.1.map (·.id)
    if gotIds == got then
      let s := if sleep == r.2.2 then s else s.note .Q s!"sleep hint {sleep}, model {r.2.2}"
      let st := startScenarios s.br r.1
      { s with q := r.2.1, batch := r.1, lastGet1 := none, br := st.1, expect := s.expect ++ st.2.map Exp.one }
    else
      let all := s.q.serial ++ s.q.conc
      let batch := got.filterMap (fun i => all.find? (fun e => e.id == i))
      let s := s.note .Q s!"get returned {repr got}, model {repr gotIds} (queues serial={repr (s.q.serial.map (·.id))} conc={repr (s.q.conc.map (·.id))})"
      let st := startScenarios s.br batch
      { s with q := { serial := s.q.serial.filter (fun e => !got.contains e.id), conc := s.q.conc.filter (fun e => !got.contains e.id) },
               batch := batch, lastGet1 := none, br := st.1, expect := s.expect ++ st.2.map Exp.one }
  | .idle fin sleep =>
    let s := s.inPhase [.afterGet2] "idle branch"
    let s := { s with phase := if fin then .exiting else .idle1 }
    let s := if s.running.isEmpty && s.endedUnconsumed == 0 && s.batch.isEmpty then s
             else s.note .I "idle branch taken although something is running or runnable"
    let mfin := isFinished s.parserDone s.slots.isBrk s.q
    let s := if fin == mfin then s else s.note .I s!"is_finished = {fin}, model {mfin}"
    let s := { s with idleSleep := sleep, idleSuspended := false, polledIdle := false }
    if fin then
      let fa := finishAll s.br
      { s with exiting := true, br := Brackets.empty,
               expect := s.expect ++ [.anyOf fa.1, .anyOf fa.2, .one .finished] }
    else s
  | .idleYield =>
    let s := s.inPhase [.idle1] "idle yield"
    let s := { s with phase := .idle2 }
    let s := if s.idleSleep then s.note .I "yielded although there is a retry delay to sleep on" else s
    { s with idleSuspended := true }
  | .idleSlept =>
    let s := s.inPhase [.idle1] "idle sleep"
    let s := { s with phase := .idle2 }
    let s := if s.idleSleep then s else s.note .I "slept although no retry delay was reported"
    { s with idleSuspended := true }
  | .idleContinue =>
    let s := s.inPhase [.idle1, .idle2] "idle continue"
    -- C04: an idle `execute` must give the parser / the clock a chance before looping again
    let s := if s.idleSuspended then s
      else { (s.note .I "execute re-enters its loop from the idle branch without having suspended (busy spin)") with idleSuspended := true }
    -- C04: the wait must really SUSPEND `execute` (the stream returns Pending and is polled again), so that
    -- the parser side gets polled; a blocking sleep / a yield that does not yield starves it
    let s := if s.polledIdle then s
      else s.note .I "the idle wait completed without the stream ever returning Pending (blocking wait: the parser side is starved)"
    { s with phase := .loopTop }
  | .disp n slots =>
    -- the start events (expected since GET2) must have been sent by now; dispatch the batch
    let s := s.inPhase [.afterGet2] "dispatch"
    let s := s.checkExpectDone "at dispatch"
    let s := { s with phase := .selecting }
    let s := if n == s.batch.length then s else s.note .K s!"dispatched {n}, batch {s.batch.length}"
    let ms := s.slots.onDispatch s.batch.length
    let s := if slots == ms then s else s.note .K s!"slots after dispatch {repr slots}, model {repr ms}"
    { s with slots := slots, running := s.running ++ s.batch, batch := [] }
  | .cons got =>
    let s := s.inPhase [.selecting] "completion consumed"
    let s := { s with phase := .draining }
    if got then
      let s := if s.endedUnconsumed > 0 then { s with endedUnconsumed := s.endedUnconsumed - 1 }
               else s.note .K "a finished scenario was consumed but none had ended"
      { s with slots := s.slots.onConsume }
    else
      -- `run_scenarios` is never empty at the select (either the batch or what is already in flight), and
      -- `forward_logs` never completes: `next()` cannot yield `None` here
      s.note .K "run_scenarios.next() yielded None (the set of running scenarios cannot be empty at the select)"
  | .endA id failed retried t =>
    match s.running.find? (fun e => e.id == id) with
    | none => s.note .A s!"END of an attempt that is not running: {id}"
    | some e =>
      let mret := (nextTry e.ret failed).isSome
      let s := if retried == mret then s else s.note .R s!"attempt {id} of scenario {e.key.scen}: retried = {retried}, model {mret} (failed = {failed}, retries = {repr (e.ret.map (·.retries))})"
      let _ := t
      { s with running := s.running.eraseP (fun x => x.id == id), endedUnconsumed := s.endedUnconsumed + 1,
               notifs := s.notifs ++ [(id, e.key, failed, retried)] }
  | .notif id failed retried =>
    let s := s.inPhase [.draining] "notification drained"
    match s.notifs with
    | [] => s.note .B s!"notification {id} drained but none pending"
    | (nid, k, f, r) :: rest =>
      -- `!s.tripDue`: `if fail_fast && failed && !retried { Break }` follows the bookkeeping of the SAME notification,
      -- so no notification is taken while a trip is due
      let s := if nid == id && f == failed && r == retried && !s.tripDue then s
               else s.note .B s!"notification {id} {failed} {retried} drained, model expected {nid} {f} {r} (trip due before it: {s.tripDue})"
      let s := s.checkExpectDone "before a notification"
      let s := { s with notifs := rest }
      let s :=
        match scenarioFinished s.br k retried (c.nRule k.feat (k.rule.getD 0)) (c.nFeat k.feat) with
        | none => s.note .B s!"model: no bracket entry for {repr k} (the implementation would panic)"
        | some (br, evs) => { s with br := br, expect := s.expect ++ evs.map Exp.one }
      { s with tripDue := tripFailFast c.failFast failed retried }
  | .brk =>
    let s := s.inPhase [.draining] "fail-fast trip"
    let s := if s.tripDue then s else s.note .FF "fail-fast tripped although no final failure was just drained"
    { s with slots := .brk, tripDue := false }

/-- replay a whole log -/
def accept (c : SCfg) (ls : List Label) : SState := ls.foldl (stepL c) {}

/-- end-of-run obligations of the acceptor -/
def finalChecks (s : SState) : SState :=
  let s := s.checkExpectDone "at end of log"
  let s := if s.exited then s else s.note .I "execute did not reach its end (no EXIT)"
  let s := if s.hookTaken then s.note .I "panic hook still taken at the end" else s
  let s := if s.running.isEmpty then s else s.note .A s!"attempts still running at the end: {repr (s.running.map (·.id))}"
  s

end Cuke
