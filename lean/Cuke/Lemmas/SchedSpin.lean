import Cuke.Lemmas.SchedExit
/-!
  C04 / C10, two facts about WHOLE runs of the scheduler acceptor (every log replayed without a disagreement):

  * **no spinning** (C04): the loop of `execute` cannot go round without either doing work or handing control back to
    the executor. Counting labels of the log: every iteration (`GET2`) beyond the first is paid for by an
    `IDLE continue` or by a consumed completion (`CONS`); every `IDLE continue` is paid for by a poll boundary that was
    crossed while `execute` sat in its idle branch (the stream returned `Pending`, so `join` polled the parser side);
    every consumed completion is paid for by an attempt that ended. Hence
    `#iterations ≤ 1 + #polls + #ended attempts` — and the number of attempts is bounded before the run starts
    (`lts_total_attempts_bounded`).

  * **the panic hook window** (C10): while anything is in flight (dispatched, or handed out by `get`) the process
    panic hook is the silent one installed at the start of `execute`; it is put back before `execute` returns.
-/
namespace Cuke.SchedSpin
open Cuke List Cuke.SchedL Cuke.SchedInv Cuke.SchedOrd Cuke.SchedCons

set_option linter.unusedSimpArgs false
set_option linter.unusedVariables false

/-- label counts of a log prefix: iterations (`GET2`), idle continues, consumed completions, polls, attempt ends -/
structure Cnt where
  g : Nat := 0
  c : Nat := 0
  k : Nat := 0
  p : Nat := 0
  e : Nat := 0
  deriving Repr, DecidableEq

def cstep (n : Cnt) : Label → Cnt
  | .get2 .. => { n with g := n.g + 1 }
  | .idleContinue => { n with c := n.c + 1 }
  | .cons _ => { n with k := n.k + 1 }
  | .poll => { n with p := n.p + 1 }
  | .endA .. => { n with e := n.e + 1 }
  | _ => n

def count (ls : List Label) : Cnt := ls.foldl cstep {}

/-- an iteration has begun (`GET2` seen) and was not yet paid for -/
def slack : Phase → Nat
  | .init | .loopTop | .afterGet1 | .draining => 0
  | _ => 1

def inIdle (s : SState) : Bool := s.phase == .idle1 || s.phase == .idle2

/-- `execute` is inside its loop -/
def loopPhase (p : Phase) : Bool := p != .init && p != .exiting && p != .exited

structure SInv (s : SState) (n : Cnt) : Prop where
  a : n.g ≤ n.c + n.k + slack s.phase
  b : n.c + (if s.polledIdle && inIdle s then 1 else 0) ≤ n.p
  c : n.k + s.endedUnconsumed = n.e
  h0 : s.phase = .init → s.hookTaken = false ∧ s.running = [] ∧ s.batch = []
  h1 : loopPhase s.phase = true → s.hookTaken = true
  h2 : s.phase = .exiting ∨ s.phase = .exited → s.running = [] ∧ s.batch = []
  h3 : s.phase = .exited → s.hookTaken = false

theorem sinv_init : SInv ({} : SState) ({} : Cnt) := by
  refine ⟨by simp [slack], by simp [inIdle], by simp, ?_, ?_, ?_, ?_⟩ <;> simp [loopPhase]

/-- the fields the two arguments look at -/
structure V where
  phase : Phase
  polled : Bool
  ended : Nat
  hook : Bool
  running : List Entry
  batch : List Entry

def vw (s : SState) : V := ⟨s.phase, s.polledIdle, s.endedUnconsumed, s.hookTaken, s.running, s.batch⟩

syntax "vw_simp" : tactic
macro_rules
  | `(tactic| vw_simp) => `(tactic|
      (simp only [stepL, vw]
       repeat' split
       all_goals (simp [SState.note, SState.inPhase, SState.checkExpectDone, SState.followQueues] <;>
              (repeat' split) <;> simp [SState.note])))

theorem vw_tx (c : SCfg) (s : SState) (e : Ev) : vw (stepL c s (.tx e)) = vw s := by vw_simp
theorem vw_rx (c : SCfg) (s : SState) (e : Ev) : vw (stepL c s (.rx e)) = vw s := by vw_simp
theorem vw_other (c : SCfg) (s : SState) : vw (stepL c s .other) = vw s := by vw_simp
theorem vw_cbIn (c : SCfg) (s : SState) (a b t : Nat) : vw (stepL c s (.cbIn a b t)) = vw s := by vw_simp
theorem vw_cbOut (c : SCfg) (s : SState) (a b t : Nat) : vw (stepL c s (.cbOut a b t)) = vw s := by vw_simp
theorem vw_env (c : SCfg) (s : SState) : vw (stepL c s .envMove) = vw s := by vw_simp
theorem vw_pPend (c : SCfg) (s : SState) : vw (stepL c s .pPend) = vw s := by vw_simp
theorem vw_pWake (c : SCfg) (s : SState) : vw (stepL c s .pWake) = vw s := by vw_simp
theorem vw_pOk (c : SCfg) (s : SState) (f : Nat) : vw (stepL c s (.pOk f)) = vw s := by vw_simp
theorem vw_pErr (c : SCfg) (s : SState) : vw (stepL c s .pErr) = vw s := by vw_simp
theorem vw_pEnd (c : SCfg) (s : SState) : vw (stepL c s .pEnd) = vw s := by vw_simp
theorem vw_pFinish (c : SCfg) (s : SState) : vw (stepL c s .pFinish) = vw s := by vw_simp
theorem vw_ins (c : SCfg) (s : SState) (t : Nat) (a b : List QE) : vw (stepL c s (.ins t a b)) = vw s := by vw_simp
theorem vw_verdict (c : SCfg) (s : SState) (b : Bool) (x y z : Nat) : vw (stepL c s (.verdict b x y z)) = vw s := by vw_simp

theorem vw_hookTake (c : SCfg) (s : SState) (hs : s.dis = []) (hc : (stepL c s .hookTake).dis = []) :
    s.phase = .init ∧ vw (stepL c s .hookTake) = { vw s with phase := .loopTop, hook := true } := by
  cases hp : s.phase <;> simp [stepL, SState.inPhase, SState.note, hp, hs, vw] at hc ⊢

theorem vw_poll (c : SCfg) (s : SState) :
    vw (stepL c s .poll) = { vw s with polled := if inIdle s then true else s.polledIdle } := by
  simp only [stepL, vw, inIdle]; split <;> simp_all

theorem vw_hookRestore (c : SCfg) (s : SState) (hs : s.dis = []) (hc : (stepL c s .hookRestore).dis = []) :
    s.phase = .exiting ∧ vw (stepL c s .hookRestore) = { vw s with hook := false } := by
  cases hp : s.phase <;> cases he : expEmpty s.expect <;> cases hh : s.hookTaken <;>
    simp [stepL, SState.inPhase, SState.note, SState.checkExpectDone, hp, he, hh, hs, vw] at hc ⊢

theorem vw_exit (c : SCfg) (s : SState) (hs : s.dis = []) (hc : (stepL c s .exit).dis = []) :
    s.phase = .exiting ∧ s.hookTaken = false ∧ vw (stepL c s .exit) = { vw s with phase := .exited } := by
  cases hp : s.phase <;> cases hh : s.hookTaken <;>
    simp [stepL, SState.inPhase, SState.note, hp, hh, hs, vw] at hc ⊢

theorem vw_get1 (c : SCfg) (s : SState) (t : Nat) (ask : Option Nat) (ns nc : Nat) (hs : s.dis = [])
    (hc : (stepL c s (.get1 t ask ns nc)).dis = []) :
    (s.phase = .loopTop ∨ s.phase = .draining) ∧ vw (stepL c s (.get1 t ask ns nc)) = { vw s with phase := .afterGet1 } := by
  cases hp : s.phase <;> cases ht : s.tripDue <;> cases h1 : (ask == s.slots.ask) <;>
    cases h2 : (ns == s.q.serial.length && nc == s.q.conc.length) <;> cases h3 : s.notifs.isEmpty <;>
    simp [stepL, SState.inPhase, SState.note, hp, ht, h1, h2, h3, hs, vw] at hc ⊢

theorem vw_idleYield (c : SCfg) (s : SState) (hs : s.dis = []) (hc : (stepL c s .idleYield).dis = []) :
    s.phase = .idle1 ∧ vw (stepL c s .idleYield) = { vw s with phase := .idle2 } := by
  cases hp : s.phase <;> cases hi : s.idleSleep <;>
    simp [stepL, SState.inPhase, SState.note, hp, hi, hs, vw] at hc ⊢

theorem vw_idleSlept (c : SCfg) (s : SState) (hs : s.dis = []) (hc : (stepL c s .idleSlept).dis = []) :
    s.phase = .idle1 ∧ vw (stepL c s .idleSlept) = { vw s with phase := .idle2 } := by
  cases hp : s.phase <;> cases hi : s.idleSleep <;>
    simp [stepL, SState.inPhase, SState.note, hp, hi, hs, vw] at hc ⊢

theorem vw_idleContinue (c : SCfg) (s : SState) (hs : s.dis = []) (hc : (stepL c s .idleContinue).dis = []) :
    (s.phase = .idle1 ∨ s.phase = .idle2) ∧ s.polledIdle = true ∧
      vw (stepL c s .idleContinue) = { vw s with phase := .loopTop } := by
  cases hp : s.phase <;> cases hq : s.polledIdle <;> cases hi : s.idleSuspended <;>
    simp [stepL, SState.inPhase, SState.note, hp, hq, hi, hs, vw] at hc ⊢

theorem vw_brk (c : SCfg) (s : SState) (hs : s.dis = []) (hc : (stepL c s .brk).dis = []) :
    s.phase = .draining ∧ (vw (stepL c s .brk)) = vw s := by
  cases hp : s.phase <;> cases ht : s.tripDue <;>
    simp [stepL, SState.inPhase, SState.note, hp, ht, hs, vw] at hc ⊢

theorem vw_idle (c : SCfg) (s : SState) (fin sl : Bool) (hs : s.dis = []) (hc : (stepL c s (.idle fin sl)).dis = []) :
    s.phase = .afterGet2 ∧ s.running = [] ∧ s.endedUnconsumed = 0 ∧ s.batch = [] ∧
      vw (stepL c s (.idle fin sl)) = { vw s with phase := if fin then .exiting else .idle1, polled := false } := by
  cases hp : s.phase <;> cases fin <;>
    cases h1 : (s.running.isEmpty && s.endedUnconsumed == 0 && s.batch.isEmpty) <;>
    cases h2 : (isFinished s.parserDone s.slots.isBrk s.q) <;>
    simp [stepL, SState.inPhase, SState.note, hp, h1, h2, hs, vw] at hc ⊢ <;>
    simp_all [List.isEmpty_iff]

theorem vw_cons (c : SCfg) (s : SState) (got : Bool) (hs : s.dis = []) (hc : (stepL c s (.cons got)).dis = []) :
    s.phase = .selecting ∧ 0 < s.endedUnconsumed ∧
      vw (stepL c s (.cons got)) = { vw s with phase := .draining, ended := s.endedUnconsumed - 1 } := by
  cases hp : s.phase <;> cases got <;> cases h1 : (decide (s.endedUnconsumed > 0)) <;>
    simp [stepL, SState.inPhase, SState.note, hp, hs, vw] at hc ⊢ <;> simp_all

theorem vw_notif (c : SCfg) (s : SState) (id : Nat) (f r : Bool) : vw (stepL c s (.notif id f r)) = vw s := by vw_simp

theorem vw_endA (c : SCfg) (s : SState) (id : Nat) (f r : Bool) (t : Nat) (hs : s.dis = [])
    (hc : (stepL c s (.endA id f r t)).dis = []) :
    vw (stepL c s (.endA id f r t)) =
      { vw s with running := s.running.eraseP (fun x => x.id == id), ended := s.endedUnconsumed + 1 } := by
  rw [endA_eq] at hc ⊢
  unfold endR at hc ⊢
  cases hf : s.running.find? (fun e => e.id == id) with
  | none => simp [hf, SState.note, hs] at hc
  | some e =>
    cases hm : (r == (nextTry e.ret f).isSome) <;> simp [hf, hm, SState.note, hs, vw] at hc ⊢

theorem vw_disp (c : SCfg) (s : SState) (n : Nat) (sl : Slots) (hs : s.dis = [])
    (hc : (stepL c s (.disp n sl)).dis = []) :
    s.phase = .afterGet2 ∧
      vw (stepL c s (.disp n sl)) = { vw s with phase := .selecting, running := s.running ++ s.batch, batch := [] } := by
  rw [disp_eq] at hc ⊢
  unfold dispR disp5 disp4 disp3 disp1 chk at hc ⊢
  cases hp : s.phase <;> cases he : expEmpty s.expect <;> cases h1 : (n == s.batch.length) <;>
    cases h2 : (sl == s.slots.onDispatch s.batch.length) <;>
    simp [SState.inPhase, SState.checkExpectDone, SState.note, hp, he, h1, h2, hs, vw] at hc ⊢

theorem get2a_fields (s : SState) :
    (get2a s).polledIdle = s.polledIdle ∧ (get2a s).endedUnconsumed = s.endedUnconsumed ∧
    (get2a s).hookTaken = s.hookTaken ∧ (get2a s).running = s.running := by
  unfold get2a
  simp only
  split
  · split <;> simp [SState.note]
  · simp [SState.inPhase]; split <;> simp [SState.note]

theorem get2_fields (c : SCfg) (s : SState) (t2 : Nat) (slots : Slots) (got : List Nat) (sleep : Bool) (running : Nat) :
    (get2R s t2 slots got sleep running).phase = .afterGet2 ∧
    (get2R s t2 slots got sleep running).polledIdle = s.polledIdle ∧
    (get2R s t2 slots got sleep running).endedUnconsumed = s.endedUnconsumed ∧
    (get2R s t2 slots got sleep running).hookTaken = s.hookTaken ∧
    (get2R s t2 slots got sleep running).running = s.running := by
  have ha := get2a_fields s
  have hcf : (get2c s).phase = .afterGet2 ∧ (get2c s).polledIdle = s.polledIdle ∧ (get2c s).endedUnconsumed = s.endedUnconsumed ∧
      (get2c s).hookTaken = s.hookTaken ∧ (get2c s).running = s.running := by
    unfold get2c SState.checkExpectDone
    split <;> simp [SState.note, ha]
  have hd : (get2d s slots).phase = .afterGet2 ∧ (get2d s slots).polledIdle = s.polledIdle ∧
      (get2d s slots).endedUnconsumed = s.endedUnconsumed ∧
      (get2d s slots).hookTaken = s.hookTaken ∧ (get2d s slots).running = s.running := by
    unfold get2d
    split
    · exact hcf
    · simp [SState.note, hcf]
  have he : (get2e s slots running).phase = .afterGet2 ∧ (get2e s slots running).polledIdle = s.polledIdle ∧
      (get2e s slots running).endedUnconsumed = s.endedUnconsumed ∧
      (get2e s slots running).hookTaken = s.hookTaken ∧ (get2e s slots running).running = s.running := by
    unfold get2e
    split
    · exact hd
    · simp [SState.note, hd]
  unfold get2R
  simp only
  split
  · split <;> simp [SState.note, he]
  · simp [SState.note, he]

theorem get2_phase (c : SCfg) (s : SState) (t2 : Nat) (slots : Slots) (got : List Nat) (sleep : Bool) (running : Nat)
    (hs : s.dis = []) (hc : (stepL c s (.get2 t2 slots got sleep running)).dis = []) :
    s.phase = .afterGet1 ∨ s.phase = .loopTop ∨ s.phase = .draining := by
  rw [get2_eq] at hc
  have hpre := SchedSerial.get2_chain s t2 slots got sleep running
  rw [hc] at hpre
  have ha : (get2a s).dis = [] := List.prefix_nil.mp hpre
  cases hp : s.phase <;> simp [get2a, SState.inPhase, SState.note, hp, hs] at ha ⊢

theorem sinv_of_vw (s s' : SState) (n : Cnt) (h : SInv s n) (hv : vw s' = vw s) : SInv s' n := by
  have e1 : s'.phase = s.phase := congrArg V.phase hv
  have e2 : s'.polledIdle = s.polledIdle := congrArg V.polled hv
  have e3 : s'.endedUnconsumed = s.endedUnconsumed := congrArg V.ended hv
  have e4 : s'.hookTaken = s.hookTaken := congrArg V.hook hv
  have e5 : s'.running = s.running := congrArg V.running hv
  have e6 : s'.batch = s.batch := congrArg V.batch hv
  exact ⟨by rw [e1]; exact h.a, by simp only [inIdle, e1, e2]; exact h.b, by rw [e3]; exact h.c,
    by rw [e1, e4, e5, e6]; exact h.h0, by rw [e1, e4]; exact h.h1, by rw [e1, e5, e6]; exact h.h2,
    by rw [e1, e4]; exact h.h3⟩

/-- **one step**: the counting and the hook-window invariants survive every label that is replayed without a
    disagreement -/
theorem sinv_step (c : SCfg) (s : SState) (l : Label) (n : Cnt) (h : SInv s n)
    (hc : Clean0 (stepL c s l) = true) : SInv (stepL c s l) (cstep n l) := by
  have hs0 : Clean0 s = true := clean0_step_mono c s l hc
  have hs : s.dis = [] := by simpa [Clean0] using hs0
  have hd : (stepL c s l).dis = [] := by simpa [Clean0] using hc
  obtain ⟨ha, hb, hk, h0, h1, h2, h3⟩ := h
  have hbC : n.c ≤ n.p := Nat.le_trans (Nat.le_add_right _ _) hb
  cases l with
  | tx e => exact sinv_of_vw s _ n ⟨ha, hb, hk, h0, h1, h2, h3⟩ (vw_tx c s e)
  | rx e => exact sinv_of_vw s _ n ⟨ha, hb, hk, h0, h1, h2, h3⟩ (vw_rx c s e)
  | other => exact sinv_of_vw s _ n ⟨ha, hb, hk, h0, h1, h2, h3⟩ (vw_other c s)
  | cbIn a b t => exact sinv_of_vw s _ n ⟨ha, hb, hk, h0, h1, h2, h3⟩ (vw_cbIn c s a b t)
  | cbOut a b t => exact sinv_of_vw s _ n ⟨ha, hb, hk, h0, h1, h2, h3⟩ (vw_cbOut c s a b t)
  | envMove => exact sinv_of_vw s _ n ⟨ha, hb, hk, h0, h1, h2, h3⟩ (vw_env c s)
  | pPend => exact sinv_of_vw s _ n ⟨ha, hb, hk, h0, h1, h2, h3⟩ (vw_pPend c s)
  | pWake => exact sinv_of_vw s _ n ⟨ha, hb, hk, h0, h1, h2, h3⟩ (vw_pWake c s)
  | pOk f => exact sinv_of_vw s _ n ⟨ha, hb, hk, h0, h1, h2, h3⟩ (vw_pOk c s f)
  | pErr => exact sinv_of_vw s _ n ⟨ha, hb, hk, h0, h1, h2, h3⟩ (vw_pErr c s)
  | pEnd => exact sinv_of_vw s _ n ⟨ha, hb, hk, h0, h1, h2, h3⟩ (vw_pEnd c s)
  | pFinish => exact sinv_of_vw s _ n ⟨ha, hb, hk, h0, h1, h2, h3⟩ (vw_pFinish c s)
  | ins t a b => exact sinv_of_vw s _ n ⟨ha, hb, hk, h0, h1, h2, h3⟩ (vw_ins c s t a b)
  | verdict b x y z => exact sinv_of_vw s _ n ⟨ha, hb, hk, h0, h1, h2, h3⟩ (vw_verdict c s b x y z)
  | notif id f r => exact sinv_of_vw s _ n ⟨ha, hb, hk, h0, h1, h2, h3⟩ (vw_notif c s id f r)
  | brk => exact sinv_of_vw s _ n ⟨ha, hb, hk, h0, h1, h2, h3⟩ (vw_brk c s hs hd).2
  | poll =>
    have hv := vw_poll c s
    have e1 : (stepL c s .poll).phase = s.phase := congrArg V.phase hv
    have e2 : (stepL c s .poll).polledIdle = if inIdle s then true else s.polledIdle := congrArg V.polled hv
    have e3 : (stepL c s .poll).endedUnconsumed = s.endedUnconsumed := congrArg V.ended hv
    have e4 : (stepL c s .poll).hookTaken = s.hookTaken := congrArg V.hook hv
    have e5 : (stepL c s .poll).running = s.running := congrArg V.running hv
    have e6 : (stepL c s .poll).batch = s.batch := congrArg V.batch hv
    refine ⟨by rw [e1]; exact ha, ?_, by rw [e3]; exact hk, by rw [e1, e4, e5, e6]; exact h0, by rw [e1, e4]; exact h1,
      by rw [e1, e5, e6]; exact h2, by rw [e1, e4]; exact h3⟩
    have : inIdle (stepL c s .poll) = inIdle s := by simp only [inIdle, e1]
    rw [this, e2]
    show n.c + _ ≤ n.p + 1
    cases hi : inIdle s <;> cases hq : s.polledIdle <;> simp [hi, hq] at hb ⊢ <;> omega
  | hookTake =>
    obtain ⟨hp, hv⟩ := vw_hookTake c s hs hd
    have e1 : (stepL c s .hookTake).phase = .loopTop := congrArg V.phase hv
    have e2 : (stepL c s .hookTake).polledIdle = s.polledIdle := congrArg V.polled hv
    have e3 : (stepL c s .hookTake).endedUnconsumed = s.endedUnconsumed := congrArg V.ended hv
    have e4 : (stepL c s .hookTake).hookTaken = true := congrArg V.hook hv
    refine ⟨?_, ?_, by rw [e3]; exact hk, ?_, ?_, ?_, ?_⟩
    · rw [e1]; rw [hp] at ha; exact ha
    · simp only [inIdle, e1]; simpa [cstep] using hbC
    · intro hh; rw [e1] at hh; cases hh
    · intro _; exact e4
    · intro hh; rw [e1] at hh; rcases hh with hh | hh <;> cases hh
    · intro hh; rw [e1] at hh; cases hh
  | hookRestore =>
    obtain ⟨hp, hv⟩ := vw_hookRestore c s hs hd
    have e1 : (stepL c s .hookRestore).phase = s.phase := congrArg V.phase hv
    have e2 : (stepL c s .hookRestore).polledIdle = s.polledIdle := congrArg V.polled hv
    have e3 : (stepL c s .hookRestore).endedUnconsumed = s.endedUnconsumed := congrArg V.ended hv
    have e4 : (stepL c s .hookRestore).hookTaken = false := congrArg V.hook hv
    have e5 : (stepL c s .hookRestore).running = s.running := congrArg V.running hv
    have e6 : (stepL c s .hookRestore).batch = s.batch := congrArg V.batch hv
    refine ⟨by rw [e1]; exact ha, by simp only [inIdle, e1, e2]; exact hb, by rw [e3]; exact hk, ?_, ?_,
      by rw [e1, e5, e6]; exact h2, fun _ => e4⟩
    · intro hh; rw [e1, hp] at hh; cases hh
    · intro hh; rw [e1, hp] at hh; simp [loopPhase] at hh
  | exit =>
    obtain ⟨hp, hh, hv⟩ := vw_exit c s hs hd
    have e1 : (stepL c s .exit).phase = .exited := congrArg V.phase hv
    have e3 : (stepL c s .exit).endedUnconsumed = s.endedUnconsumed := congrArg V.ended hv
    have e4 : (stepL c s .exit).hookTaken = s.hookTaken := congrArg V.hook hv
    have e5 : (stepL c s .exit).running = s.running := congrArg V.running hv
    have e6 : (stepL c s .exit).batch = s.batch := congrArg V.batch hv
    refine ⟨?_, ?_, by rw [e3]; exact hk, ?_, ?_, ?_, ?_⟩
    · rw [e1]; rw [hp] at ha; exact ha
    · simp only [inIdle, e1]; simpa [cstep] using hbC
    · intro x; rw [e1] at x; cases x
    · intro x; rw [e1] at x; simp [loopPhase] at x
    · intro _; rw [e5, e6]; exact h2 (Or.inl hp)
    · intro _; rw [e4]; exact hh
  | get1 t ask ns nc =>
    obtain ⟨hp, hv⟩ := vw_get1 c s t ask ns nc hs hd
    have e1 : (stepL c s (.get1 t ask ns nc)).phase = .afterGet1 := congrArg V.phase hv
    have e3 : (stepL c s (.get1 t ask ns nc)).endedUnconsumed = s.endedUnconsumed := congrArg V.ended hv
    have e4 : (stepL c s (.get1 t ask ns nc)).hookTaken = s.hookTaken := congrArg V.hook hv
    have hl : loopPhase s.phase = true := by rcases hp with hp | hp <;> simp [hp, loopPhase]
    refine ⟨?_, ?_, by rw [e3]; exact hk, ?_, ?_, ?_, ?_⟩
    · rw [e1]; rcases hp with hp | hp <;> (rw [hp] at ha; exact ha)
    · simp only [inIdle, e1]; simpa [cstep] using hbC
    · intro x; rw [e1] at x; cases x
    · intro _; rw [e4]; exact h1 hl
    · intro x; rw [e1] at x; rcases x with x | x <;> cases x
    · intro x; rw [e1] at x; cases x
  | get2 t2 slots got sleep running =>
    have hp := get2_phase c s t2 slots got sleep running hs hd
    obtain ⟨e1, e2, e3, e4, e5⟩ := get2_fields c s t2 slots got sleep running
    rw [← get2_eq c] at e1 e2 e3 e4 e5
    have hl : loopPhase s.phase = true := by rcases hp with hp | hp | hp <;> simp [hp, loopPhase]
    have hsl : slack s.phase = 0 := by rcases hp with hp | hp | hp <;> simp [hp, slack]
    refine ⟨?_, ?_, by rw [e3]; exact hk, ?_, ?_, ?_, ?_⟩
    · rw [e1]; show n.g + 1 ≤ n.c + n.k + 1; rw [hsl] at ha; omega
    · simp only [inIdle, e1]; simpa [cstep] using hbC
    · intro x; rw [e1] at x; cases x
    · intro _; rw [e4]; exact h1 hl
    · intro x; rw [e1] at x; rcases x with x | x <;> cases x
    · intro x; rw [e1] at x; cases x
  | idle fin sl =>
    obtain ⟨hp, hr, he, hbt, hv⟩ := vw_idle c s fin sl hs hd
    have e1 : (stepL c s (.idle fin sl)).phase = if fin then .exiting else .idle1 := congrArg V.phase hv
    have e2 : (stepL c s (.idle fin sl)).polledIdle = false := congrArg V.polled hv
    have e3 : (stepL c s (.idle fin sl)).endedUnconsumed = s.endedUnconsumed := congrArg V.ended hv
    have e4 : (stepL c s (.idle fin sl)).hookTaken = s.hookTaken := congrArg V.hook hv
    have e5 : (stepL c s (.idle fin sl)).running = s.running := congrArg V.running hv
    have e6 : (stepL c s (.idle fin sl)).batch = s.batch := congrArg V.batch hv
    have hl : loopPhase s.phase = true := by simp [hp, loopPhase]
    refine ⟨?_, ?_, by rw [e3]; exact hk, ?_, ?_, ?_, ?_⟩
    · rw [e1]; rw [hp] at ha; cases fin <;> exact ha
    · rw [e2]; simpa [cstep] using hbC
    · intro x; rw [e1] at x; cases fin <;> cases x
    · intro _; rw [e4]; exact h1 hl
    · intro _; rw [e5, e6]; exact ⟨hr, hbt⟩
    · intro x; rw [e1] at x; cases fin <;> cases x
  | idleYield =>
    obtain ⟨hp, hv⟩ := vw_idleYield c s hs hd
    have e1 : (stepL c s .idleYield).phase = .idle2 := congrArg V.phase hv
    have e2 : (stepL c s .idleYield).polledIdle = s.polledIdle := congrArg V.polled hv
    have e3 : (stepL c s .idleYield).endedUnconsumed = s.endedUnconsumed := congrArg V.ended hv
    have e4 : (stepL c s .idleYield).hookTaken = s.hookTaken := congrArg V.hook hv
    have hl : loopPhase s.phase = true := by simp [hp, loopPhase]
    refine ⟨?_, ?_, by rw [e3]; exact hk, ?_, ?_, ?_, ?_⟩
    · rw [e1]; rw [hp] at ha; exact ha
    · simp only [inIdle, e1, e2]; simp only [inIdle, hp] at hb; simpa [cstep] using hb
    · intro x; rw [e1] at x; cases x
    · intro _; rw [e4]; exact h1 hl
    · intro x; rw [e1] at x; rcases x with x | x <;> cases x
    · intro x; rw [e1] at x; cases x
  | idleSlept =>
    obtain ⟨hp, hv⟩ := vw_idleSlept c s hs hd
    have e1 : (stepL c s .idleSlept).phase = .idle2 := congrArg V.phase hv
    have e2 : (stepL c s .idleSlept).polledIdle = s.polledIdle := congrArg V.polled hv
    have e3 : (stepL c s .idleSlept).endedUnconsumed = s.endedUnconsumed := congrArg V.ended hv
    have e4 : (stepL c s .idleSlept).hookTaken = s.hookTaken := congrArg V.hook hv
    have hl : loopPhase s.phase = true := by simp [hp, loopPhase]
    refine ⟨?_, ?_, by rw [e3]; exact hk, ?_, ?_, ?_, ?_⟩
    · rw [e1]; rw [hp] at ha; exact ha
    · simp only [inIdle, e1, e2]; simp only [inIdle, hp] at hb; simpa [cstep] using hb
    · intro x; rw [e1] at x; cases x
    · intro _; rw [e4]; exact h1 hl
    · intro x; rw [e1] at x; rcases x with x | x <;> cases x
    · intro x; rw [e1] at x; cases x
  | idleContinue =>
    obtain ⟨hp, hq, hv⟩ := vw_idleContinue c s hs hd
    have e1 : (stepL c s .idleContinue).phase = .loopTop := congrArg V.phase hv
    have e3 : (stepL c s .idleContinue).endedUnconsumed = s.endedUnconsumed := congrArg V.ended hv
    have e4 : (stepL c s .idleContinue).hookTaken = s.hookTaken := congrArg V.hook hv
    have hl : loopPhase s.phase = true := by rcases hp with hp | hp <;> simp [hp, loopPhase]
    have hsl : slack s.phase = 1 := by rcases hp with hp | hp <;> simp [hp, slack]
    have hin : inIdle s = true := by rcases hp with hp | hp <;> simp [hp, inIdle]
    refine ⟨?_, ?_, by rw [e3]; exact hk, ?_, ?_, ?_, ?_⟩
    · rw [e1]; show n.g ≤ n.c + 1 + n.k + 0; rw [hsl] at ha; omega
    · simp only [inIdle, e1]; show n.c + 1 + _ ≤ n.p; rw [hq, hin] at hb; simpa [cstep] using hb
    · intro x; rw [e1] at x; cases x
    · intro _; rw [e4]; exact h1 hl
    · intro x; rw [e1] at x; rcases x with x | x <;> cases x
    · intro x; rw [e1] at x; cases x
  | disp k sl =>
    obtain ⟨hp, hv⟩ := vw_disp c s k sl hs hd
    have e1 : (stepL c s (.disp k sl)).phase = .selecting := congrArg V.phase hv
    have e3 : (stepL c s (.disp k sl)).endedUnconsumed = s.endedUnconsumed := congrArg V.ended hv
    have e4 : (stepL c s (.disp k sl)).hookTaken = s.hookTaken := congrArg V.hook hv
    have hl : loopPhase s.phase = true := by simp [hp, loopPhase]
    refine ⟨?_, ?_, by rw [e3]; exact hk, ?_, ?_, ?_, ?_⟩
    · rw [e1]; rw [hp] at ha; exact ha
    · simp only [inIdle, e1]; simpa [cstep] using hbC
    · intro x; rw [e1] at x; cases x
    · intro _; rw [e4]; exact h1 hl
    · intro x; rw [e1] at x; rcases x with x | x <;> cases x
    · intro x; rw [e1] at x; cases x
  | cons got =>
    obtain ⟨hp, hpos, hv⟩ := vw_cons c s got hs hd
    have e1 : (stepL c s (.cons got)).phase = .draining := congrArg V.phase hv
    have e3 : (stepL c s (.cons got)).endedUnconsumed = s.endedUnconsumed - 1 := congrArg V.ended hv
    have e4 : (stepL c s (.cons got)).hookTaken = s.hookTaken := congrArg V.hook hv
    have hl : loopPhase s.phase = true := by simp [hp, loopPhase]
    refine ⟨?_, ?_, ?_, ?_, ?_, ?_, ?_⟩
    · rw [e1]; show n.g ≤ n.c + (n.k + 1) + 0; rw [hp] at ha; simp [slack] at ha; omega
    · simp only [inIdle, e1]; simpa [cstep] using hbC
    · rw [e3]; show n.k + 1 + _ = n.e; omega
    · intro x; rw [e1] at x; cases x
    · intro _; rw [e4]; exact h1 hl
    · intro x; rw [e1] at x; rcases x with x | x <;> cases x
    · intro x; rw [e1] at x; cases x
  | endA id f r t =>
    have hv := vw_endA c s id f r t hs hd
    have e1 : (stepL c s (.endA id f r t)).phase = s.phase := congrArg V.phase hv
    have e2 : (stepL c s (.endA id f r t)).polledIdle = s.polledIdle := congrArg V.polled hv
    have e3 : (stepL c s (.endA id f r t)).endedUnconsumed = s.endedUnconsumed + 1 := congrArg V.ended hv
    have e4 : (stepL c s (.endA id f r t)).hookTaken = s.hookTaken := congrArg V.hook hv
    have e5 : (stepL c s (.endA id f r t)).running = s.running.eraseP (fun x => x.id == id) := congrArg V.running hv
    have e6 : (stepL c s (.endA id f r t)).batch = s.batch := congrArg V.batch hv
    refine ⟨by rw [e1]; exact ha, by simp only [inIdle, e1, e2]; exact hb, ?_, ?_, by rw [e1, e4]; exact h1, ?_,
      by rw [e1, e4]; exact h3⟩
    · rw [e3]; show n.k + _ = n.e + 1; omega
    · intro x; rw [e1] at x; obtain ⟨a, b, d⟩ := h0 x; rw [e4, e5, e6, b]; exact ⟨a, rfl, d⟩
    · intro x; rw [e1] at x; obtain ⟨b, d⟩ := h2 x; rw [e5, e6, b]; exact ⟨rfl, d⟩

theorem clean0_foldl_mono (c : SCfg) : ∀ (ls : List Label) (s : SState),
    Clean0 (ls.foldl (stepL c) s) = true → Clean0 s = true := by
  intro ls
  induction ls with
  | nil => intro s h; exact h
  | cons l rest ih => intro s h; exact clean0_step_mono c s l (ih _ h)

theorem sinv_run (c : SCfg) : ∀ (ls : List Label) (s : SState) (n : Cnt), SInv s n →
    Clean0 (ls.foldl (stepL c) s) = true → SInv (ls.foldl (stepL c) s) (ls.foldl cstep n) := by
  intro ls
  induction ls with
  | nil => intro s n h _; exact h
  | cons l rest ih =>
    intro s n h hc
    simp only [foldl_cons] at hc ⊢
    exact ih _ _ (sinv_step c s l n h (clean0_foldl_mono c rest _ hc)) hc

/-- the invariants at the end of every log replayed without a disagreement -/
theorem sinv_accept (c : SCfg) (ls : List Label) (hc : Clean0 (accept c ls) = true) :
    SInv (accept c ls) (count ls) :=
  sinv_run c ls {} {} sinv_init hc

theorem slack_le_one (p : Phase) : slack p ≤ 1 := by cases p <;> simp [slack]

/-! ### a batch is only held between `GET2` and the dispatch -/
def NoBatch (s : SState) : Prop := s.phase ≠ .afterGet2 → s.batch = []

theorem nobatch_step (c : SCfg) (s : SState) (l : Label) (h : NoBatch s)
    (hc : Clean0 (stepL c s l) = true) : NoBatch (stepL c s l) := by
  have hs0 : Clean0 s = true := clean0_step_mono c s l hc
  have hs : s.dis = [] := by simpa [Clean0] using hs0
  have hd : (stepL c s l).dis = [] := by simpa [Clean0] using hc
  have same : ∀ s' : SState, vw s' = vw s → NoBatch s' := by
    intro s' hv hp
    have e1 : s'.phase = s.phase := congrArg V.phase hv
    have e6 : s'.batch = s.batch := congrArg V.batch hv
    rw [e6]; rw [e1] at hp; exact h hp
  have moved : ∀ (s' : SState) (p : Phase), s.phase ≠ .afterGet2 → s'.batch = s.batch → NoBatch s' := by
    intro s' p hne hb _; rw [hb]; exact h hne
  cases l with
  | tx e => exact same _ (vw_tx c s e)
  | rx e => exact same _ (vw_rx c s e)
  | other => exact same _ (vw_other c s)
  | cbIn a b t => exact same _ (vw_cbIn c s a b t)
  | cbOut a b t => exact same _ (vw_cbOut c s a b t)
  | envMove => exact same _ (vw_env c s)
  | pPend => exact same _ (vw_pPend c s)
  | pWake => exact same _ (vw_pWake c s)
  | pOk f => exact same _ (vw_pOk c s f)
  | pErr => exact same _ (vw_pErr c s)
  | pEnd => exact same _ (vw_pEnd c s)
  | pFinish => exact same _ (vw_pFinish c s)
  | ins t a b => exact same _ (vw_ins c s t a b)
  | verdict b x y z => exact same _ (vw_verdict c s b x y z)
  | notif id f r => exact same _ (vw_notif c s id f r)
  | brk => exact same _ (vw_brk c s hs hd).2
  | poll =>
    have hv := vw_poll c s
    intro hp
    have e1 : (stepL c s .poll).phase = s.phase := congrArg V.phase hv
    have e6 : (stepL c s .poll).batch = s.batch := congrArg V.batch hv
    rw [e6]; rw [e1] at hp; exact h hp
  | hookTake =>
    obtain ⟨hp, hv⟩ := vw_hookTake c s hs hd
    exact moved _ .loopTop (by rw [hp]; simp) (congrArg V.batch hv)
  | hookRestore =>
    obtain ⟨hp, hv⟩ := vw_hookRestore c s hs hd
    exact moved _ .exiting (by rw [hp]; simp) (congrArg V.batch hv)
  | exit =>
    obtain ⟨hp, _, hv⟩ := vw_exit c s hs hd
    exact moved _ .exited (by rw [hp]; simp) (congrArg V.batch hv)
  | get1 t ask ns nc =>
    obtain ⟨hp, hv⟩ := vw_get1 c s t ask ns nc hs hd
    exact moved _ .afterGet1 (by rcases hp with hp | hp <;> (rw [hp]; simp)) (congrArg V.batch hv)
  | get2 t2 slots got sleep running =>
    intro hp
    have := (get2_fields c s t2 slots got sleep running).1
    rw [← get2_eq c] at this
    exact absurd this hp
  | idle fin sl =>
    obtain ⟨_, _, _, hbt, hv⟩ := vw_idle c s fin sl hs hd
    intro _
    have e6 : (stepL c s (.idle fin sl)).batch = s.batch := congrArg V.batch hv
    rw [e6]; exact hbt
  | idleYield =>
    obtain ⟨hp, hv⟩ := vw_idleYield c s hs hd
    exact moved _ .idle2 (by rw [hp]; simp) (congrArg V.batch hv)
  | idleSlept =>
    obtain ⟨hp, hv⟩ := vw_idleSlept c s hs hd
    exact moved _ .idle2 (by rw [hp]; simp) (congrArg V.batch hv)
  | idleContinue =>
    obtain ⟨hp, _, hv⟩ := vw_idleContinue c s hs hd
    exact moved _ .loopTop (by rcases hp with hp | hp <;> (rw [hp]; simp)) (congrArg V.batch hv)
  | disp k sl =>
    obtain ⟨_, hv⟩ := vw_disp c s k sl hs hd
    intro _
    exact congrArg V.batch hv
  | cons got =>
    obtain ⟨hp, _, hv⟩ := vw_cons c s got hs hd
    exact moved _ .draining (by rw [hp]; simp) (congrArg V.batch hv)
  | endA id f r t =>
    have hv := vw_endA c s id f r t hs hd
    intro hp
    have e1 : (stepL c s (.endA id f r t)).phase = s.phase := congrArg V.phase hv
    have e6 : (stepL c s (.endA id f r t)).batch = s.batch := congrArg V.batch hv
    rw [e6]; rw [e1] at hp; exact h hp

theorem nobatch_accept (c : SCfg) (ls : List Label) (hc : Clean0 (accept c ls) = true) : NoBatch (accept c ls) := by
  have gen : ∀ (ls : List Label) (s : SState), NoBatch s → Clean0 (ls.foldl (stepL c) s) = true →
      NoBatch (ls.foldl (stepL c) s) := by
    intro ls
    induction ls with
    | nil => intro s h _; exact h
    | cons l rest ih =>
      intro s h hc
      simp only [foldl_cons] at hc ⊢
      exact ih _ (nobatch_step c s l h (clean0_foldl_mono c rest _ hc)) hc
  exact gen ls {} (fun _ => rfl) hc

/-! ### user code runs only for attempts in flight, while `execute` awaits its scenarios -/
def attOf (e : Entry) : Nat := (e.ret.map (·.retries.current)).getD 0

theorem cbIn_clean (c : SCfg) (s : SState) (sc att t : Nat) (hs : s.dis = [])
    (hc : (stepL c s (.cbIn sc att t)).dis = []) :
    s.phase = .selecting ∧ ∃ e ∈ s.running, e.key.scen = sc ∧ attOf e = att := by
  simp only [stepL] at hc
  split at hc
  · rename_i h
    simp only [Bool.and_eq_true, beq_iff_eq, any_eq_true] at h
    obtain ⟨hp, e, he, h1, h2⟩ := h
    exact ⟨hp, e, he, h1, h2⟩
  · simp [SState.note, hs] at hc

theorem cbOut_clean (c : SCfg) (s : SState) (sc att t : Nat) (hs : s.dis = [])
    (hc : (stepL c s (.cbOut sc att t)).dis = []) :
    s.phase = .selecting ∧ ∃ e ∈ s.running, e.key.scen = sc ∧ attOf e = att := by
  simp only [stepL] at hc
  split at hc
  · rename_i h
    simp only [Bool.and_eq_true, beq_iff_eq, any_eq_true] at h
    obtain ⟨hp, e, he, h1, h2⟩ := h
    exact ⟨hp, e, he, h1, h2⟩
  · simp [SState.note, hs] at hc

/-- an event of a scenario attempt is sent: that attempt — same scenario, same retry counter — is in flight -/
theorem tx_scen_clean (c : SCfg) (s : SState) (k : ScenKey) (ret : Option Retries) (se : ScenEv) (hs : s.dis = [])
    (hc : (stepL c s (.tx (.scen k ret se))).dis = []) :
    ∃ e ∈ s.running, e.key = k ∧ e.ret.map (·.retries) = ret := by
  cases hf : findRunning ({ ({ s with pos := s.pos + 1 } : SState) with out := s.out ++ [.scen k ret se] } : SState) k ret with
  | some e =>
    have hm : e ∈ s.running := mem_of_find?_eq_some hf
    have hp := find?_some hf
    simp only [Bool.and_eq_true, beq_iff_eq] at hp
    exact ⟨e, hm, hp.1, hp.2⟩
  | none =>
    exfalso
    simp only [stepL, hf, Option.isSome_none, Bool.false_eq_true, if_false, SState.note] at hc
    simp at hc

/-! ### the counts, in words -/
def isGet2 : Label → Bool | .get2 .. => true | _ => false
def isIdleContinue : Label → Bool | .idleContinue => true | _ => false
def isCons : Label → Bool | .cons _ => true | _ => false
def isPoll : Label → Bool | .poll => true | _ => false
def isEndA : Label → Bool | .endA .. => true | _ => false

theorem foldl_cstep (ls : List Label) : ∀ n : Cnt, ls.foldl cstep n =
    ⟨n.g + ls.countP isGet2, n.c + ls.countP isIdleContinue, n.k + ls.countP isCons, n.p + ls.countP isPoll,
     n.e + ls.countP isEndA⟩ := by
  induction ls with
  | nil => intro n; simp
  | cons l rest ih =>
    intro n
    rw [foldl_cons, ih]
    cases l <;> simp [cstep, countP_cons, isGet2, isIdleContinue, isCons, isPoll, isEndA] <;> omega

theorem count_eq (ls : List Label) : count ls =
    ⟨ls.countP isGet2, ls.countP isIdleContinue, ls.countP isCons, ls.countP isPoll, ls.countP isEndA⟩ := by
  unfold count; rw [foldl_cstep]; simp

end Cuke.SchedSpin
