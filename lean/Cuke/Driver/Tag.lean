import Cuke.Model.Wire
import Cuke.Model.Tag
/-! Line-protocol front end for `tag.eval` and `filter.feature`. -/
namespace Cuke.Driver
open Cuke Cuke.Wire

/-- prefix encoding: `A l r` | `O l r` | `N t` | `T xhex`; fuel bounds the depth. -/
def tagOpP : Nat → P TagOp
  | 0 => fail
  | fuel + 1 => do
    let t ← tok
    match t with
    | "A" => do let l ← tagOpP fuel; let r ← tagOpP fuel; pure (.and l r)
    | "O" => do let l ← tagOpP fuel; let r ← tagOpP fuel; pure (.or l r)
    | "N" => do let x ← tagOpP fuel; pure (.not x)
    | "T" => do let s ← str; pure (.tag s)
    | _ => fail

def tagOp : P TagOp := tagOpP 64

def fscenP : P FScen := do
  expect "S"
  let id ← nat
  let tags ← list str
  let re ← bool
  let cl ← bool
  pure { id, tags, reMatch := re, closure := cl }

def fruleP : P FRule := do
  expect "R"
  let id ← nat
  let tags ← list str
  let bg ← nat
  let scens ← list fscenP
  pure { id, tags, bg, scens }

def ffeatP : P FFeat := do
  expect "F"
  let id ← nat
  let tags ← list str
  let bg ← nat
  let scens ← list fscenP
  let rules ← list fruleP
  pure { id, tags, bg, scens, rules }

def showFFeat (f : FFeat) : String :=
  let sc (s : FScen) := toString s.id
  let ru (r : FRule) := s!"R {r.id} {showList encodeStr r.tags} {r.bg} {showList sc r.scens}"
  s!"F {f.id} {showList encodeStr f.tags} {f.bg} {showList sc f.scens} {showList ru f.rules}"

/-- `tag.eval <tagop> <tags>` -/
def handleTagEval : Toks → Option String :=
  fun ts => (runAll (do let t ← tagOp; let tags ← list str; pure (showBool (t.eval tags))) ts)

/-- `filter.feature <hasRe> <tagop?> <feat>` -/
def handleFilter : Toks → Option String :=
  fun ts => runAll (do
    let hasRe ← bool
    let tags ← opt tagOp
    let f ← ffeatP
    pure (showFFeat (filterFeat { hasRe, tags } f))) ts

end Cuke.Driver
