import Cuke.Model.Ev
/-
  The Runner contract that `writer::Normalize` relies on (its rustdoc: "events are emitted by a
  Runner … Feature/Rule Started before and Finished after everything inside them"), written as a
  recogniser that knows NOTHING about the normalizer: a status ledger
  `not seen | open | closed` per feature, rule and attempt key.

  * content arrives only inside open brackets: a rule event needs its feature open, a scenario event
    needs its feature (and its rule, if it has one) open;
  * a bracket is opened at most once (a closed or open entity is never Started again);
  * an attempt `(scenario, retries)` begins with `Scenario::Started`, which is not repeated, and
    receives nothing after its `Scenario::Finished`;
  * a closing bracket arrives only when nothing inside is still open;
  * run-`Finished` arrives only when no feature is open; what follows it is unconstrained
    (`Normalize` passes it through).
  NO ordering between different attempts, scenarios, rules or features is required: arbitrary
  interleavings of concurrently running scenarios are inside the contract.
-/
namespace Cuke

abbrev AttKey := ScenKey × Option Retries

structure CSt where
  openF : List Nat := []
  doneF : List Nat := []
  openR : List (Nat × Nat) := []
  doneR : List (Nat × Nat) := []
  openA : List AttKey := []
  doneA : List AttKey := []
  fin : Bool := false
  deriving Repr, DecidableEq

def ruleOpenOk (c : CSt) (f : Nat) : Option Nat → Bool
  | none => true
  | some r => c.openR.contains (f, r)

/-- one event against the ledger; `none` = the event breaks the contract -/
def CSt.step (c : CSt) (e : Ev) : Option CSt :=
  if c.fin then some c
  else
    match e with
    | .started => some c
    | .parsingFinished .. => some c
    | .parseErr _ => some c
    | .finished => if c.openF.isEmpty then some { c with fin := true } else none
    | .featStarted f =>
      if !c.openF.contains f && !c.doneF.contains f then some { c with openF := f :: c.openF } else none
    | .featFinished f =>
      if c.openF.contains f && c.openR.all (fun p => p.1 != f) && c.openA.all (fun κ => κ.1.feat != f) then
        some { c with openF := c.openF.filter (· != f), doneF := f :: c.doneF }
      else none
    | .ruleStarted f r =>
      if c.openF.contains f && !c.openR.contains (f, r) && !c.doneR.contains (f, r) then
        some { c with openR := (f, r) :: c.openR }
      else none
    | .ruleFinished f r =>
      if c.openF.contains f && c.openR.contains (f, r) &&
          c.openA.all (fun κ => !(κ.1.feat == f && κ.1.rule == some r)) then
        some { c with openR := c.openR.filter (· != (f, r)), doneR := (f, r) :: c.doneR }
      else none
    | .scen k ret ev =>
      if c.openF.contains k.feat && ruleOpenOk c k.feat k.rule && !c.doneA.contains (k, ret) then
        if ev == .started then
          if !c.openA.contains (k, ret) then some { c with openA := (k, ret) :: c.openA } else none
        else if c.openA.contains (k, ret) then
          if ev == .finished then
            some { c with openA := c.openA.filter (· != (k, ret)), doneA := (k, ret) :: c.doneA }
          else some c
        else none
      else none

def contractFrom : CSt → List Ev → Bool
  | _, [] => true
  | c, e :: es =>
    match c.step e with
    | some c' => contractFrom c' es
    | none => false

/-- the whole stream obeys the Runner contract -/
def Contract (evs : List Ev) : Bool := contractFrom {} evs

end Cuke
