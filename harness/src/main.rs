//! `cvh` — correspondence harness: runs the real `cucumber` crate on generated
//! inputs and prints, per case, the request line for the Lean model and the
//! implementation's canonical answer.
//!
//! usage: cvh <family> <seed> <count> <out-dir> [corpus-file]
//!   writes <out-dir>/req.txt, <out-dir>/impl.txt, <out-dir>/meta.json

mod common;
mod fam_filter;
mod fam_retry;
mod fam_match;
mod evs;
mod fam_pipe;
mod rr;
mod fam_attempt;
mod fam_sched;
mod fam_outline;
mod fam_norm;
mod zoo;
mod fam_trace;
mod fam_frame;
mod fam_coll;
mod fam_report;

use std::{collections::BTreeMap, collections::HashSet, fs, io::Write as _, path::Path};

use common::{Case, Rng};

fn families() -> Vec<(&'static str, fn(&mut Rng, usize) -> Case)> {
    vec![
        ("tag.eval", fam_filter::gen_tag_eval as fn(&mut Rng, usize) -> Case),
        ("filter.feature", fam_filter::gen_filter),
        ("retry.resolve", fam_retry::gen_resolve),
        ("match.find", fam_match::gen_find),
        ("pipe.comb", fam_pipe::gen_comb),
        ("pipe.summ", fam_pipe::gen_summ),
        ("pipe.verdict", fam_pipe::gen_verdict),
        ("exit.run", fam_pipe::gen_exit),
        ("attempt.run", fam_attempt::gen_attempts),
        ("sched.run", fam_sched::gen_sched_case),
        ("sched.lazy", fam_sched::gen_sched_lazy_case),
        ("sched.custom", fam_sched::gen_sched_custom_case),
        ("outline.expand", fam_outline::gen_expand),
        ("norm.run", fam_norm::gen_norm),
        ("zoo.reg", zoo::gen_reg),
        ("zoo.dispatch", zoo::gen_dispatch),
        ("trace.run", fam_trace::gen_trace),
        ("trace.frame", fam_frame::gen_frame),
        ("trace.coll", fam_coll::gen_coll),
        ("report.run", fam_report::gen_report),
    ]
}

/// CPU time (user + system) consumed by this process so far, in ms (from /proc/self/stat)
fn cpu_ms() -> u64 {
    let Ok(stat) = std::fs::read_to_string("/proc/self/stat") else { return 0 };
    // fields after the last ')': state ppid ... utime is the 12th, stime the 13th of the remainder
    let Some(rest) = stat.rsplit(')').next() else { return 0 };
    let f: Vec<&str> = rest.split_whitespace().collect();
    let ticks: u64 = f.get(11).and_then(|x| x.parse::<u64>().ok()).unwrap_or(0) + f.get(12).and_then(|x| x.parse::<u64>().ok()).unwrap_or(0);
    ticks * 10 // USER_HZ = 100
}

fn main() {
    let args: Vec<String> = std::env::args().collect();
    if (args.len() == 3 || args.len() == 4) && args[1] == "--tracing-child" {
        fam_trace::child(args[2].parse().expect("seed"), args.get(3).map_or("rand", String::as_str));
        return;
    }
    if args.len() == 3 && args[1] == "--report-dump" {
        fam_report::dump(args[2].parse().expect("seed"));
        return;
    }
    if args.len() < 5 {
        eprintln!("usage: cvh <family> <seed> <count> <out-dir>");
        std::process::exit(2);
    }
    let fam = args[1].as_str();
    let seed: u64 = args[2].parse().expect("seed");
    let count: usize = args[3].parse().expect("count");
    let out = Path::new(&args[4]);
    // optional 5th argument: run only the case with this index (replay)
    let only: Option<usize> = args.get(5).and_then(|x| x.parse().ok());
    fs::create_dir_all(out).expect("mkdir");

    let fams = families();
    let Some((_, genf)) = fams.iter().find(|(n, _)| *n == fam) else {
        eprintln!("unknown family {fam}; known: {:?}", fams.iter().map(|f| f.0).collect::<Vec<_>>());
        std::process::exit(2);
    };

    // Watchdog: a poll of the runner that never returns (C04) cannot be interrupted in-process.
    // If one case takes longer than the limit, record which one and leave with exit code 97.
    static CASE_STARTED_MS: std::sync::atomic::AtomicU64 = std::sync::atomic::AtomicU64::new(0);
    static CASE_STARTED_CPU: std::sync::atomic::AtomicU64 = std::sync::atomic::AtomicU64::new(0);
    static CASE_INDEX: std::sync::atomic::AtomicU64 = std::sync::atomic::AtomicU64::new(0);
    let t_start = std::time::Instant::now();
    {
        let out = out.to_path_buf();
        let fam = fam.to_owned();
        std::thread::spawn(move || loop {
            std::thread::sleep(std::time::Duration::from_millis(200));
            let started = CASE_STARTED_MS.load(std::sync::atomic::Ordering::SeqCst);
            if started == 0 { continue; }
            let wall = (t_start.elapsed().as_millis() as u64).saturating_sub(started);
            let cpu = cpu_ms().saturating_sub(CASE_STARTED_CPU.load(std::sync::atomic::Ordering::SeqCst));
            // A hang inside the runner is a poll that never returns: it BURNS CPU. Wall time alone is not
            // evidence (the machine may be overloaded and this process descheduled for seconds), so the
            // criterion is CPU time consumed by this process during the case; wall time is only a very
            // generous backstop (a blocked, non-spinning hang is ended by the harness' own stuck detection).
            if cpu > 10_000 || wall > 600_000 {
                let idx = CASE_INDEX.load(std::sync::atomic::Ordering::SeqCst);
                let _ = fs::write(
                    out.join("hang.json"),
                    format!("{{\"family\": \"{fam}\", \"seed\": {seed}, \"case\": {idx}, \"what\": \"a case did not return after {cpu} ms of CPU time / {wall} ms of wall time (the runner's stream never ended or a poll never returned)\"}}"),
                );
                std::process::exit(97);
            }
        });
    }

    let mut rng = Rng::new(seed);
    let mut req = fs::File::create(out.join("req.txt")).unwrap();
    let mut imp = fs::File::create(out.join("impl.txt")).unwrap();
    // which case every request line belongs to (a case may have several lines): lets the checker re-run one case
    let mut case_of = fs::File::create(out.join("case.txt")).unwrap();
    let mut hist: BTreeMap<String, usize> = BTreeMap::new();
    let mut distinct: HashSet<String> = HashSet::new();
    let mut samples: Vec<String> = Vec::new();
    let mut not_ended = 0usize;
    for i in 0..count {
        let mut r = rng.fork();
        CASE_INDEX.store(i as u64, std::sync::atomic::Ordering::SeqCst);
        CASE_STARTED_CPU.store(cpu_ms(), std::sync::atomic::Ordering::SeqCst);
        CASE_STARTED_MS.store(t_start.elapsed().as_millis() as u64 + 1, std::sync::atomic::Ordering::SeqCst);
        if only.is_some_and(|o| o != i) { continue; }
        let c = match std::panic::catch_unwind(std::panic::AssertUnwindSafe(|| genf(&mut r, i))) {
            Ok(c) => c,
            Err(payload) => {
                fam_attempt::force_install_counting_hook();
                let msg = payload.downcast_ref::<String>().cloned()
                    .or_else(|| payload.downcast_ref::<&'static str>().map(|s| (*s).to_owned()))
                    .unwrap_or_else(|| "non-string payload".to_owned());
                Case { req: "harness.ended".into(), imp: format!("!case-panicked {}", common::hex(&msg)), class: "panicked".into(), nontrivial: true }
            }
        };
        for (rl, il) in c.req.lines().zip(c.imp.lines()) {
            writeln!(req, "{rl}").unwrap();
            writeln!(imp, "{il}").unwrap();
            writeln!(case_of, "{i}").unwrap();
        }
        assert_eq!(c.req.lines().count(), c.imp.lines().count(), "case {i}: req/impl line mismatch");
        // runs that do not end take long each; three of them are evidence enough — stop early
        if c.imp.contains("!run-did-not-end") {
            not_ended += 1;
            if not_ended >= 3 {
                *hist.entry("aborted-after-3-runs-that-did-not-end".to_owned()).or_default() += 1;
                break;
            }
        }
        *hist.entry(c.class.clone()).or_default() += 1;
        if c.nontrivial {
            distinct.insert(c.req.clone());
        }
        if samples.len() < 3 {
            samples.push(format!("{} => {}", c.req, c.imp));
        }
    }
    let meta = serde_json::json!({
        "family": fam, "seed": seed, "evaluations": count,
        "distinct_nontrivial": distinct.len(), "histogram": hist, "samples": samples,
    });
    fs::write(out.join("meta.json"), serde_json::to_string_pretty(&meta).unwrap()).unwrap();
}
