import Cuke.Model.Attempt
/-
  C02 as a recogniser: `shapeOk nbg nsteps evs` decides whether `evs` is a canonical attempt
  sequence for a scenario with `nbg` background steps and `nsteps` own steps — without knowing
  what the user code did. Used as a monitor on the attempts of REAL concurrent runs (sched.*),
  and proved to accept every sequence the attempt model produces (`Cuke.C02.runAttempt_shape`).
-/
namespace Cuke

/-- result event of step `(bg, i)`: `some true` = Passed, `some false` = Skipped / Failed -/
def stepResultOf (bg : Bool) (i : Nat) (e : ScenEv) : Option Bool :=
  if e = stepEv bg i .passed then some true
  else if e = stepEv bg i .skipped then some false
  else match e, bg with
    | .bg j (.failed _), true => if j = i then some false else none
    | .step j (.failed _), false => if j = i then some false else none
    | _, _ => none

/-- consume the step events in declaration order, stopping after the first non-Passed result;
    returns what is left -/
def stepsShape : List (Bool × Nat) → List ScenEv → Option (List ScenEv)
  | [], evs => some evs
  | (bg, i) :: rest, e1 :: e2 :: tl =>
    if e1 = stepEv bg i .started then
      match stepResultOf bg i e2 with
      | some true => stepsShape rest tl
      | some false => some tl
      | none => none
    else none
  | _ :: _, _ => none

/-- the tail of an attempt: optional after-hook pair, then Finished and nothing else -/
def tailShape : List ScenEv → Bool
  | [.finished] => true
  | [.hook .after .started, .hook .after .passed, .finished] => true
  | [.hook .after .started, .hook .after (.failed _), .finished] => true
  | _ => false

def declSteps (nbg nsteps : Nat) : List (Bool × Nat) :=
  (List.range nbg).map (fun i => (true, i)) ++ (List.range nsteps).map (fun i => (false, i))

def afterBefore (nbg nsteps : Nat) (tl : List ScenEv) : Bool :=
  match stepsShape (declSteps nbg nsteps) tl with
  | some rest => tailShape rest
  | none => false

/-- the canonical attempt grammar of C02 (the three alternatives exclude each other) -/
def shapeOk (nbg nsteps : Nat) : List ScenEv → Bool
  | .started :: tl =>
    afterBefore nbg nsteps tl ||
    (match tl with
     | .hook .before .started :: .hook .before .passed :: tl' => afterBefore nbg nsteps tl'
     | _ => false) ||
    (match tl with
     | .hook .before .started :: .hook .before (.failed _) :: tl' => tailShape tl'
     | _ => false)
  | _ => false

end Cuke
