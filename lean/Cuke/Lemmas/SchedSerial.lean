import Cuke.Lemmas.SchedInv
/-!
  C07 over whole runs of the scheduler LTS: an attempt dispatched into an EMPTY runner stays alone until it
  ends — `execute` waits at its select and dispatches nothing else. With "a Serial entry is always handed out
  as a batch of its own" (`C07.serial_batch_singleton`) this is isolation of every serial scenario that is
  handed out while nothing is in flight; the remaining case — handed out although something is in flight —
  is exactly the cause pattern of finding F-C07.
-/
namespace Cuke.SchedSerial
open Cuke List Cuke.SchedL Cuke.SchedInv

set_option linter.unusedSimpArgs false
set_option linter.unusedVariables false

/-- attempt `e` is in flight alone and `execute` waits at the select -/
def Alone (e : Entry) (s : SState) : Prop :=
  s.running = [e] ∧ s.endedUnconsumed = 0 ∧ s.phase = .selecting ∧ s.batch = []

theorem alone_frame (e : Entry) (s s' : SState) (h : Alone e s) (hf : FrameOK s s') : Alone e s' := by
  obtain ⟨_, h2, h3, h4, h5⟩ := hf
  exact ⟨by rw [h2]; exact h.1, by rw [h3]; exact h.2.1, by rw [h4]; exact h.2.2.1, by rw [h5]; exact h.2.2.2⟩

syntax "wrongphase_simp" : tactic
macro_rules
  | `(tactic| wrongphase_simp) => `(tactic|
      (intro hsel
       simp only [stepL]; repeat' split
       all_goals (simp [SState.note, SState.inPhase, SState.checkExpectDone, hsel, List.any_append] <;> (repeat' split) <;>
         simp [SState.note, List.any_append])))

theorem wp_get1 (c : SCfg) (s : SState) (t : Nat) (ask : Option Nat) (ns nc : Nat) :
    s.phase = .selecting → (stepL c s (.get1 t ask ns nc)).dis.any (fun d => d.cls == .I) = true := by wrongphase_simp
theorem wp_idle (c : SCfg) (s : SState) (f sl : Bool) :
    s.phase = .selecting → (stepL c s (.idle f sl)).dis.any (fun d => d.cls == .I) = true := by wrongphase_simp
theorem wp_idleYield (c : SCfg) (s : SState) :
    s.phase = .selecting → (stepL c s .idleYield).dis.any (fun d => d.cls == .I) = true := by wrongphase_simp
theorem wp_idleSlept (c : SCfg) (s : SState) :
    s.phase = .selecting → (stepL c s .idleSlept).dis.any (fun d => d.cls == .I) = true := by wrongphase_simp
theorem wp_idleContinue (c : SCfg) (s : SState) :
    s.phase = .selecting → (stepL c s .idleContinue).dis.any (fun d => d.cls == .I) = true := by wrongphase_simp
theorem wp_exit (c : SCfg) (s : SState) :
    s.phase = .selecting → (stepL c s .exit).dis.any (fun d => d.cls == .I) = true := by wrongphase_simp
theorem wp_hookTake (c : SCfg) (s : SState) :
    s.phase = .selecting → (stepL c s .hookTake).dis.any (fun d => d.cls == .I) = true := by wrongphase_simp
theorem wp_brk (c : SCfg) (s : SState) :
    s.phase = .selecting → (stepL c s .brk).dis.any (fun d => d.cls == .I) = true := by wrongphase_simp

theorem any_of_prefix (a b : List Dis) (h : a <+: b) (ha : a.any (fun d => d.cls == .I) = true) :
    b.any (fun d => d.cls == .I) = true := by
  obtain ⟨t, rfl⟩ := h
  simp [List.any_append, ha]

theorem chk_prefix (s : SState) (b : Bool) (cls : DClass) (m : String) : s.dis <+: (chk s b cls m).dis := by
  unfold chk; split
  · exact List.prefix_refl _
  · exact note_prefix s cls m

theorem wp_disp (c : SCfg) (s : SState) (n : Nat) (sl : Slots) (hsel : s.phase = .selecting) :
    (stepL c s (.disp n sl)).dis.any (fun d => d.cls == .I) = true := by
  rw [disp_eq]
  have h0 : ((({ s with pos := s.pos + 1 } : SState).inPhase [.afterGet2] "dispatch")).dis.any (fun d => d.cls == .I) = true := by
    simp [SState.inPhase, hsel, SState.note, List.any_append]
  have h1 : (disp1 s).dis.any (fun d => d.cls == .I) = true := any_of_prefix _ _ (ced_prefix _ _) h0
  have h3 : (disp3 s).dis = (disp1 s).dis := rfl
  have h4 : (disp4 s n).dis.any (fun d => d.cls == .I) = true := any_of_prefix _ _ (chk_prefix _ _ _ _) (by rw [h3]; exact h1)
  have h5 : (disp5 s n sl).dis.any (fun d => d.cls == .I) = true := any_of_prefix _ _ (chk_prefix _ _ _ _) h4
  exact h5

theorem get2a_note (s : SState) (hsel : s.phase = .selecting) : (get2a s).dis.any (fun d => d.cls == .I) = true := by
  simp [get2a, hsel, SState.inPhase, SState.note, List.any_append]

theorem get2_chain (s : SState) (t2 : Nat) (slots : Slots) (got : List Nat) (sleep : Bool) (running : Nat) :
    (get2a s).dis <+: (get2R s t2 slots got sleep running).dis := by
  have hc : (get2a s).dis <+: (get2c s).dis := by
    unfold get2c
    exact ced_prefix ({ get2a s with phase := .afterGet2 } : SState) _
  have hd : (get2c s).dis <+: (get2d s slots).dis := by
    unfold get2d; split
    · exact List.prefix_refl _
    · exact note_prefix _ _ _
  have he : (get2d s slots).dis <+: (get2e s slots running).dis := by
    unfold get2e; split
    · exact List.prefix_refl _
    · exact note_prefix _ _ _
  have hr : (get2e s slots running).dis <+: (get2R s t2 slots got sleep running).dis := by
    unfold get2R
    simp only
    split
    · split
      · exact List.prefix_refl _
      · exact note_prefix _ _ _
    · exact note_prefix _ _ _
  exact (hc.trans hd).trans (he.trans hr)

theorem wp_get2 (c : SCfg) (s : SState) (t2 : Nat) (slots : Slots) (got : List Nat) (sleep : Bool) (running : Nat)
    (hsel : s.phase = .selecting) :
    (stepL c s (.get2 t2 slots got sleep running)).dis.any (fun d => d.cls == .I) = true := by
  rw [get2_eq]
  exact any_of_prefix _ _ (get2_chain s t2 slots got sleep running) (get2a_note s hsel)

/-- **While an attempt is in flight alone, `execute` dispatches nothing** — a label either keeps the situation,
    or is the end of that very attempt, or is a disagreement of class K / I. -/
theorem alone_step (c : SCfg) (s : SState) (l : Label) (e : Entry) (h : Alone e s) (hg : Good (stepL c s l) = true) :
    Alone e (stepL c s l) ∨ ∃ f r t, l = .endA e.id f r t := by
  have hsel := h.2.2.1
  have bad : ∀ s', s'.dis.any (fun d => d.cls == .I) = true → Good s' = true → False := by
    intro s' h1 h2
    rw [good_no_I s' h2] at h1; cases h1
  cases l with
  | hookTake => exact absurd hg (fun hg => bad _ (wp_hookTake c s hsel) hg)
  | hookRestore => exact Or.inl (alone_frame e s _ h (frame_hookRestore c s))
  | exit => exact absurd hg (fun hg => bad _ (wp_exit c s hsel) hg)
  | tx ev => exact Or.inl (alone_frame e s _ h (frame_tx c s ev))
  | pOk f => exact Or.inl (alone_frame e s _ h (frame_pOk c s f))
  | pErr => exact Or.inl (alone_frame e s _ h (frame_pErr c s))
  | pEnd => exact Or.inl (alone_frame e s _ h (frame_pEnd c s))
  | pPend => exact Or.inl (alone_frame e s _ h (frame_pPend c s))
  | pWake => exact Or.inl (alone_frame e s _ h (frame_pWake c s))
  | pFinish => exact Or.inl (alone_frame e s _ h (frame_pFinish c s))
  | ins t a b => exact Or.inl (alone_frame e s _ h (frame_ins c s t a b))
  | get1 t a ns nc => exact absurd hg (fun hg => bad _ (wp_get1 c s t a ns nc hsel) hg)
  | get2 t sl g b r => exact absurd hg (fun hg => bad _ (wp_get2 c s t sl g b r hsel) hg)
  | idle f sl => exact absurd hg (fun hg => bad _ (wp_idle c s f sl hsel) hg)
  | idleContinue => exact absurd hg (fun hg => bad _ (wp_idleContinue c s hsel) hg)
  | idleYield => exact absurd hg (fun hg => bad _ (wp_idleYield c s hsel) hg)
  | idleSlept => exact absurd hg (fun hg => bad _ (wp_idleSlept c s hsel) hg)
  | disp n sl => exact absurd hg (fun hg => bad _ (wp_disp c s n sl hsel) hg)
  | cons b =>
    exfalso
    rw [cons_eq] at hg
    cases b with
    | false =>
      have := (good_note _ _ _ (show Good ((cons2 s).note .K "run_scenarios.next() yielded None (the set of running scenarios cannot be empty at the select)") = true from hg)).2
      exact this.1 rfl
    | true =>
      have hg3 : Good (cons3 s) = true := hg
      have he : (cons2 s).endedUnconsumed = 0 := by simp [cons2, cons1, h.2.1]
      unfold cons3 at hg3
      simp only [he, Nat.lt_irrefl, gt_iff_lt, if_false] at hg3
      exact (good_note _ _ _ hg3).2.1 rfl
  | notif id f r => exact Or.inl (alone_frame e s _ h (frame_notif c s id f r))
  | brk => exact absurd hg (fun hg => bad _ (wp_brk c s hsel) hg)
  | endA id f r t =>
    rw [endA_eq]
    unfold endR
    simp only [h.1, find?_cons, find?_nil]
    by_cases hid : (e.id == id) = true
    · right
      have : e.id = id := by simpa using hid
      exact ⟨f, r, t, by rw [this]⟩
    · left
      have hid' : (e.id == id) = false := by simpa using hid
      simp only [hid']
      exact ⟨by simp [SState.note, h.1], by simp [SState.note, h.2.1], by simp [SState.note, hsel], by simp [SState.note, h.2.2.2]⟩
  | rx ev => exact Or.inl (alone_frame e s _ h (frame_rx c s ev))
  | cbIn a b t => exact Or.inl (alone_frame e s _ h (frame_cbIn c s a b t))
  | cbOut a b t => exact Or.inl (alone_frame e s _ h (frame_cbOut c s a b t))
  | envMove => exact Or.inl (alone_frame e s _ h (frame_env c s))
  | verdict b x y z => exact Or.inl (alone_frame e s _ h (frame_verdict c s b x y z))
  | poll => exact Or.inl (alone_frame e s _ h (frame_poll c s))
  | other => exact Or.inl (alone_frame e s _ h (frame_other c s))

/-- over a whole continuation: as long as the attempt's END is not in the log, it stays alone -/
theorem alone_run (c : SCfg) (e : Entry) (mid : List Label) (s : SState) (h : Alone e s)
    (hno : ∀ l ∈ mid, ∀ f r t, l ≠ .endA e.id f r t) (hg : Good (mid.foldl (stepL c) s) = true) :
    Alone e (mid.foldl (stepL c) s) := by
  induction mid generalizing s with
  | nil => exact h
  | cons l rest ih =>
    simp only [foldl_cons] at hg ⊢
    have hmono : ∀ (ls : List Label) (s : SState), Good (ls.foldl (stepL c) s) = true → Good s = true := by
      intro ls
      induction ls with
      | nil => intro s h; exact h
      | cons l rest ih2 => intro s h; exact good_step_mono c s l (ih2 _ h)
    have hg1 : Good (stepL c s l) = true := hmono rest _ hg
    rcases alone_step c s l e h hg1 with h1 | ⟨f, r, t, hl⟩
    · exact ih (stepL c s l) h1 (fun l' hl' => hno l' (by simp [hl'])) hg
    · exact absurd hl (hno l (by simp) f r t)

/-- a dispatch of a single attempt into an empty runner establishes the situation -/
theorem alone_after_dispatch (c : SCfg) (s : SState) (n : Nat) (sl : Slots) (e : Entry)
    (hb : s.batch = [e]) (hr : s.running = []) (he : s.endedUnconsumed = 0) :
    Alone e (stepL c s (.disp n sl)) := by
  rw [disp_eq]
  have h1 : (disp1 s).batch = s.batch ∧ (disp1 s).running = s.running ∧ (disp1 s).endedUnconsumed = s.endedUnconsumed := by
    simp only [disp1, SState.inPhase, SState.checkExpectDone]
    repeat' split
    all_goals simp [SState.note]
  have hchk : ∀ (x : SState) (b : Bool) (cls : DClass) (m : String),
      (chk x b cls m).batch = x.batch ∧ (chk x b cls m).running = x.running ∧
      (chk x b cls m).endedUnconsumed = x.endedUnconsumed ∧ (chk x b cls m).phase = x.phase := by
    intro x b cls m; unfold chk; split <;> simp [SState.note]
  have h3 : (disp3 s).batch = s.batch ∧ (disp3 s).running = s.running ∧ (disp3 s).endedUnconsumed = s.endedUnconsumed ∧
      (disp3 s).phase = .selecting := ⟨h1.1, h1.2.1, h1.2.2, rfl⟩
  have h4 := hchk (disp3 s) (n == (disp3 s).batch.length) .K s!"dispatched {n}, batch {(disp3 s).batch.length}"
  have h5 := hchk (disp4 s n) (sl == (disp4 s n).slots.onDispatch (disp4 s n).batch.length) .K
    s!"slots after dispatch {repr sl}, model {repr ((disp4 s n).slots.onDispatch (disp4 s n).batch.length)}"
  have b5 : (disp5 s n sl).batch = [e] := by rw [disp5, h5.1, disp4, h4.1, h3.1, hb]
  have r5 : (disp5 s n sl).running = [] := by rw [disp5, h5.2.1, disp4, h4.2.1, h3.2.1, hr]
  have e5 : (disp5 s n sl).endedUnconsumed = 0 := by rw [disp5, h5.2.2.1, disp4, h4.2.2.1, h3.2.2.1, he]
  have p5 : (disp5 s n sl).phase = .selecting := by rw [disp5, h5.2.2.2, disp4, h4.2.2.2, h3.2.2.2]
  exact ⟨by simp [dispR, r5, b5], by simp [dispR, e5], by simp [dispR, p5], by simp [dispR]⟩

end Cuke.SchedSerial
