import Cuke.Model.Tag
/-!
# C15 — Filtering by name, tags or closure runs exactly the matching scenarios
Property theorems only. The model is `Cuke.keep`, `Cuke.filterFeat`, `Cuke.TagOp.eval`.
-/
namespace Cuke.C15
open Cuke

/-! ## Tag expressions are ordinary Boolean formulas over tag membership -/

theorem eval_and (l r : TagOp) (ts : List String) :
    (TagOp.and l r).eval ts = (l.eval ts && r.eval ts) := rfl

theorem eval_or (l r : TagOp) (ts : List String) :
    (TagOp.or l r).eval ts = (l.eval ts || r.eval ts) := rfl

theorem eval_not (t : TagOp) (ts : List String) :
    (TagOp.not t).eval ts = !(t.eval ts) := rfl

theorem eval_tag (s : String) (ts : List String) :
    (TagOp.tag s).eval ts = true ↔ s ∈ ts := by
  simp [TagOp.eval, List.any_eq_true]

/-- Truth-table semantics: the value of an expression under a valuation of its leaves. -/
def TagOp.sem (v : String → Prop) : TagOp → Prop
  | .and l r => TagOp.sem v l ∧ TagOp.sem v r
  | .or l r => TagOp.sem v l ∨ TagOp.sem v r
  | .not t => ¬ TagOp.sem v t
  | .tag s => v s

/-- `eval` is exactly the Boolean formula over "tag is a member of the list". -/
theorem eval_iff_sem (t : TagOp) (ts : List String) :
    t.eval ts = true ↔ TagOp.sem (fun s => s ∈ ts) t := by
  induction t with
  | and l r ihl ihr => simp [TagOp.eval, TagOp.sem, ihl, ihr]
  | or l r ihl ihr => simp [TagOp.eval, TagOp.sem, ihl, ihr]
  | not t ih =>
    simp only [TagOp.eval, TagOp.sem]
    rw [← ih]; cases t.eval ts <;> simp
  | tag s => exact eval_tag s ts

/-- The value only depends on the *set* of tags (order / duplicates are irrelevant). -/
theorem eval_congr_mem (t : TagOp) (ts ts' : List String) (h : ∀ s, s ∈ ts ↔ s ∈ ts') :
    t.eval ts = t.eval ts' := by
  have h1 := eval_iff_sem t ts
  have h2 := eval_iff_sem t ts'
  have : (fun s => s ∈ ts) = (fun s => s ∈ ts') := by funext s; exact propext (h s)
  rw [this] at h1
  cases h3 : t.eval ts <;> cases h4 : t.eval ts' <;> simp_all

/-! ## Precedence of the three filter sources -/

theorem keep_precedence_re (cfg : FilterCfg) (h : cfg.hasRe = true) (ft rt : List String) (s : FScen) :
    keep cfg ft rt s = s.reMatch := by simp [keep, h]

theorem keep_precedence_tags (cfg : FilterCfg) (h : cfg.hasRe = false) (t : TagOp) (ht : cfg.tags = some t)
    (ft rt : List String) (s : FScen) :
    keep cfg ft rt s = t.eval (ft ++ rt ++ s.tags) := by simp [keep, h, ht]

theorem keep_precedence_closure (cfg : FilterCfg) (h : cfg.hasRe = false) (ht : cfg.tags = none)
    (ft rt : List String) (s : FScen) :
    keep cfg ft rt s = s.closure := by simp [keep, h, ht]

/-- With a tag expression the scenario is kept iff the formula holds over the union of
    feature, rule and scenario tags. -/
theorem keep_tags_union (cfg : FilterCfg) (h : cfg.hasRe = false) (t : TagOp) (ht : cfg.tags = some t)
    (ft rt : List String) (s : FScen) :
    keep cfg ft rt s = true ↔ TagOp.sem (fun x => x ∈ ft ∨ x ∈ rt ∨ x ∈ s.tags) t := by
  rw [keep_precedence_tags cfg h t ht, eval_iff_sem]
  have : (fun x => x ∈ ft ++ rt ++ s.tags) = (fun x => x ∈ ft ∨ x ∈ rt ∨ x ∈ s.tags) := by
    funext x; simp
  rw [this]

/-! ## Exactly the accepted scenarios, in order, rest of the feature intact -/

/-- A scenario is handed on iff it was there and is accepted (top level). -/
theorem filter_exact_top (cfg : FilterCfg) (f : FFeat) (s : FScen) :
    s ∈ (filterFeat cfg f).scens ↔ s ∈ f.scens ∧ keep cfg f.tags [] s = true := by
  simp [filterFeat, List.mem_filter]

/-- The kept scenarios are a sublist of the original ones: original order, nothing duplicated. -/
theorem filter_in_order_top (cfg : FilterCfg) (f : FFeat) :
    List.Sublist (filterFeat cfg f).scens f.scens := by
  simp [filterFeat]

theorem filter_rules_length (cfg : FilterCfg) (f : FFeat) :
    (filterFeat cfg f).rules.length = f.rules.length := by simp [filterFeat]

/-- Per rule: exactly the accepted scenarios (the rule's own tags are inherited), and every rule
    is still present (even an emptied one), with its identity, tags and background. -/
theorem filter_exact_rule (cfg : FilterCfg) (f : FFeat) (i : Nat) (h : i < f.rules.length) :
    ∃ h' : i < (filterFeat cfg f).rules.length,
      let r := f.rules[i]
      let r' := (filterFeat cfg f).rules[i]
      r'.id = r.id ∧ r'.tags = r.tags ∧ r'.bg = r.bg ∧
      r'.scens = r.scens.filter (keep cfg f.tags r.tags) ∧
      List.Sublist r'.scens r.scens ∧
      (∀ s, s ∈ r'.scens ↔ s ∈ r.scens ∧ keep cfg f.tags r.tags s = true) := by
  refine ⟨by simpa [filterFeat] using h, ?_⟩
  simp [filterFeat, filterRule, List.mem_filter]

/-- Name, tags, background of the feature are untouched. -/
theorem filter_preserves_rest (cfg : FilterCfg) (f : FFeat) :
    (filterFeat cfg f).id = f.id ∧ (filterFeat cfg f).tags = f.tags ∧ (filterFeat cfg f).bg = f.bg := by
  simp [filterFeat]

/-! ## Non-vacuity -/
def exCfg : FilterCfg :=
  { hasRe := false, tags := some (TagOp.and (TagOp.tag "a") (TagOp.not (TagOp.tag "b"))) }
def exRule : FRule := { id := 0, tags := ["b"], bg := 0, scens := [⟨3, [], false, true⟩] }
def exFeat : FFeat :=
  { id := 0, tags := ["a"], bg := 1, scens := [⟨1, [], true, false⟩, ⟨2, ["b"], true, true⟩], rules := [exRule] }

example : (filterFeat exCfg exFeat).scens.map (·.id) = [1] ∧
    (filterFeat exCfg exFeat).rules.map (fun r => r.scens.length) = [0] := by
  decide

end Cuke.C15
