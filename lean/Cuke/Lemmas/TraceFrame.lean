import Cuke.Model.TraceFrame
/-!
  The framing round trip (C20): what the writer side appends, the reader side takes off again — for every
  text in which the terminator does not occur early (`Clean`), every id `u64` can print, any number of
  frames in one buffer.
-/
namespace Cuke.Frame
open List

set_option linter.unusedSimpArgs false
set_option linter.unusedVariables false

/-! ## splitting -/

theorem splitGo_skip (pat p rest acc : Str) : splitGo pat (p ++ rest) p.length acc = splitGo pat rest 0 acc := by
  induction p with
  | nil => rfl
  | cons c p ih => simpa [splitGo] using ih

theorem splitGo_no_occ (pat a tl acc : Str) (h : occursBefore pat (a ++ tl) a.length = false) :
    splitGo pat (a ++ tl) 0 acc = splitGo pat tl 0 (a.reverse ++ acc) := by
  induction a generalizing acc with
  | nil => rfl
  | cons c a ih =>
    simp only [cons_append, length_cons, occursBefore, Bool.or_eq_false_iff] at h
    simp only [cons_append, splitGo, h.1, Bool.false_eq_true, if_false]
    rw [ih (c :: acc) h.2]
    simp

theorem isPrefixOf_append_long (pat x rest : Str) (h : pat.length ≤ x.length) :
    pat.isPrefixOf (x ++ rest) = pat.isPrefixOf x := by
  induction pat generalizing x with
  | nil => simp [isPrefixOf]
  | cons p pat ih =>
    cases x with
    | nil => simp at h
    | cons c x =>
      simp only [cons_append, isPrefixOf, length_cons] at h ⊢
      rw [ih x (by omega)]

/-- whether the pattern occurs early does not depend on what follows the frame's own terminator -/
theorem occursBefore_irrel (pat a rest : Str) (n : Nat) (hn : n ≤ a.length) :
    occursBefore pat (a ++ pat ++ rest) n = occursBefore pat (a ++ pat) n := by
  induction a generalizing n with
  | nil =>
    have : n = 0 := by simpa using hn
    subst this
    cases (([] : Str) ++ pat ++ rest) <;> cases (([] : Str) ++ pat) <;> rfl
  | cons c a ih =>
    cases n with
    | zero => rfl
    | succ n =>
      simp only [cons_append, occursBefore, length_cons] at hn ⊢
      rw [ih n (by omega)]
      congr 1
      have := isPrefixOf_append_long pat (c :: (a ++ pat)) rest (by simp; omega)
      simpa [append_assoc] using this

/-- one frame off the front of the buffer -/
theorem split_frame (pat body rest : Str) (hp : pat ≠ [])
    (h : occursBefore pat (body ++ pat) body.length = false) :
    split pat (body ++ pat ++ rest) = body :: split pat rest := by
  unfold split
  have h' : occursBefore pat (body ++ (pat ++ rest)) body.length = false := by
    have := occursBefore_irrel pat body rest body.length (Nat.le_refl _)
    rw [append_assoc] at this
    rw [this]; exact h
  rw [append_assoc, splitGo_no_occ pat body (pat ++ rest) [] h']
  cases pat with
  | nil => exact absurd rfl hp
  | cons p pat' =>
    have hpre : (p :: pat').isPrefixOf (p :: (pat' ++ rest)) = true := by
      rw [isPrefixOf_iff_prefix]
      exact ⟨rest, by simp⟩
    simp only [cons_append, splitGo, hpre, if_true, append_nil, reverse_reverse, length_cons, Nat.add_sub_cancel]
    rw [splitGo_skip]

theorem split_frames (pat : Str) (hp : pat ≠ []) (bodies : List Str)
    (h : ∀ b ∈ bodies, occursBefore pat (b ++ pat) b.length = false) :
    split pat (bodies.flatMap (fun b => b ++ pat)) = bodies ++ [[]] := by
  induction bodies with
  | nil => rfl
  | cons b bs ih =>
    simp only [flatMap_cons]
    rw [split_frame pat b _ hp (h b (by simp)), ih (fun x hx => h x (by simp [hx]))]
    rfl

theorem splitTerminator_frames (pat : Str) (hp : pat ≠ []) (bodies : List Str)
    (h : ∀ b ∈ bodies, occursBefore pat (b ++ pat) b.length = false) :
    splitTerminator pat (bodies.flatMap (fun b => b ++ pat)) = bodies := by
  unfold splitTerminator
  rw [split_frames pat hp bodies h]
  simp

/-! ## one piece -/

theorem stripSuffix_append (suf s : Str) : stripSuffix suf (s ++ suf) = some s := by
  unfold stripSuffix
  have : suf.isSuffixOf (s ++ suf) = true := by
    rw [isSuffixOf_iff_suffix]; exact ⟨s, rfl⟩
  simp [this]

theorem getLast_of_suffix (suf s : Str) (c : Char) (h : suf.isSuffixOf s = true) (hs : suf.getLast? = some c) :
    s.getLast? = some c := by
  rw [isSuffixOf_iff_suffix] at h
  obtain ⟨t, rfl⟩ := h
  cases suf with
  | nil => simp at hs
  | cons x xs =>
    rw [getLast?_append, hs]; rfl

theorem digit_ne_underscore (c : Char) (h : isDigit c = true) : c ≠ '_' := by
  intro hc; subst hc; revert h; decide

theorem digit_ne_n (c : Char) (h : isDigit c = true) : c ≠ 'n' := by
  intro hc; subst hc; revert h; decide

theorem digit_ne_plus (c : Char) (h : isDigit c = true) : c ≠ '+' := by
  intro hc; subst hc; revert h; decide

theorem rfind_digits (ds : Str) (h : ds.all isDigit = true) : rfindSub SEP ds = none := by
  induction ds with
  | nil => rfl
  | cons d ds ih =>
    simp only [all_cons, Bool.and_eq_true] at h
    have hne : ('_' == d) = false := by
      have := digit_ne_underscore d h.1
      simpa using fun hc : '_' = d => this hc.symm
    rw [rfindSub, ih h.2]
    simp [SEP, isPrefixOf, hne]

theorem rfind_sep_digits (ds : Str) (hne : ds ≠ []) (h : ds.all isDigit = true) : rfindSub SEP (SEP ++ ds) = some 0 := by
  cases ds with
  | nil => exact absurd rfl hne
  | cons d ds =>
    simp only [all_cons, Bool.and_eq_true] at h
    have hd : ('_' == d) = false := by
      have := digit_ne_underscore d h.1
      simpa using fun hc : '_' = d => this hc.symm
    have h1 : rfindSub SEP (d :: ds) = none := rfind_digits (d :: ds) (by simp [h.1, h.2])
    have h2 : rfindSub SEP ('_' :: d :: ds) = none := by
      rw [rfindSub, h1]
      simp [SEP, isPrefixOf, hd]
    show rfindSub SEP ('_' :: '_' :: d :: ds) = some 0
    rw [rfindSub, h2]
    simp [SEP, isPrefixOf]

theorem rfind_text (text ds : Str) (hne : ds ≠ []) (h : ds.all isDigit = true) :
    rfindSub SEP (text ++ (SEP ++ ds)) = some text.length := by
  induction text with
  | nil => simpa using rfind_sep_digits ds hne h
  | cons c t ih =>
    rw [cons_append, rfindSub, ih]
    rfl

theorem rsplitOnce_frame (text ds : Str) (hne : ds ≠ []) (h : ds.all isDigit = true) :
    rsplitOnce SEP (text ++ (SEP ++ ds)) = some (text, ds) := by
  unfold rsplitOnce
  rw [rfind_text text ds hne h]
  simp [SEP]

theorem parseId_digits (ds : Str) (hne : ds ≠ []) (h : ds.all isDigit = true) (hv : decVal ds < 2 ^ 64) :
    parseId ds = some (decVal ds) := by
  cases ds with
  | nil => exact absurd rfl hne
  | cons d ds =>
    have hd : d ≠ '+' := digit_ne_plus d (by simp only [all_cons, Bool.and_eq_true] at h; exact h.1)
    unfold parseId
    have hh : ((d :: ds).head? == some '+') = false := by simpa using hd
    simp only [hh, Bool.false_eq_true, if_false]
    simp [h, hv]

/-- **one frame body comes back as written** -/
theorem unframeOne_body (ids : Option Str) (text : Str) (hid : idOk ids = true) :
    unframeOne (text ++ suffixOf ids) = some (ids.map decVal, text) := by
  cases ids with
  | none => simp [unframeOne, suffixOf, stripSuffix_append]
  | some ds =>
    simp only [idOk, Bool.and_eq_true, Bool.not_eq_true', decide_eq_true_eq] at hid
    obtain ⟨⟨hne, hall⟩, hv⟩ := hid
    have hne' : ds ≠ [] := by intro h0; simp [h0] at hne
    have hstrip : stripSuffix NOID (text ++ (SEP ++ ds)) = none := by
      unfold stripSuffix
      cases hs : NOID.isSuffixOf (text ++ (SEP ++ ds)) with
      | false => simp
      | true =>
        exfalso
        have h1 := getLast_of_suffix NOID _ 'n' hs (by decide)
        have hlast : (text ++ (SEP ++ ds)).getLast? = ds.getLast? := by
          cases hd : ds.getLast? with
          | none => simp [getLast?_eq_none_iff] at hd; exact absurd hd hne'
          | some x => rw [← append_assoc, getLast?_append, hd]; rfl
        rw [hlast] at h1
        have hmem : 'n' ∈ ds := mem_of_getLast? h1
        exact digit_ne_n 'n' (all_eq_true.mp hall _ hmem) rfl
    simp only [unframeOne, suffixOf, hstrip, rsplitOnce_frame text ds hne' hall, parseId_digits ds hne' hall hv, Option.map_some]

theorem unframeAll_bodies (frames : List (Option Str × Str)) (hid : ∀ f ∈ frames, idOk f.1 = true) :
    unframeAll (frames.map (fun f => f.2 ++ suffixOf f.1)) = (frames.map (fun f => (f.1.map decVal, f.2)), true) := by
  induction frames with
  | nil => rfl
  | cons f fs ih =>
    simp only [map_cons, unframeAll, unframeOne_body f.1 f.2 (hid f (by simp))]
    rw [ih (fun x hx => hid x (by simp [hx]))]

/-! ## `Clean` follows from "the text does not contain the terminator" -/

theorem isPrefixOf_append_split (p x w : Str) (hx : x.length ≤ p.length) (h : p.isPrefixOf (x ++ w) = true) :
    (p.drop x.length).isPrefixOf w = true := by
  induction x generalizing p with
  | nil => simpa using h
  | cons c x ih =>
    cases p with
    | nil => simp at hx
    | cons q p =>
      simp only [cons_append, isPrefixOf, Bool.and_eq_true, length_cons] at h hx ⊢
      simpa using ih p (by omega) h.2

theorem contains_cons_false (needle : Str) (c : Char) (t : Str) (h : contains needle (c :: t) = false) :
    needle.isPrefixOf (c :: t) = false ∧ contains needle t = false := by
  simpa [contains, Bool.or_eq_false_iff] using h

/-- no early occurrence, from: none inside the text, none straddling text and suffix (`hs`: no proper tail of
    the terminator is a prefix of suffix ++ terminator), none inside the suffix (`h0`) -/
theorem clean_core (sfx : Str)
    (hs : ∀ k, 1 ≤ k → k ≤ 19 → (END.drop k).isPrefixOf (sfx ++ END) = false)
    (h0 : occursBefore END (sfx ++ END) sfx.length = false) (text : Str) (ht : contains END text = false) :
    occursBefore END (text ++ (sfx ++ END)) (text.length + sfx.length) = false := by
  induction text with
  | nil => simpa using h0
  | cons c t ih =>
    obtain ⟨h1, h2⟩ := contains_cons_false END c t ht
    have hlen : (c :: t).length + sfx.length = (t.length + sfx.length) + 1 := by simp; omega
    rw [hlen]
    simp only [cons_append, occursBefore, Bool.or_eq_false_iff]
    refine ⟨?_, ih h2⟩
    by_cases hl : END.length ≤ (c :: t).length
    · have := isPrefixOf_append_long END (c :: t) (sfx ++ END) hl
      simp only [cons_append] at this
      rw [this]; exact h1
    · cases hp : END.isPrefixOf (c :: (t ++ (sfx ++ END))) with
      | false => rfl
      | true =>
        exfalso
        have hx : (c :: t).length ≤ END.length := by omega
        have := isPrefixOf_append_split END (c :: t) (sfx ++ END) hx (by simpa using hp)
        have hk := hs (c :: t).length (by simp) (by
          have : END.length = 20 := by decide
          omega)
        rw [hk] at this
        cases this

theorem digit_ne_of (c : Char) (hc : isDigit c = false) (d : Char) (hd : isDigit d = true) : (c == d) = false := by
  cases h : c == d with
  | false => rfl
  | true =>
    have : c = d := by simpa using h
    subst this
    rw [hc] at hd; cases hd

theorem occursBefore_digits (ds rest : Str) (h : ds.all isDigit = true) (n : Nat) :
    occursBefore END (ds ++ rest) n = occursBefore END rest (n - ds.length) := by
  induction ds generalizing n with
  | nil => simp
  | cons d ds ih =>
    simp only [all_cons, Bool.and_eq_true] at h
    cases n with
    | zero =>
      simp only [Nat.zero_sub]
      cases rest <;> simp [occursBefore]
    | succ n =>
      have hd : ('_' == d) = false := digit_ne_of '_' (by decide) d h.1
      simp only [cons_append, occursBefore, length_cons, Nat.add_sub_add_right]
      rw [ih h.2 n]
      simp [END, isPrefixOf, hd]

theorem noid_straddle : ∀ k : Fin 20, 1 ≤ k.val → (END.drop k.val).isPrefixOf (NOID ++ END) = false := by decide

theorem sep_straddle (d : Char) (ds : Str) (hd : isDigit d = true) (k : Nat) (h1 : 1 ≤ k) (h2 : k ≤ 19) :
    (END.drop k).isPrefixOf (SEP ++ (d :: ds) ++ END) = false := by
  have hs : ('s' == d) = false := digit_ne_of 's' (by decide) d hd
  have hk : k = 1 ∨ k = 2 ∨ k = 3 ∨ k = 4 ∨ k = 5 ∨ k = 6 ∨ k = 7 ∨ k = 8 ∨ k = 9 ∨ k = 10 ∨ k = 11 ∨ k = 12 ∨ k = 13 ∨
      k = 14 ∨ k = 15 ∨ k = 16 ∨ k = 17 ∨ k = 18 ∨ k = 19 := by omega
  rcases hk with rfl | rfl | rfl | rfl | rfl | rfl | rfl | rfl | rfl | rfl | rfl | rfl | rfl | rfl | rfl | rfl | rfl | rfl | rfl <;>
    simp [END, SEP, isPrefixOf, hs]

/-- **If the text does not contain the terminator, the frame is clean**: the only occurrence of the terminator
    in the frame is the one the writer appended — no occurrence straddles text and suffix, or suffix and
    terminator, whatever the id. -/
theorem clean_of_text (ids : Option Str) (text : Str) (hid : idOk ids = true) (ht : contains END text = false) :
    Clean ids text = true := by
  unfold Clean
  simp only [Bool.not_eq_true']
  rw [append_assoc, length_append]
  cases ids with
  | none =>
    apply clean_core NOID _ (by decide) text ht
    intro k h1 h2
    exact noid_straddle ⟨k, by omega⟩ h1
  | some ds =>
    simp only [idOk, Bool.and_eq_true, Bool.not_eq_true', decide_eq_true_eq] at hid
    obtain ⟨⟨hne, hall⟩, _⟩ := hid
    cases ds with
    | nil => simp at hne
    | cons d ds =>
      simp only [all_cons, Bool.and_eq_true] at hall
      apply clean_core (suffixOf (some (d :: ds))) _ _ text ht
      · intro k h1 h2
        have := sep_straddle d ds hall.1 k h1 h2
        simpa [suffixOf, append_assoc] using this
      · have hc : ('c' == d) = false := digit_ne_of 'c' (by decide) d hall.1
        have hu : ('_' == d) = false := digit_ne_of '_' (by decide) d hall.1
        have hdig := occursBefore_digits (d :: ds) END (by simp [hall.1, hall.2]) ((d :: ds).length)
        simp only [Nat.sub_self] at hdig
        have hz : occursBefore END END 0 = false := rfl
        rw [hz] at hdig
        simp only [suffixOf, SEP, cons_append, nil_append, length_cons, occursBefore, Bool.or_eq_false_iff]
        refine ⟨by simp [END, isPrefixOf, hc], by simp [END, isPrefixOf, hu], ?_⟩
        simpa [occursBefore, Bool.or_eq_false_iff] using hdig

end Cuke.Frame
