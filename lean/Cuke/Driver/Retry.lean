import Cuke.Model.Wire
import Cuke.Model.RetryOpts
import Cuke.Driver.Tag
/-! `retry.resolve`: tags + CLI + builder + duration oracle table -> resolved `RetryOptions`. -/
namespace Cuke.Driver
open Cuke Cuke.Wire

def durTable (tbl : List (String × Option Nat)) : List Char → Option Nat := fun d =>
  match tbl.find? (fun e => e.1.toList == d) with
  | some (_, v) => v
  | none => none

def showRetryOptions : Option RetryOptions → String
  | none => "-"
  | some o => s!"{o.retries.current} {o.retries.left} {showOpt toString o.after}"

def handleRetryResolve : Toks → Option String :=
  fun ts => runAll (do
    let sc ← list str
    let rule ← opt (list str)
    let feat ← list str
    let cRetry ← opt nat
    let cAfter ← opt nat
    let cFilter ← opt tagOp
    let bRetry ← opt nat
    let bAfter ← opt nat
    let bFilter ← opt tagOp
    let tbl ← list (do let k ← str; let v ← opt nat; pure (k, v))
    let cli : RunnerCli := { concurrency := none, failFast := false, retry := cRetry, retryAfter := cAfter, retryTagFilter := cFilter }
    let b : Builder := { retries := bRetry, retryAfter := bAfter, retryFilter := bFilter, maxConcurrent := none, failFast := false }
    pure (showRetryOptions (parseFromTags (durTable tbl) (mergeCli cli b) sc rule feat))) ts

end Cuke.Driver
