import Cuke.Lemmas.SchedSpin
import Cuke.Lemmas.SchedFin
/-!
  C08, clause (i) over WHOLE runs: under fail-fast, once an attempt has failed finally (`END … failed, not retried`
  while `execute` awaits its scenarios), every later dispatch dispatches nothing — for every log replayed without a
  disagreement, of any length.

  The invariant `AInv` ("armed"): the slot counter is `Break`, or the notification of a final failure is still pending /
  its trip is due — and then `execute` is not between `GET1` and `GET2` (a `features.get` that touches the queues only
  starts with every notification drained and no trip due, so it starts with `Break`). Under `AInv` a `features.get`
  asks for `Some(0)` and hands out nothing.
-/
namespace Cuke.SchedTrip
open Cuke List Cuke.SchedL Cuke.SchedInv Cuke.SchedOrd Cuke.SchedCons Cuke.SchedSpin

set_option linter.unusedSimpArgs false
set_option linter.unusedVariables false

def isFinal (x : Nat × ScenKey × Bool × Bool) : Bool := x.2.2.1 && !x.2.2.2
def pendingFinal (l : List (Nat × ScenKey × Bool × Bool)) : Bool := l.any isFinal

def AInv (s : SState) : Prop :=
  s.phase ≠ .init ∧ s.batch = [] ∧
    (s.slots = .brk ∨ ((pendingFinal s.notifs = true ∨ s.tripDue = true) ∧ s.phase ≠ .afterGet1))

/-- the fields the argument looks at -/
structure W where
  phase : Phase
  batch : List Entry
  slots : Slots
  notifs : List (Nat × ScenKey × Bool × Bool)
  trip : Bool

def ww (s : SState) : W := ⟨s.phase, s.batch, s.slots, s.notifs, s.tripDue⟩

syntax "ww_simp" : tactic
macro_rules
  | `(tactic| ww_simp) => `(tactic|
      (simp only [stepL, ww]
       repeat' split
       all_goals (simp [SState.note, SState.inPhase, SState.checkExpectDone, SState.followQueues] <;>
              (repeat' split) <;> simp [SState.note])))

theorem ww_tx (c : SCfg) (s : SState) (e : Ev) : ww (stepL c s (.tx e)) = ww s := by ww_simp
theorem ww_rx (c : SCfg) (s : SState) (e : Ev) : ww (stepL c s (.rx e)) = ww s := by ww_simp
theorem ww_other (c : SCfg) (s : SState) : ww (stepL c s .other) = ww s := by ww_simp
theorem ww_cbIn (c : SCfg) (s : SState) (a b t : Nat) : ww (stepL c s (.cbIn a b t)) = ww s := by ww_simp
theorem ww_cbOut (c : SCfg) (s : SState) (a b t : Nat) : ww (stepL c s (.cbOut a b t)) = ww s := by ww_simp
theorem ww_env (c : SCfg) (s : SState) : ww (stepL c s .envMove) = ww s := by ww_simp
theorem ww_pPend (c : SCfg) (s : SState) : ww (stepL c s .pPend) = ww s := by ww_simp
theorem ww_pWake (c : SCfg) (s : SState) : ww (stepL c s .pWake) = ww s := by ww_simp
theorem ww_pOk (c : SCfg) (s : SState) (f : Nat) : ww (stepL c s (.pOk f)) = ww s := by ww_simp
theorem ww_pErr (c : SCfg) (s : SState) : ww (stepL c s .pErr) = ww s := by ww_simp
theorem ww_pEnd (c : SCfg) (s : SState) : ww (stepL c s .pEnd) = ww s := by ww_simp
theorem ww_pFinish (c : SCfg) (s : SState) : ww (stepL c s .pFinish) = ww s := by ww_simp
theorem ww_ins (c : SCfg) (s : SState) (t : Nat) (a b : List QE) : ww (stepL c s (.ins t a b)) = ww s := by ww_simp
theorem ww_verdict (c : SCfg) (s : SState) (b : Bool) (x y z : Nat) : ww (stepL c s (.verdict b x y z)) = ww s := by ww_simp
theorem ww_poll (c : SCfg) (s : SState) : ww (stepL c s .poll) = ww s := by ww_simp

theorem ainv_of_ww (s s' : SState) (h : AInv s) (hv : ww s' = ww s) : AInv s' := by
  have e1 : s'.phase = s.phase := congrArg W.phase hv
  have e2 : s'.batch = s.batch := congrArg W.batch hv
  have e3 : s'.slots = s.slots := congrArg W.slots hv
  have e4 : s'.notifs = s.notifs := congrArg W.notifs hv
  have e5 : s'.tripDue = s.tripDue := congrArg W.trip hv
  unfold AInv
  rw [e1, e2, e3, e4, e5]
  exact h

theorem ww_hookTake (c : SCfg) (s : SState) (hs : s.dis = []) (hc : (stepL c s .hookTake).dis = []) :
    s.phase = .init := (vw_hookTake c s hs hc).1

theorem ww_hookRestore (c : SCfg) (s : SState) (hs : s.dis = []) (hc : (stepL c s .hookRestore).dis = []) :
    ww (stepL c s .hookRestore) = ww s := by
  cases hp : s.phase <;> cases he : expEmpty s.expect <;> cases hh : s.hookTaken <;>
    simp [stepL, SState.inPhase, SState.note, SState.checkExpectDone, hp, he, hh, hs, ww] at hc ⊢

theorem ww_exit (c : SCfg) (s : SState) (hs : s.dis = []) (hc : (stepL c s .exit).dis = []) :
    ww (stepL c s .exit) = { ww s with phase := .exited } := by
  cases hp : s.phase <;> cases hh : s.hookTaken <;>
    simp [stepL, SState.inPhase, SState.note, hp, hh, hs, ww] at hc ⊢

theorem ww_get1 (c : SCfg) (s : SState) (t : Nat) (ask : Option Nat) (ns nc : Nat) (hs : s.dis = [])
    (hc : (stepL c s (.get1 t ask ns nc)).dis = []) :
    s.notifs = [] ∧ s.tripDue = false ∧ ww (stepL c s (.get1 t ask ns nc)) = { ww s with phase := .afterGet1 } := by
  cases hp : s.phase <;> cases ht : s.tripDue <;> cases h1 : (ask == s.slots.ask) <;>
    cases h2 : (ns == s.q.serial.length && nc == s.q.conc.length) <;> cases h3 : s.notifs.isEmpty <;>
    simp [stepL, SState.inPhase, SState.note, hp, ht, h1, h2, h3, hs, ww] at hc ⊢ <;>
    simp_all [List.isEmpty_iff]

theorem ww_idle (c : SCfg) (s : SState) (fin sl : Bool) (hs : s.dis = []) (hc : (stepL c s (.idle fin sl)).dis = []) :
    ww (stepL c s (.idle fin sl)) = { ww s with phase := if fin then .exiting else .idle1 } := by
  cases hp : s.phase <;> cases fin <;>
    cases h1 : (s.running.isEmpty && s.endedUnconsumed == 0 && s.batch.isEmpty) <;>
    cases h2 : (isFinished s.parserDone s.slots.isBrk s.q) <;>
    simp [stepL, SState.inPhase, SState.note, hp, h1, h2, hs, ww] at hc ⊢

theorem ww_idleYield (c : SCfg) (s : SState) (hs : s.dis = []) (hc : (stepL c s .idleYield).dis = []) :
    ww (stepL c s .idleYield) = { ww s with phase := .idle2 } := by
  cases hp : s.phase <;> cases hi : s.idleSleep <;>
    simp [stepL, SState.inPhase, SState.note, hp, hi, hs, ww] at hc ⊢

theorem ww_idleSlept (c : SCfg) (s : SState) (hs : s.dis = []) (hc : (stepL c s .idleSlept).dis = []) :
    ww (stepL c s .idleSlept) = { ww s with phase := .idle2 } := by
  cases hp : s.phase <;> cases hi : s.idleSleep <;>
    simp [stepL, SState.inPhase, SState.note, hp, hi, hs, ww] at hc ⊢

theorem ww_idleContinue (c : SCfg) (s : SState) (hs : s.dis = []) (hc : (stepL c s .idleContinue).dis = []) :
    ww (stepL c s .idleContinue) = { ww s with phase := .loopTop } := by
  cases hp : s.phase <;> cases hq : s.polledIdle <;> cases hi : s.idleSuspended <;>
    simp [stepL, SState.inPhase, SState.note, hp, hq, hi, hs, ww] at hc ⊢

theorem ww_brk (c : SCfg) (s : SState) :
    (stepL c s .brk).slots = .brk ∧ (stepL c s .brk).phase = s.phase ∧ (stepL c s .brk).batch = s.batch := by
  simp only [stepL]
  refine ⟨trivial, ?_, ?_⟩ <;> (simp [SState.inPhase]; repeat' split) <;> simp [SState.note]

theorem ww_cons (c : SCfg) (s : SState) (got : Bool) (hs : s.dis = []) (hc : (stepL c s (.cons got)).dis = []) :
    ww (stepL c s (.cons got)) = { ww s with phase := .draining, slots := s.slots.onConsume } := by
  cases hp : s.phase <;> cases got <;> cases h1 : (decide (s.endedUnconsumed > 0)) <;>
    simp [stepL, SState.inPhase, SState.note, hp, hs, ww] at hc ⊢ <;> simp_all

theorem ww_endA (c : SCfg) (s : SState) (id : Nat) (f r : Bool) (t : Nat) (hs : s.dis = [])
    (hc : (stepL c s (.endA id f r t)).dis = []) :
    ∃ k, ww (stepL c s (.endA id f r t)) = { ww s with notifs := s.notifs ++ [(id, k, f, r)] } := by
  rw [endA_eq] at hc ⊢
  unfold endR at hc ⊢
  cases hf : s.running.find? (fun e => e.id == id) with
  | none => simp [hf, SState.note, hs] at hc
  | some e =>
    refine ⟨e.key, ?_⟩
    cases hm : (r == (nextTry e.ret f).isSome) <;> simp [hf, hm, SState.note, hs, ww] at hc ⊢

theorem ww_disp (c : SCfg) (s : SState) (n : Nat) (sl : Slots) (hs : s.dis = [])
    (hc : (stepL c s (.disp n sl)).dis = []) :
    n = s.batch.length ∧
      ww (stepL c s (.disp n sl)) =
        { ww s with phase := .selecting, slots := s.slots.onDispatch s.batch.length, batch := [] } := by
  rw [disp_eq] at hc ⊢
  unfold dispR disp5 disp4 disp3 disp1 chk at hc ⊢
  cases hp : s.phase <;> cases he : expEmpty s.expect <;> cases h1 : (n == s.batch.length) <;>
    cases h2 : (sl == s.slots.onDispatch s.batch.length) <;>
    simp [SState.inPhase, SState.checkExpectDone, SState.note, hp, he, h1, h2, hs, ww] at hc ⊢ <;> simp_all

theorem ww_notif (c : SCfg) (s : SState) (id : Nat) (f r : Bool) (hs : s.dis = [])
    (hc : (stepL c s (.notif id f r)).dis = []) :
    ∃ k rest, s.notifs = (id, k, f, r) :: rest ∧ s.tripDue = false ∧
      ww (stepL c s (.notif id f r)) = { ww s with notifs := rest, trip := tripFailFast c.failFast f r } := by
  cases hn : s.notifs with
  | nil =>
    exfalso
    cases hp : s.phase <;> simp [stepL, SState.inPhase, SState.note, hp, hn, hs] at hc
  | cons x rest =>
    obtain ⟨nid, k, f', r'⟩ := x
    refine ⟨k, rest, ?_⟩
    cases hp : s.phase <;> cases hcnd : (nid == id && f' == f && r' == r && !s.tripDue) <;>
      cases he : expEmpty s.expect <;>
      cases hsf : scenarioFinished s.br k r (c.nRule k.feat (k.rule.getD 0)) (c.nFeat k.feat) <;>
      simp [stepL, SState.inPhase, SState.note, SState.checkExpectDone, hp, hn, hcnd, he, hsf, hs, ww] at hc ⊢ <;>
      simp_all

/-! ### `features.get` returned -/
theorem get2a_clean (s : SState) (hs : s.dis = []) (ha : (get2a s).dis = []) :
    (s.phase = .afterGet1 ∨ (s.slots.ask = some 0 ∧ s.tripDue = false)) ∧
      ww (get2a s) = ww s ∧ (get2a s).q = s.q := by
  cases hp : s.phase <;> cases hk : (s.slots.ask == some 0) <;> cases ht : s.tripDue <;>
    simp [get2a, SState.inPhase, SState.note, hp, hk, ht, hs, ww] at ha ⊢ <;> simp_all

theorem ww_get2_explicit (c : SCfg) (s : SState) (t2 : Nat) (slots : Slots) (got : List Nat) (sleep : Bool) (running : Nat)
    (hs : s.dis = []) (hc : (stepL c s (.get2 t2 slots got sleep running)).dis = []) :
    (s.phase = .afterGet1 ∨ (s.slots.ask = some 0 ∧ s.tripDue = false)) ∧
      ww (stepL c s (.get2 t2 slots got sleep running)) =
        { ww s with phase := .afterGet2, batch := (getBatch (get2ready (get2c s) t2 got) s.slots.ask s.q).1 } ∧
      (get2c s).lastGet1 = s.lastGet1 := by
  rw [get2_eq] at hc ⊢
  -- every stage is clean
  have hcc : (get2a s).dis <+: (get2c s).dis := by
    unfold get2c; exact ced_prefix ({ get2a s with phase := .afterGet2 } : SState) _
  have hcd : (get2c s).dis <+: (get2d s slots).dis := by
    unfold get2d; split
    · exact List.prefix_refl _
    · exact note_prefix _ _ _
  have hde : (get2d s slots).dis <+: (get2e s slots running).dis := by
    unfold get2e; split
    · exact List.prefix_refl _
    · exact note_prefix _ _ _
  have her : (get2e s slots running).dis <+: (get2R s t2 slots got sleep running).dis := by
    unfold get2R
    simp only
    split
    · split
      · exact List.prefix_refl _
      · exact note_prefix _ _ _
    · exact note_prefix _ _ _
  have hE : (get2e s slots running).dis = [] := by rw [hc] at her; exact List.prefix_nil.mp her
  have hD : (get2d s slots).dis = [] := by rw [hE] at hde; exact List.prefix_nil.mp hde
  have hC : (get2c s).dis = [] := by rw [hD] at hcd; exact List.prefix_nil.mp hcd
  have hA : (get2a s).dis = [] := by rw [hC] at hcc; exact List.prefix_nil.mp hcc
  obtain ⟨hph, hwa, hqa⟩ := get2a_clean s hs hA
  have hlg : (get2c s).lastGet1 = s.lastGet1 := by
    unfold get2c SState.checkExpectDone get2a SState.inPhase
    simp only
    repeat' split
    all_goals simp [SState.note]
  refine ⟨hph, ?_, hlg⟩
  -- the stages leave the watched fields alone
  have eC : ww (get2c s) = { ww s with phase := .afterGet2 } ∧ (get2c s).q = s.q := by
    have e1 : (get2a s).batch = s.batch := congrArg W.batch hwa
    have e2 : (get2a s).slots = s.slots := congrArg W.slots hwa
    have e3 : (get2a s).notifs = s.notifs := congrArg W.notifs hwa
    have e4 : (get2a s).tripDue = s.tripDue := congrArg W.trip hwa
    unfold get2c SState.checkExpectDone
    split <;> simp [SState.note, ww, e1, e2, e3, e4, hqa]
  have eD : get2d s slots = get2c s := by
    unfold get2d at hD ⊢
    split
    · rfl
    · rename_i hne; rw [if_neg hne] at hD; simp [SState.note] at hD
  have eE : get2e s slots running = get2c s := by
    unfold get2e at hE ⊢
    split
    · exact eD
    · rename_i hne; rw [if_neg hne] at hE; simp [SState.note] at hE
  have e1 : (get2c s).batch = s.batch := congrArg W.batch eC.1
  have e2 : (get2c s).slots = s.slots := congrArg W.slots eC.1
  have e3 : (get2c s).notifs = s.notifs := congrArg W.notifs eC.1
  have e4 : (get2c s).tripDue = s.tripDue := congrArg W.trip eC.1
  have e5 : (get2c s).phase = .afterGet2 := congrArg W.phase eC.1
  unfold get2R at hc ⊢
  simp only [eE] at hc ⊢
  split
  · rename_i hg
    rw [if_pos hg] at hc
    split
    · simp [ww, e1, e2, e3, e4, e5, eC.2]
    · simp [SState.note, ww, e1, e2, e3, e4, e5, eC.2]
  · rename_i hg
    rw [if_neg hg] at hc
    simp [SState.note] at hc

theorem ww_get2 (c : SCfg) (s : SState) (t2 : Nat) (slots : Slots) (got : List Nat) (sleep : Bool) (running : Nat)
    (hs : s.dis = []) (hc : (stepL c s (.get2 t2 slots got sleep running)).dis = []) :
    (s.phase = .afterGet1 ∨ (s.slots.ask = some 0 ∧ s.tripDue = false)) ∧
      ∃ ready, ww (stepL c s (.get2 t2 slots got sleep running)) =
        { ww s with phase := .afterGet2, batch := (getBatch ready s.slots.ask s.q).1 } := by
  obtain ⟨h1, h2, _⟩ := ww_get2_explicit c s t2 slots got sleep running hs hc
  exact ⟨h1, _, h2⟩

theorem getBatch_all_ready' (ready : Entry → Bool) (ask : Option Nat) (q : Queues) :
    ∀ e ∈ (getBatch ready ask q).1, ready e = true := by
  unfold getBatch
  by_cases h0 : (ask == some 0) = true
  · simp [h0]
  · simp only [h0, Bool.false_eq_true, if_false]
    split
    · exact drainQ_all_ready ready _ _
    · exact drainQ_all_ready ready _ _

theorem getBatch_zero (ready : Entry → Bool) (q : Queues) : (getBatch ready (some 0) q).1 = [] := by
  simp [getBatch]

theorem pendingFinal_append (l m : List (Nat × ScenKey × Bool × Bool)) (h : pendingFinal l = true) :
    pendingFinal (l ++ m) = true := by
  simp only [pendingFinal, any_append, Bool.or_eq_true]; exact Or.inl h

/-- **one step**: under fail-fast the armed state survives every label replayed without a disagreement, and a
    dispatch in it dispatches nothing -/
theorem ainv_step (c : SCfg) (hff : c.failFast = true) (s : SState) (l : Label) (h : AInv s)
    (hc : Clean0 (stepL c s l) = true) :
    AInv (stepL c s l) ∧ ∀ n sl, l = .disp n sl → n = 0 := by
  have hs0 : Clean0 s = true := clean0_step_mono c s l hc
  have hs : s.dis = [] := by simpa [Clean0] using hs0
  have hd : (stepL c s l).dis = [] := by simpa [Clean0] using hc
  have nodisp : ∀ {l : Label}, (∀ n sl, l ≠ .disp n sl) → ∀ n sl, l = .disp n sl → n = 0 :=
    fun hne n sl he => absurd he (hne n sl)
  obtain ⟨hni, hb, harm⟩ := h
  cases l with
  | tx e => exact ⟨ainv_of_ww s _ ⟨hni, hb, harm⟩ (ww_tx c s e), nodisp (by intro _ _ hh; cases hh)⟩
  | rx e => exact ⟨ainv_of_ww s _ ⟨hni, hb, harm⟩ (ww_rx c s e), nodisp (by intro _ _ hh; cases hh)⟩
  | other => exact ⟨ainv_of_ww s _ ⟨hni, hb, harm⟩ (ww_other c s), nodisp (by intro _ _ hh; cases hh)⟩
  | cbIn a b t => exact ⟨ainv_of_ww s _ ⟨hni, hb, harm⟩ (ww_cbIn c s a b t), nodisp (by intro _ _ hh; cases hh)⟩
  | cbOut a b t => exact ⟨ainv_of_ww s _ ⟨hni, hb, harm⟩ (ww_cbOut c s a b t), nodisp (by intro _ _ hh; cases hh)⟩
  | envMove => exact ⟨ainv_of_ww s _ ⟨hni, hb, harm⟩ (ww_env c s), nodisp (by intro _ _ hh; cases hh)⟩
  | pPend => exact ⟨ainv_of_ww s _ ⟨hni, hb, harm⟩ (ww_pPend c s), nodisp (by intro _ _ hh; cases hh)⟩
  | pWake => exact ⟨ainv_of_ww s _ ⟨hni, hb, harm⟩ (ww_pWake c s), nodisp (by intro _ _ hh; cases hh)⟩
  | pOk f => exact ⟨ainv_of_ww s _ ⟨hni, hb, harm⟩ (ww_pOk c s f), nodisp (by intro _ _ hh; cases hh)⟩
  | pErr => exact ⟨ainv_of_ww s _ ⟨hni, hb, harm⟩ (ww_pErr c s), nodisp (by intro _ _ hh; cases hh)⟩
  | pEnd => exact ⟨ainv_of_ww s _ ⟨hni, hb, harm⟩ (ww_pEnd c s), nodisp (by intro _ _ hh; cases hh)⟩
  | pFinish => exact ⟨ainv_of_ww s _ ⟨hni, hb, harm⟩ (ww_pFinish c s), nodisp (by intro _ _ hh; cases hh)⟩
  | ins t a b => exact ⟨ainv_of_ww s _ ⟨hni, hb, harm⟩ (ww_ins c s t a b), nodisp (by intro _ _ hh; cases hh)⟩
  | verdict b x y z => exact ⟨ainv_of_ww s _ ⟨hni, hb, harm⟩ (ww_verdict c s b x y z), nodisp (by intro _ _ hh; cases hh)⟩
  | poll => exact ⟨ainv_of_ww s _ ⟨hni, hb, harm⟩ (ww_poll c s), nodisp (by intro _ _ hh; cases hh)⟩
  | hookRestore => exact ⟨ainv_of_ww s _ ⟨hni, hb, harm⟩ (ww_hookRestore c s hs hd), nodisp (by intro _ _ hh; cases hh)⟩
  | hookTake => exact absurd (ww_hookTake c s hs hd) hni
  | exit =>
    have hv := ww_exit c s hs hd
    have e1 : (stepL c s .exit).phase = .exited := congrArg W.phase hv
    have e2 : (stepL c s .exit).batch = s.batch := congrArg W.batch hv
    have e3 : (stepL c s .exit).slots = s.slots := congrArg W.slots hv
    have e4 : (stepL c s .exit).notifs = s.notifs := congrArg W.notifs hv
    have e5 : (stepL c s .exit).tripDue = s.tripDue := congrArg W.trip hv
    refine ⟨⟨by rw [e1]; simp, by rw [e2]; exact hb, ?_⟩, nodisp (by intro _ _ hh; cases hh)⟩
    rw [e1, e3, e4, e5]
    rcases harm with h | h
    · exact Or.inl h
    · exact Or.inr ⟨h.1, by simp⟩
  | get1 t ask ns nc =>
    obtain ⟨hn, ht, hv⟩ := ww_get1 c s t ask ns nc hs hd
    have e1 : (stepL c s (.get1 t ask ns nc)).phase = .afterGet1 := congrArg W.phase hv
    have e2 : (stepL c s (.get1 t ask ns nc)).batch = s.batch := congrArg W.batch hv
    have e3 : (stepL c s (.get1 t ask ns nc)).slots = s.slots := congrArg W.slots hv
    have hbrk : s.slots = .brk := by
      rcases harm with h | h
      · exact h
      · exfalso; rcases h.1 with h1 | h1
        · rw [hn] at h1; simp [pendingFinal] at h1
        · rw [ht] at h1; cases h1
    exact ⟨⟨by rw [e1]; simp, by rw [e2]; exact hb, Or.inl (by rw [e3]; exact hbrk)⟩, nodisp (by intro _ _ hh; cases hh)⟩
  | get2 t2 slots got sleep running =>
    obtain ⟨hph, ready, hv⟩ := ww_get2 c s t2 slots got sleep running hs hd
    have e1 : (stepL c s (.get2 t2 slots got sleep running)).phase = .afterGet2 := congrArg W.phase hv
    have e2 : (stepL c s (.get2 t2 slots got sleep running)).batch = (getBatch ready s.slots.ask s.q).1 := congrArg W.batch hv
    have e3 : (stepL c s (.get2 t2 slots got sleep running)).slots = s.slots := congrArg W.slots hv
    have e4 : (stepL c s (.get2 t2 slots got sleep running)).notifs = s.notifs := congrArg W.notifs hv
    have e5 : (stepL c s (.get2 t2 slots got sleep running)).tripDue = s.tripDue := congrArg W.trip hv
    have hask : s.slots.ask = some 0 := by
      rcases harm with h | h
      · rw [h]; rfl
      · rcases hph with hp | hp
        · exact absurd hp h.2
        · exact hp.1
    refine ⟨⟨by rw [e1]; simp, by rw [e2, hask]; exact getBatch_zero _ _, ?_⟩, nodisp (by intro _ _ hh; cases hh)⟩
    rw [e1, e3, e4, e5]
    rcases harm with h | h
    · exact Or.inl h
    · exact Or.inr ⟨h.1, by simp⟩
  | idle fin sl =>
    have hv := ww_idle c s fin sl hs hd
    have e1 : (stepL c s (.idle fin sl)).phase = if fin then .exiting else .idle1 := congrArg W.phase hv
    have e2 : (stepL c s (.idle fin sl)).batch = s.batch := congrArg W.batch hv
    have e3 : (stepL c s (.idle fin sl)).slots = s.slots := congrArg W.slots hv
    have e4 : (stepL c s (.idle fin sl)).notifs = s.notifs := congrArg W.notifs hv
    have e5 : (stepL c s (.idle fin sl)).tripDue = s.tripDue := congrArg W.trip hv
    refine ⟨⟨by rw [e1]; cases fin <;> simp, by rw [e2]; exact hb, ?_⟩, nodisp (by intro _ _ hh; cases hh)⟩
    rw [e1, e3, e4, e5]
    rcases harm with h | h
    · exact Or.inl h
    · exact Or.inr ⟨h.1, by cases fin <;> simp⟩
  | idleYield =>
    have hv := ww_idleYield c s hs hd
    have e1 : (stepL c s .idleYield).phase = .idle2 := congrArg W.phase hv
    have e2 : (stepL c s .idleYield).batch = s.batch := congrArg W.batch hv
    have e3 : (stepL c s .idleYield).slots = s.slots := congrArg W.slots hv
    have e4 : (stepL c s .idleYield).notifs = s.notifs := congrArg W.notifs hv
    have e5 : (stepL c s .idleYield).tripDue = s.tripDue := congrArg W.trip hv
    refine ⟨⟨by rw [e1]; simp, by rw [e2]; exact hb, ?_⟩, nodisp (by intro _ _ hh; cases hh)⟩
    rw [e1, e3, e4, e5]
    rcases harm with h | h
    · exact Or.inl h
    · exact Or.inr ⟨h.1, by simp⟩
  | idleSlept =>
    have hv := ww_idleSlept c s hs hd
    have e1 : (stepL c s .idleSlept).phase = .idle2 := congrArg W.phase hv
    have e2 : (stepL c s .idleSlept).batch = s.batch := congrArg W.batch hv
    have e3 : (stepL c s .idleSlept).slots = s.slots := congrArg W.slots hv
    have e4 : (stepL c s .idleSlept).notifs = s.notifs := congrArg W.notifs hv
    have e5 : (stepL c s .idleSlept).tripDue = s.tripDue := congrArg W.trip hv
    refine ⟨⟨by rw [e1]; simp, by rw [e2]; exact hb, ?_⟩, nodisp (by intro _ _ hh; cases hh)⟩
    rw [e1, e3, e4, e5]
    rcases harm with h | h
    · exact Or.inl h
    · exact Or.inr ⟨h.1, by simp⟩
  | idleContinue =>
    have hv := ww_idleContinue c s hs hd
    have e1 : (stepL c s .idleContinue).phase = .loopTop := congrArg W.phase hv
    have e2 : (stepL c s .idleContinue).batch = s.batch := congrArg W.batch hv
    have e3 : (stepL c s .idleContinue).slots = s.slots := congrArg W.slots hv
    have e4 : (stepL c s .idleContinue).notifs = s.notifs := congrArg W.notifs hv
    have e5 : (stepL c s .idleContinue).tripDue = s.tripDue := congrArg W.trip hv
    refine ⟨⟨by rw [e1]; simp, by rw [e2]; exact hb, ?_⟩, nodisp (by intro _ _ hh; cases hh)⟩
    rw [e1, e3, e4, e5]
    rcases harm with h | h
    · exact Or.inl h
    · exact Or.inr ⟨h.1, by simp⟩
  | brk =>
    obtain ⟨e3, e1, e2⟩ := ww_brk c s
    exact ⟨⟨by rw [e1]; exact hni, by rw [e2]; exact hb, Or.inl e3⟩, nodisp (by intro _ _ hh; cases hh)⟩
  | cons got =>
    have hv := ww_cons c s got hs hd
    have e1 : (stepL c s (.cons got)).phase = .draining := congrArg W.phase hv
    have e2 : (stepL c s (.cons got)).batch = s.batch := congrArg W.batch hv
    have e3 : (stepL c s (.cons got)).slots = s.slots.onConsume := congrArg W.slots hv
    have e4 : (stepL c s (.cons got)).notifs = s.notifs := congrArg W.notifs hv
    have e5 : (stepL c s (.cons got)).tripDue = s.tripDue := congrArg W.trip hv
    refine ⟨⟨by rw [e1]; simp, by rw [e2]; exact hb, ?_⟩, nodisp (by intro _ _ hh; cases hh)⟩
    rw [e1, e3, e4, e5]
    rcases harm with h | h
    · exact Or.inl (by rw [h]; rfl)
    · exact Or.inr ⟨h.1, by simp⟩
  | endA id f r t =>
    obtain ⟨k, hv⟩ := ww_endA c s id f r t hs hd
    have e1 : (stepL c s (.endA id f r t)).phase = s.phase := congrArg W.phase hv
    have e2 : (stepL c s (.endA id f r t)).batch = s.batch := congrArg W.batch hv
    have e3 : (stepL c s (.endA id f r t)).slots = s.slots := congrArg W.slots hv
    have e4 : (stepL c s (.endA id f r t)).notifs = s.notifs ++ [(id, k, f, r)] := congrArg W.notifs hv
    have e5 : (stepL c s (.endA id f r t)).tripDue = s.tripDue := congrArg W.trip hv
    refine ⟨⟨by rw [e1]; exact hni, by rw [e2]; exact hb, ?_⟩, nodisp (by intro _ _ hh; cases hh)⟩
    rw [e1, e3, e4, e5]
    rcases harm with h | h
    · exact Or.inl h
    · refine Or.inr ⟨?_, h.2⟩
      rcases h.1 with h1 | h1
      · exact Or.inl (pendingFinal_append _ _ h1)
      · exact Or.inr h1
  | notif id f r =>
    obtain ⟨k, rest, hn, ht, hv⟩ := ww_notif c s id f r hs hd
    have e1 : (stepL c s (.notif id f r)).phase = s.phase := congrArg W.phase hv
    have e2 : (stepL c s (.notif id f r)).batch = s.batch := congrArg W.batch hv
    have e3 : (stepL c s (.notif id f r)).slots = s.slots := congrArg W.slots hv
    have e4 : (stepL c s (.notif id f r)).notifs = rest := congrArg W.notifs hv
    have e5 : (stepL c s (.notif id f r)).tripDue = tripFailFast c.failFast f r := congrArg W.trip hv
    refine ⟨⟨by rw [e1]; exact hni, by rw [e2]; exact hb, ?_⟩, nodisp (by intro _ _ hh; cases hh)⟩
    rw [e1, e3, e4, e5]
    rcases harm with h | h
    · exact Or.inl h
    · refine Or.inr ⟨?_, h.2⟩
      rcases h.1 with h1 | h1
      · rw [hn] at h1
        simp only [pendingFinal, any_cons, Bool.or_eq_true] at h1
        rcases h1 with h1 | h1
        · right
          simp only [isFinal, Bool.and_eq_true, Bool.not_eq_true'] at h1
          simp [tripFailFast, hff, h1.1, h1.2]
        · exact Or.inl h1
      · rw [ht] at h1; cases h1
  | disp n sl =>
    obtain ⟨hn, hv⟩ := ww_disp c s n sl hs hd
    have e1 : (stepL c s (.disp n sl)).phase = .selecting := congrArg W.phase hv
    have e2 : (stepL c s (.disp n sl)).batch = [] := congrArg W.batch hv
    have e3 : (stepL c s (.disp n sl)).slots = s.slots.onDispatch s.batch.length := congrArg W.slots hv
    have e4 : (stepL c s (.disp n sl)).notifs = s.notifs := congrArg W.notifs hv
    have e5 : (stepL c s (.disp n sl)).tripDue = s.tripDue := congrArg W.trip hv
    refine ⟨⟨by rw [e1]; simp, e2, ?_⟩, ?_⟩
    · rw [e1, e3, e4, e5]
      rcases harm with h | h
      · exact Or.inl (by rw [h]; rfl)
      · exact Or.inr ⟨h.1, by simp⟩
    · intro n' sl' hh
      cases hh
      rw [hn, hb]; rfl

/-- once tripped, always tripped: `AInv` with the first disjunct -/
def Tripped (s : SState) : Prop := s.phase ≠ .init ∧ s.slots = .brk

theorem tripped_step (c : SCfg) (s : SState) (l : Label) (h : Tripped s) (hc : Clean0 (stepL c s l) = true) :
    Tripped (stepL c s l) := by
  have hs0 : Clean0 s = true := clean0_step_mono c s l hc
  have hs : s.dis = [] := by simpa [Clean0] using hs0
  have hd : (stepL c s l).dis = [] := by simpa [Clean0] using hc
  obtain ⟨hni, hb⟩ := h
  have same : ∀ s' : SState, ww s' = ww s → Tripped s' := by
    intro s' hv
    have e1 : s'.phase = s.phase := congrArg W.phase hv
    have e3 : s'.slots = s.slots := congrArg W.slots hv
    exact ⟨by rw [e1]; exact hni, by rw [e3]; exact hb⟩
  have moved : ∀ (s' : SState) (p : Phase), p ≠ .init → s'.phase = p → s'.slots = s.slots → Tripped s' :=
    fun s' p hp e1 e3 => ⟨by rw [e1]; exact hp, by rw [e3]; exact hb⟩
  cases l with
  | tx e => exact same _ (ww_tx c s e)
  | rx e => exact same _ (ww_rx c s e)
  | other => exact same _ (ww_other c s)
  | cbIn a b t => exact same _ (ww_cbIn c s a b t)
  | cbOut a b t => exact same _ (ww_cbOut c s a b t)
  | envMove => exact same _ (ww_env c s)
  | pPend => exact same _ (ww_pPend c s)
  | pWake => exact same _ (ww_pWake c s)
  | pOk f => exact same _ (ww_pOk c s f)
  | pErr => exact same _ (ww_pErr c s)
  | pEnd => exact same _ (ww_pEnd c s)
  | pFinish => exact same _ (ww_pFinish c s)
  | ins t a b => exact same _ (ww_ins c s t a b)
  | verdict b x y z => exact same _ (ww_verdict c s b x y z)
  | poll => exact same _ (ww_poll c s)
  | hookRestore => exact same _ (ww_hookRestore c s hs hd)
  | hookTake => exact absurd (ww_hookTake c s hs hd) hni
  | exit =>
    have hv := ww_exit c s hs hd
    exact moved _ .exited (by simp) (congrArg W.phase hv) (congrArg W.slots hv)
  | get1 t ask ns nc =>
    have hv := (ww_get1 c s t ask ns nc hs hd).2.2
    exact moved _ .afterGet1 (by simp) (congrArg W.phase hv) (congrArg W.slots hv)
  | get2 t2 slots got sleep running =>
    obtain ⟨_, ready, hv⟩ := ww_get2 c s t2 slots got sleep running hs hd
    exact moved _ .afterGet2 (by simp) (congrArg W.phase hv) (congrArg W.slots hv)
  | idle fin sl =>
    have hv := ww_idle c s fin sl hs hd
    have e1 : (stepL c s (.idle fin sl)).phase = if fin then .exiting else .idle1 := congrArg W.phase hv
    have e3 : (stepL c s (.idle fin sl)).slots = s.slots := congrArg W.slots hv
    exact ⟨by rw [e1]; cases fin <;> simp, by rw [e3]; exact hb⟩
  | idleYield =>
    have hv := ww_idleYield c s hs hd
    exact moved _ .idle2 (by simp) (congrArg W.phase hv) (congrArg W.slots hv)
  | idleSlept =>
    have hv := ww_idleSlept c s hs hd
    exact moved _ .idle2 (by simp) (congrArg W.phase hv) (congrArg W.slots hv)
  | idleContinue =>
    have hv := ww_idleContinue c s hs hd
    exact moved _ .loopTop (by simp) (congrArg W.phase hv) (congrArg W.slots hv)
  | brk =>
    obtain ⟨e3, e1, _⟩ := ww_brk c s
    exact ⟨by rw [e1]; exact hni, e3⟩
  | cons got =>
    have hv := ww_cons c s got hs hd
    have e3 : (stepL c s (.cons got)).slots = s.slots.onConsume := congrArg W.slots hv
    have e1 : (stepL c s (.cons got)).phase = .draining := congrArg W.phase hv
    exact ⟨by rw [e1]; simp, by rw [e3, hb]; rfl⟩
  | endA id f r t =>
    obtain ⟨k, hv⟩ := ww_endA c s id f r t hs hd
    have e1 : (stepL c s (.endA id f r t)).phase = s.phase := congrArg W.phase hv
    have e3 : (stepL c s (.endA id f r t)).slots = s.slots := congrArg W.slots hv
    exact ⟨by rw [e1]; exact hni, by rw [e3]; exact hb⟩
  | notif id f r =>
    obtain ⟨k, rest, _, _, hv⟩ := ww_notif c s id f r hs hd
    have e1 : (stepL c s (.notif id f r)).phase = s.phase := congrArg W.phase hv
    have e3 : (stepL c s (.notif id f r)).slots = s.slots := congrArg W.slots hv
    exact ⟨by rw [e1]; exact hni, by rw [e3]; exact hb⟩
  | disp n sl =>
    obtain ⟨_, hv⟩ := ww_disp c s n sl hs hd
    have e3 : (stepL c s (.disp n sl)).slots = s.slots.onDispatch s.batch.length := congrArg W.slots hv
    have e1 : (stepL c s (.disp n sl)).phase = .selecting := congrArg W.phase hv
    exact ⟨by rw [e1]; simp, by rw [e3, hb]; rfl⟩

theorem tripped_run (c : SCfg) : ∀ (ls : List Label) (s : SState), Tripped s →
    Clean0 (ls.foldl (stepL c) s) = true → Tripped (ls.foldl (stepL c) s) := by
  intro ls
  induction ls with
  | nil => intro s h _; exact h
  | cons l rest ih =>
    intro s h hc
    simp only [foldl_cons] at hc ⊢
    exact ih _ (tripped_step c s l h (clean0_foldl_mono c rest _ hc)) hc

theorem ainv_run (c : SCfg) (hff : c.failFast = true) : ∀ (ls : List Label) (s : SState), AInv s →
    Clean0 (ls.foldl (stepL c) s) = true →
    AInv (ls.foldl (stepL c) s) ∧ ∀ n sl, Label.disp n sl ∈ ls → n = 0 := by
  intro ls
  induction ls with
  | nil => intro s h _; exact ⟨h, fun _ _ hm => by cases hm⟩
  | cons l rest ih =>
    intro s h hc
    simp only [foldl_cons] at hc ⊢
    obtain ⟨h1, hd⟩ := ainv_step c hff s l h (clean0_foldl_mono c rest _ hc)
    obtain ⟨h2, hr⟩ := ih _ h1 hc
    refine ⟨h2, fun n sl hm => ?_⟩
    rcases mem_cons.mp hm with hl | hm
    · exact hd n sl hl.symm
    · exact hr n sl hm

/-- the `END` of a finally failed attempt, taken while `execute` awaits its scenarios, arms the invariant -/
theorem ainv_after_final_end (c : SCfg) (pre : List Label) (id t : Nat)
    (hc : Clean0 (accept c (pre ++ [.endA id true false t])) = true)
    (hsel : (accept c pre).phase = .selecting) : AInv (accept c (pre ++ [.endA id true false t])) := by
  have hstep : accept c (pre ++ [.endA id true false t]) = stepL c (accept c pre) (.endA id true false t) := by
    simp [accept, foldl_append]
  rw [hstep] at hc ⊢
  have hs0 : Clean0 (accept c pre) = true := clean0_step_mono c _ _ hc
  have hs : (accept c pre).dis = [] := by simpa [Clean0] using hs0
  have hd : (stepL c (accept c pre) (.endA id true false t)).dis = [] := by simpa [Clean0] using hc
  obtain ⟨k, hv⟩ := ww_endA c (accept c pre) id true false t hs hd
  have e1 : (stepL c (accept c pre) (.endA id true false t)).phase = (accept c pre).phase := congrArg W.phase hv
  have e2 : (stepL c (accept c pre) (.endA id true false t)).batch = (accept c pre).batch := congrArg W.batch hv
  have e4 : (stepL c (accept c pre) (.endA id true false t)).notifs = (accept c pre).notifs ++ [(id, k, true, false)] :=
    congrArg W.notifs hv
  -- while selecting, nothing is handed out
  have hb : (accept c pre).batch = [] := by
    exact nobatch_accept c pre hs0 (by rw [hsel]; simp)
  refine ⟨by rw [e1, hsel]; simp, by rw [e2]; exact hb, Or.inr ⟨Or.inl ?_, by rw [e1, hsel]; simp⟩⟩
  rw [e4]
  simp [pendingFinal, isFinal]

end Cuke.SchedTrip
