/-
  Model of scenario-outline expansion: `feature::Ext::expand_examples`, `expand_scenario`
  (src/feature.rs) incl. the template regex `<([^>\s]+)>` used with `replace_all` (a scanner over
  `List Char`; `regex` itself is outside the model and tied by the differential).
-/
namespace Cuke

abbrev Str := List Char

/-- Unicode `White_Space` (what `\s` matches in the `regex` crate's Unicode mode) -/
def isWs (c : Char) : Bool :=
  let n := c.toNat
  (9 ≤ n && n ≤ 13) || n == 0x20 || n == 0x85 || n == 0xA0 || n == 0x1680 ||
  (0x2000 ≤ n && n ≤ 0x200A) || n == 0x2028 || n == 0x2029 || n == 0x202F || n == 0x205F || n == 0x3000

/-- `[^>\s]` -/
def nameChar (c : Char) : Bool := c != '>' && !isWs c

/-- a table row as `header.iter().zip(values)`; the first column with the name wins -/
def lookupCol (row : List (Str × Str)) (name : Str) : Option Str :=
  (row.find? (fun kv => kv.1 == name)).map (·.2)

/-- `TEMPLATE_REGEX.replace_all(str, |cap| ..)`: leftmost, non-overlapping matches of `<name>`;
    a known name is replaced by the value VERBATIM, an unknown one by "" and remembered (the last
    one wins, as `err = Some(..)` is overwritten). Returns (result, last unknown name). -/
def substF (row : List (Str × Str)) : Nat → Str → Str × Option Str
  | 0, s => (s, none)
  | _ + 1, [] => ([], none)
  | fuel + 1, c :: rest =>
    if c == '<' then
      let nm := rest.takeWhile nameChar
      let after := rest.dropWhile nameChar
      match nm, after with
      | _ :: _, '>' :: after' =>
        let r := substF row fuel after'
        match lookupCol row nm with
        | some v => (v ++ r.1, r.2)
        | none => (r.1, r.2.or (some nm))
      | _, _ =>
        let r := substF row fuel rest
        (c :: r.1, r.2)
    else
      let r := substF row fuel rest
      (c :: r.1, r.2)

def subst (row : List (Str × Str)) (s : Str) : Str × Option Str := substF row (s.length + 1) s

structure OStep where
  value : Str
  doc : Option Str
  table : Option (List (List Str))
  line : Nat
  col : Nat
  deriving Repr, DecidableEq

structure OExamples where
  /-- all rows of the table, header first; `none` = no table -/
  table : Option (List (List Str))
  tags : List Str
  line : Nat
  col : Nat
  deriving Repr, DecidableEq

structure OScen where
  name : Str
  tags : List Str
  steps : List OStep
  examples : List OExamples
  line : Nat
  col : Nat
  deriving Repr, DecidableEq

structure OErr where
  name : Str
  line : Nat
  col : Nat
  deriving Repr, DecidableEq

/-- apply `f` to every string of a step in the crate's order: value, docstring, table cells row-major;
    the first error stops -/
def substStep (row : List (Str × Str)) (s : OStep) : Except OErr OStep :=
  let mk (n : Str) : OErr := { name := n, line := s.line, col := s.col }
  let v := subst row s.value
  match v.2 with
  | some n => .error (mk n)
  | none =>
    let docR : Except OErr (Option Str) :=
      match s.doc with
      | none => .ok none
      | some d => let r := subst row d; match r.2 with | some n => .error (mk n) | none => .ok (some r.1)
    match docR with
    | .error e => .error e
    | .ok doc =>
      let cells : Except OErr (Option (List (List Str))) :=
        match s.table with
        | none => .ok none
        | some rows =>
          let r := rows.foldl (fun (acc : Except OErr (List (List Str))) rw =>
            match acc with
            | .error e => .error e
            | .ok done =>
              let rr := rw.foldl (fun (acc2 : Except OErr (List Str)) cell =>
                match acc2 with
                | .error e => .error e
                | .ok cs => let x := subst row cell; match x.2 with | some n => .error (mk n) | none => .ok (cs ++ [x.1])) (.ok [])
              match rr with
              | .error e => .error e
              | .ok cs => .ok (done ++ [cs])) (.ok [])
          match r with
          | .error e => .error e
          | .ok t => .ok (some t)
      match cells with
      | .error e => .error e
      | .ok table => .ok { s with value := v.1, doc := doc, table := table }

def substSteps (row : List (Str × Str)) : List OStep → Except OErr (List OStep)
  | [] => .ok []
  | s :: rest =>
    match substStep row s with
    | .error e => .error e
    | .ok s' =>
      match substSteps row rest with
      | .error e => .error e
      | .ok r => .ok (s' :: r)

/-- one expanded scenario for data row `i` of an Examples table -/
def expandRow (sc : OScen) (ex : OExamples) (header : List Str) (i : Nat) (vals : List Str) : Except OErr OScen :=
  let row := header.zip vals
  let line := ex.line + i + 2
  let nm := subst row sc.name
  match nm.2 with
  | some n => .error { name := n, line := line, col := ex.col }
  | none =>
    match substSteps row sc.steps with
    | .error e => .error e
    | .ok steps =>
      .ok { sc with name := nm.1, tags := sc.tags ++ ex.tags, steps := steps, line := line, col := ex.col }

/-- rows of one table: `(header, data rows)` if it has a header -/
def tableRows (ex : OExamples) : Option (List Str × List (List Str)) :=
  match ex.table with
  | some (h :: vs) => some (h, vs)
  | _ => none

/-- `expand_scenario`: the per-row results, in table order then row order -/
def expandScenario (sc : OScen) : List (Except OErr OScen) :=
  if sc.examples.isEmpty then [.ok sc]
  else
    sc.examples.flatMap (fun ex =>
      match tableRows ex with
      | none => []
      | some (h, vs) => (List.range vs.length).map (fun i => expandRow sc ex h i (vs.getD i [])))

/-- `.collect::<Result<Vec<_>, _>>()`: first error in order -/
def collectR : List (Except OErr OScen) → Except OErr (List OScen)
  | [] => .ok []
  | .error e :: _ => .error e
  | .ok s :: rest =>
    match collectR rest with
    | .error e => .error e
    | .ok r => .ok (s :: r)

def expandList (scs : List OScen) : Except OErr (List OScen) := collectR (scs.flatMap expandScenario)

structure OFeat where
  scens : List OScen
  rules : List (List OScen)
  deriving Repr, DecidableEq

def expandRules : List (List OScen) → Except OErr (List (List OScen))
  | [] => .ok []
  | r :: rest =>
    match expandList r with
    | .error e => .error e
    | .ok r' =>
      match expandRules rest with
      | .error e => .error e
      | .ok rs => .ok (r' :: rs)

/-- `Feature::expand_examples`: rules first, then top-level scenarios; any error makes the whole
    feature one error -/
def expandFeature (f : OFeat) : Except OErr OFeat :=
  match expandRules f.rules with
  | .error e => .error e
  | .ok rules =>
    match expandList f.scens with
    | .error e => .error e
    | .ok scens => .ok { scens, rules }

end Cuke
