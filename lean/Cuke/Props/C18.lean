import Cuke.Model.RetryOpts
/-!
# C18 — Retry options resolve by nearest tag, then CLI, then builder, then defaults
Model: `Cuke.parseFromTags`, `Cuke.parseRetryTag`, `Cuke.mergeCli`, `Cuke.resolveConcurrency`,
`Cuke.resolveFailFast`.
-/
namespace Cuke.C18
open Cuke

/-! ## helper facts about the string primitives -/

theorem stripPrefix_append (p s : List Char) : stripPrefix p (p ++ s) = some s := by
  induction p with
  | nil => cases s <;> simp [stripPrefix]
  | cons a p ih => simp [stripPrefix, ih]

theorem splitOnce_append (c : Char) (a b : List Char) (h : c ∉ a) :
    splitOnce c (a ++ c :: b) = some (a, b) := by
  induction a with
  | nil => simp [splitOnce]
  | cons x a ih =>
    have hx : x ≠ c := by intro e; apply h; simp [e]
    have ha : c ∉ a := by intro e; apply h; simp [e]
    simp [splitOnce, hx, ih ha]

theorem digit_ne_plus (c : Char) (h : isDigit c = true) : c ≠ '+' := by
  intro e; subst e; revert h; decide

theorem digit_ne_rparen (c : Char) (h : isDigit c = true) : c ≠ ')' := by
  intro e; subst e; revert h; decide

theorem parseUsize_digits (ds : List Char) (hne : ds ≠ []) (hd : ds.all isDigit = true)
    (hv : digitsValue ds < usizeMax) : parseUsize ds = some (digitsValue ds) := by
  cases ds with
  | nil => exact absurd rfl hne
  | cons c cs =>
    have hc : isDigit c = true := by simp [List.all_cons] at hd; exact hd.1
    have hplus : c ≠ '+' := digit_ne_plus c hc
    have hsp : stripPlus (c :: cs) = c :: cs := by
      unfold stripPlus
      split
      · rename_i r heq; cases heq; exact absurd rfl hplus
      · rfl
    simp only [parseUsize, hsp]
    simp [hv]
    simpa using hd

theorem rparen_not_mem_digits (ds : List Char) (hd : ds.all isDigit = true) : ')' ∉ ds := by
  intro h
  have := (List.all_eq_true.mp hd) _ h
  exact digit_ne_rparen _ this rfl

theorem parseCount_num (ds rest : List Char) (hne : ds ≠ []) (hd : ds.all isDigit = true)
    (hv : digitsValue ds < usizeMax) :
    parseCount ('(' :: (ds ++ ')' :: rest)) = (some (digitsValue ds), rest) := by
  have h2 := splitOnce_append ')' ds rest (rparen_not_mem_digits ds hd)
  simp [parseCount, stripPrefix, h2, parseUsize_digits ds hne hd hv]

theorem parseCount_noparen (r : List Char) (h : stripPrefix ['('] r = none) :
    parseCount r = (none, r) := by simp [parseCount, h]

theorem parseAfter_ok (dur : List Char → Option Nat) (d x : List Char) (hd : ')' ∉ d) :
    parseAfter dur (afterPfx ++ ('(' :: (d ++ ')' :: x))) = dur d := by
  have h2 := splitOnce_append ')' d x hd
  simp [parseAfter, stripPrefix_append, stripPrefix, h2]

theorem parseAfter_nil (dur : List Char → Option Nat) : parseAfter dur [] = none := by
  simp [parseAfter, afterPfx, stripPrefix]

/-! ## The four documented tag shapes -/

/-- `@retry` : neither a count nor a delay. -/
theorem shape_bare (dur : List Char → Option Nat) :
    parseRetryTag dur retryPfx = some (none, none) := by
  have h : stripPrefix retryPfx retryPfx = some [] := by simpa using stripPrefix_append retryPfx []
  simp [parseRetryTag, h, parseCount, stripPrefix, parseAfter_nil]

/-- `@retry(N)` with `N` a decimal numeral below 2^64: count `N`, no delay. -/
theorem shape_n (dur : List Char → Option Nat) (ds : List Char) (hne : ds ≠ [])
    (hd : ds.all isDigit = true) (hv : digitsValue ds < usizeMax) :
    parseRetryTag dur (retryPfx ++ ('(' :: (ds ++ [')']))) = some (some (digitsValue ds), none) := by
  simp [parseRetryTag, stripPrefix_append, parseCount_num ds [] hne hd hv, parseAfter_nil]

/-- `@retry.after(D)`: no count, delay `parse_duration(D)`. -/
theorem shape_after (dur : List Char → Option Nat) (d : List Char) (hd : ')' ∉ d) :
    parseRetryTag dur (retryPfx ++ (afterPfx ++ ('(' :: (d ++ [')'])))) = some (none, dur d) := by
  have h4 : stripPrefix ['('] (afterPfx ++ ('(' :: (d ++ [')']))) = none := by
    simp [afterPfx, stripPrefix]
  simp [parseRetryTag, stripPrefix_append, parseCount_noparen _ h4, parseAfter_ok dur d [] hd]

/-- `@retry(N).after(D)`: both. -/
theorem shape_n_after (dur : List Char → Option Nat) (ds d : List Char) (hne : ds ≠ [])
    (hds : ds.all isDigit = true) (hv : digitsValue ds < usizeMax) (hd : ')' ∉ d) :
    parseRetryTag dur (retryPfx ++ ('(' :: (ds ++ ')' :: (afterPfx ++ ('(' :: (d ++ [')'])))))) =
      some (some (digitsValue ds), dur d) := by
  simp [parseRetryTag, stripPrefix_append, parseCount_num ds _ hne hds hv, parseAfter_ok dur d [] hd]

/-- A tag that does not start with `retry` is not a retry tag. -/
theorem not_retry_tag (dur : List Char → Option Nat) (tag : List Char)
    (h : stripPrefix retryPfx tag = none) : parseRetryTag dur tag = none := by
  simp [parseRetryTag, h]

/-! ## Malformed payloads degrade as the code does (lemmas with witnesses, not alarms) -/

/-- `@retry(x)`: unparsable count ⇒ treated as bare `@retry`. -/
theorem malformed_count (dur : List Char → Option Nat) :
    parseRetryTag dur (retryPfx ++ ['(', 'x', ')']) = some (none, none) := by
  have hp : parseUsize ['x'] = none := by decide
  have hc : parseCount ['(', 'x', ')'] = (none, ['(', 'x', ')']) := by
    simp [parseCount, stripPrefix, splitOnce, hp]
  have ha : parseAfter dur ['(', 'x', ')'] = none := by simp [parseAfter, afterPfx, stripPrefix]
  simp [parseRetryTag, stripPrefix_append, hc, ha]

/-- `@retryable`: any tag with the prefix behaves as bare `@retry` (crate's recogniser). -/
theorem prefix_only (dur : List Char → Option Nat) :
    parseRetryTag dur (retryPfx ++ ['a', 'b', 'l', 'e']) = some (none, none) := by
  simp [parseRetryTag, parseCount, parseAfter, retryPfx, stripPrefix, afterPfx]

/-! ## Nearest tag: scenario, else rule, else feature; first retry tag in a list wins -/

/-- Within one tag list the first tag with the `retry` prefix decides. -/
theorem first_tag_wins (dur : List Char → Option Nat) (pre : List String) (t : String) (post : List String)
    (hpre : ∀ x ∈ pre, parseRetryTag dur x.toList = none) (o : Option Nat × Option Nat)
    (ht : parseRetryTag dur t.toList = some o) :
    parseRetryTags dur (pre ++ t :: post) = some o := by
  induction pre with
  | nil => simp [parseRetryTags, ht]
  | cons x pre ih =>
    have hx := hpre x (by simp)
    have := ih (fun y hy => hpre y (by simp [hy]))
    simp [parseRetryTags, List.findSome?, hx] at this ⊢
    exact this

/-- What `parse_from_tags` returns once the deciding tag payload `o` is known. -/
def fromPayload (cli : RetryCli) (o : Option Nat × Option Nat) : RetryOptions :=
  { retries := Retries.initial ((o.1.or cli.retry).getD 1), after := o.2.or cli.retryAfter }

/-- A retry tag on the scenario decides, whatever rule and feature carry. -/
theorem nearest_scenario (dur) (cli : RetryCli) (sc : List String) (rule : Option (List String)) (feat : List String)
    (o) (h : parseRetryTags dur sc = some o) :
    parseFromTags dur cli sc rule feat = some (fromPayload cli o) := by
  simp [parseFromTags, h, fromPayload]

/-- No retry tag on the scenario: the rule's decides. -/
theorem nearest_rule (dur) (cli : RetryCli) (sc rt feat : List String)
    (o) (hs : parseRetryTags dur sc = none) (h : parseRetryTags dur rt = some o) :
    parseFromTags dur cli sc (some rt) feat = some (fromPayload cli o) := by
  simp [parseFromTags, hs, h, fromPayload]

/-- Neither scenario nor rule: the feature's decides. -/
theorem nearest_feature (dur) (cli : RetryCli) (sc : List String) (rule : Option (List String)) (feat : List String)
    (o) (hs : parseRetryTags dur sc = none) (hr : rule.bind (parseRetryTags dur) = none)
    (h : parseRetryTags dur feat = some o) :
    parseFromTags dur cli sc rule feat = some (fromPayload cli o) := by
  simp [parseFromTags, hs, hr, h, fromPayload]

/-! ## Fallback chain for the parts a tag omits: CLI, then (via `mergeCli`) builder, then (1, none) -/

theorem fallback_count_tag (cli : RetryCli) (n : Nat) (a : Option Nat) :
    (fromPayload cli (some n, a)).retries = ⟨0, n⟩ := by simp [fromPayload, Retries.initial]

theorem fallback_count_cli (cli : RetryCli) (a : Option Nat) :
    (fromPayload cli (none, a)).retries = ⟨0, cli.retry.getD 1⟩ := by
  simp [fromPayload, Retries.initial]

theorem fallback_after_tag (cli : RetryCli) (n : Option Nat) (d : Nat) :
    (fromPayload cli (n, some d)).after = some d := by simp [fromPayload]

theorem fallback_after_cli (cli : RetryCli) (n : Option Nat) :
    (fromPayload cli (n, none)).after = cli.retryAfter := by simp [fromPayload]

/-- CLI values take precedence over builder values, for each of the three settings. -/
theorem merge_precedence (cli : RunnerCli) (b : Builder) :
    (mergeCli cli b).retry = (match cli.retry with | some r => some r | none => b.retries) ∧
    (mergeCli cli b).retryAfter = (match cli.retryAfter with | some r => some r | none => b.retryAfter) ∧
    (mergeCli cli b).filter = (match cli.retryTagFilter with | some r => some r | none => b.retryFilter) := by
  refine ⟨?_, ?_, ?_⟩ <;> simp [mergeCli] <;> split <;> simp_all

/-- The complete chain on a bare `@retry` tag: CLI → builder → one retry, no delay. -/
theorem fallback_chain_bare (dur) (cli : RunnerCli) (b : Builder) (sc : List String) (rule) (feat)
    (h : parseRetryTags dur sc = some (none, none)) :
    parseFromTags dur (mergeCli cli b) sc rule feat =
      some { retries := ⟨0, ((cli.retry.or b.retries).getD 1)⟩, after := cli.retryAfter.or b.retryAfter } := by
  rw [nearest_scenario dur _ sc rule feat _ h]; simp [fromPayload, mergeCli, Retries.initial]

/-! ## Untagged scenarios -/

theorem untagged (dur) (cli : RetryCli) (sc : List String) (rule : Option (List String)) (feat : List String)
    (hs : parseRetryTags dur sc = none) (hr : rule.bind (parseRetryTags dur) = none)
    (hf : parseRetryTags dur feat = none) :
    parseFromTags dur cli sc rule feat =
      if cliMatched cli sc (rule.getD []) feat then
        some { retries := ⟨0, cli.retry.getD 1⟩, after := cli.retryAfter } else none := by
  simp [parseFromTags, hs, hr, hf, Retries.initial]

/-- With a tag filter, an untagged scenario is retried iff its inherited tags satisfy it. -/
theorem untagged_with_filter (cli : RetryCli) (op : TagOp) (h : cli.filter = some op) (sc rt feat : List String) :
    cliMatched cli sc rt feat = op.eval (sc ++ rt ++ feat) := by simp [cliMatched, h]

/-- Without a filter, iff a retry count or delay is configured. -/
theorem untagged_without_filter (cli : RetryCli) (h : cli.filter = none) (sc rt feat : List String) :
    cliMatched cli sc rt feat = (cli.retry.isSome || cli.retryAfter.isSome) := by simp [cliMatched, h]

/-! ## concurrency / fail-fast resolution -/

theorem concurrency_resolution (cli : RunnerCli) (b : Builder) :
    resolveConcurrency cli b = (match cli.concurrency with | some k => some k | none => b.maxConcurrent) := by
  simp [resolveConcurrency]; split <;> simp_all

theorem failfast_resolution (cli : RunnerCli) (b : Builder) :
    resolveFailFast cli b = true ↔ cli.failFast = true ∨ b.failFast = true := by
  simp [resolveFailFast]

/-! ## budget bookkeeping used by C05: attempt k carries current = k, left = N - k -/

theorem nextTry_some (r : Retries) (h : 0 < r.left) :
    r.nextTry = some ⟨r.current + 1, r.left - 1⟩ := by
  simp [Retries.nextTry]; omega

theorem nextTry_none (r : Retries) (h : r.left = 0) : r.nextTry = none := by simp [Retries.nextTry, h]

/-! ## Non-vacuity: a concrete tagged scenario in a rule, CLI and builder both set -/
def exDur : List Char → Option Nat := fun d => if d = ['3', 's'] then some 3000000000 else none

example : parseRetryTag exDur (retryPfx ++ ('(' :: (['5'] ++ ')' :: (afterPfx ++ ('(' :: (['3', 's'] ++ [')'])))))) =
    some (some 5, some 3000000000) := by
  have := shape_n_after exDur ['5'] ['3', 's'] (by simp) (by decide) (by decide) (by decide)
  simpa [digitsValue, exDur] using this

end Cuke.C18
