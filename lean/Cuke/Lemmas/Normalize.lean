import Cuke.Model.Normalize
/-!
  Lemmas about `writer::Normalize`'s model: what is still buffered, and that `emit` only moves events
  from the buffer to the output (in order) while `insert` adds exactly the new event.
-/
namespace Cuke.NormL
open Cuke List

/-! ## what the queue still owes -/

def bufAtt (f : Nat) (r : Option Nat) (a : AttQ) : List Ev := wrapAtt f r a a.evs

def bufRule (f r : Nat) (q : RuleQ) : List Ev :=
  (if q.initial then [Ev.ruleStarted f r] else []) ++ q.atts.flatMap (bufAtt f (some r)) ++
    (if q.fin == .pending then [Ev.ruleFinished f r] else [])

def bufItem (f : Nat) : Item → List Ev
  | .att a => bufAtt f none a
  | .rule r q => bufRule f r q

def bufFeat (fq : Nat × FeatQ) : List Ev :=
  (if fq.2.initial then [Ev.featStarted fq.1] else []) ++ fq.2.items.flatMap (bufItem fq.1) ++
    (if fq.2.fin == .pending then [Ev.featFinished fq.1] else [])

def bufFeats (fs : List (Nat × FeatQ)) : List Ev := fs.flatMap bufFeat

def buffered (n : Norm) : List Ev := bufFeats n.feats ++ (if n.fin == .pending then [Ev.finished] else [])

/-! ## well-formedness needed for losslessness -/

/-- `Finished` occurs in an attempt buffer at most as its last element -/
def attClean (a : AttQ) : Bool := a.evs.dropLast.all (fun e => e != .finished)

/-- the attempt buffer ends with `Finished` -/
def attComplete (a : AttQ) : Bool := a.evs.getLast? == some .finished

def ruleOk (q : RuleQ) : Bool :=
  q.atts.all attClean && (q.fin == .no || q.atts.all attComplete)

def itemOk : Item → Bool
  | .att a => attClean a
  | .rule _ q => ruleOk q

def itemComplete : Item → Bool
  | .att a => attComplete a
  | .rule _ q => q.fin == .pending

def featOk (fq : Nat × FeatQ) : Bool :=
  fq.2.items.all itemOk && (fq.2.fin == .no || fq.2.items.all itemComplete)

def NormOk (n : Norm) : Prop := n.feats.all featOk = true

/-! ## emitAtt -/

theorem emitAtt_clean (evs : List ScenEv) (h : evs.dropLast.all (fun e => e != .finished) = true) :
    (emitAtt evs).1 = evs ∧ ((emitAtt evs).2 = true ↔ evs.getLast? = some .finished) := by
  induction evs with
  | nil => simp [emitAtt]
  | cons e rest ih =>
    cases rest with
    | nil =>
      by_cases he : e = .finished
      · simp [emitAtt, he]
      · have : (e == ScenEv.finished) = false := by simpa using he
        simp [emitAtt, this, he]
    | cons e2 rest2 =>
      simp only [dropLast_cons₂, all_cons, Bool.and_eq_true] at h
      have he : (e == ScenEv.finished) = false := by simpa using h.1
      have := ih h.2
      have hunf : emitAtt (e :: e2 :: rest2) = (e :: (emitAtt (e2 :: rest2)).1, (emitAtt (e2 :: rest2)).2) := by
        rw [emitAtt]; simp only [he, Bool.false_eq_true, if_false]
      rw [hunf]
      simp only [this.1, true_and]
      rw [this.2]
      simp

theorem emitAtts_eq (f : Nat) (r : Option Nat) (atts : List AttQ) (h : atts.all attClean = true) :
    (emitAtts f r atts).1 ++ (emitAtts f r atts).2.flatMap (bufAtt f r) = atts.flatMap (bufAtt f r) ∧
    ((emitAtts f r atts).2).all attClean = true ∧
    (atts.all attComplete = true → (emitAtts f r atts).2 = []) := by
  induction atts with
  | nil => simp [emitAtts]
  | cons a rest ih =>
    simp only [all_cons, Bool.and_eq_true] at h
    obtain ⟨h1, h2⟩ := emitAtt_clean a.evs h.1
    have := ih h.2
    simp only [emitAtts]
    by_cases hf : (emitAtt a.evs).2 = true
    · simp only [hf, if_true, flatMap_cons]
      refine ⟨?_, this.2.1, ?_⟩
      · rw [append_assoc, this.1]; simp [bufAtt, h1]
      · intro hc; simp only [all_cons, Bool.and_eq_true] at hc; exact this.2.2 hc.2
    · simp only [hf, Bool.false_eq_true, if_false, flatMap_cons]
      refine ⟨?_, ?_, ?_⟩
      · simp [bufAtt, wrapAtt, h1]
      · simp [attClean, h.2]
      · intro hc
        simp only [all_cons, Bool.and_eq_true, attComplete] at hc
        have := h2.mpr (by simpa using hc.1)
        exact absurd this hf

/-! ## emitRule / emitItems / emitFeats: emission only moves a prefix of the buffer to the output -/

theorem emitRule_eq (f r : Nat) (q : RuleQ) (h : ruleOk q = true) :
    (if (emitRule f r q).2.1 then (emitRule f r q).1 = bufRule f r q
     else (emitRule f r q).1 ++ bufRule f r (emitRule f r q).2.2 = bufRule f r q ∧ ruleOk (emitRule f r q).2.2 = true) ∧
    ((emitRule f r q).2.1 = true ↔ q.fin = .pending) := by
  simp only [ruleOk, Bool.and_eq_true, Bool.or_eq_true] at h
  obtain ⟨e1, e2, e3⟩ := emitAtts_eq f (some r) q.atts h.1
  by_cases hp : q.fin = .pending
  · have hall : q.atts.all attComplete = true := by
      rcases h.2 with h2 | h2
      · rw [hp] at h2; cases h2
      · exact h2
    have hnil := e3 hall
    rw [hnil] at e1
    simp only [flatMap_nil, append_nil] at e1
    simp [emitRule, hp, bufRule, e1]
  · have hp' : (q.fin == Fin.pending) = false := by simpa using hp
    simp only [emitRule, hp', Bool.false_eq_true, if_false, hp, iff_false, not_false_eq_true, and_true]
    refine ⟨?_, ?_⟩
    · simp only [bufRule, hp', Bool.false_eq_true, if_false, append_nil, nil_append]
      rw [append_assoc, e1]
    · simp only [ruleOk, e2, Bool.true_and, Bool.or_eq_true]
      rcases h.2 with h2 | h2
      · exact Or.inl h2
      · right
        have := e3 h2
        simp [this]

theorem emitItems_eq (f : Nat) (items : List Item) (h : items.all itemOk = true) :
    (emitItems f items).1 ++ (emitItems f items).2.flatMap (bufItem f) = items.flatMap (bufItem f) ∧
    (emitItems f items).2.all itemOk = true ∧
    (items.all itemComplete = true → (emitItems f items).2 = []) := by
  induction items with
  | nil => simp [emitItems]
  | cons it rest ih =>
    simp only [all_cons, Bool.and_eq_true] at h
    have := ih h.2
    cases it with
    | att a =>
      obtain ⟨h1, h2⟩ := emitAtt_clean a.evs h.1
      simp only [emitItems]
      by_cases hf : (emitAtt a.evs).2 = true
      · simp only [hf, if_true, flatMap_cons]
        refine ⟨?_, this.2.1, ?_⟩
        · rw [append_assoc, this.1]; simp [bufItem, bufAtt, h1]
        · intro hc; simp only [all_cons, Bool.and_eq_true] at hc; exact this.2.2 hc.2
      · simp only [hf, Bool.false_eq_true, if_false, flatMap_cons]
        refine ⟨?_, ?_, ?_⟩
        · simp [bufItem, bufAtt, wrapAtt, h1]
        · simp [itemOk, attClean, h.2]
        · intro hc
          simp only [all_cons, Bool.and_eq_true, itemComplete, attComplete] at hc
          exact absurd (h2.mpr (by simpa using hc.1)) hf
    | rule r q =>
      obtain ⟨hr1, hr2⟩ := emitRule_eq f r q h.1
      simp only [emitItems]
      by_cases hf : (emitRule f r q).2.1 = true
      · simp only [hf, if_true] at hr1 ⊢
        refine ⟨?_, this.2.1, ?_⟩
        · simp only [flatMap_cons, bufItem]
          rw [append_assoc, this.1, hr1]
        · intro hc; simp only [all_cons, Bool.and_eq_true] at hc; exact this.2.2 hc.2
      · simp only [hf, Bool.false_eq_true, if_false] at hr1 ⊢
        refine ⟨?_, ?_, ?_⟩
        · simp only [flatMap_cons, bufItem]
          rw [← append_assoc, hr1.1]
        · simp [itemOk, hr1.2, h.2]
        · intro hc
          simp only [all_cons, Bool.and_eq_true, itemComplete] at hc
          exact absurd (hr2.mpr (by simpa using hc.1)) hf

theorem emitFeats_eq (fs : List (Nat × FeatQ)) (h : fs.all featOk = true) :
    (emitFeats fs).1 ++ bufFeats (emitFeats fs).2 = bufFeats fs ∧ (emitFeats fs).2.all featOk = true := by
  induction fs with
  | nil => simp [emitFeats, bufFeats]
  | cons fq rest ih =>
    obtain ⟨f, q⟩ := fq
    simp only [all_cons, Bool.and_eq_true] at h
    have hq := h.1
    simp only [featOk, Bool.and_eq_true, Bool.or_eq_true] at hq
    obtain ⟨e1, e2, e3⟩ := emitItems_eq f q.items hq.1
    have := ih h.2
    simp only [emitFeats]
    by_cases hp : q.fin = .pending
    · have hall : q.items.all itemComplete = true := by
        rcases hq.2 with h2 | h2
        · rw [hp] at h2; cases h2
        · exact h2
      have hnil := e3 hall
      rw [hnil] at e1
      simp only [flatMap_nil, append_nil] at e1
      simp only [hp, beq_self_eq_true, if_true]
      refine ⟨?_, this.2⟩
      simp only [bufFeats, flatMap_cons] at this ⊢
      rw [append_assoc, this.1]
      simp [bufFeat, hp, e1]
    · have hp' : (q.fin == Fin.pending) = false := by simpa using hp
      simp only [hp', Bool.false_eq_true, if_false]
      refine ⟨?_, ?_⟩
      · simp only [bufFeats, flatMap_cons, bufFeat, hp', Bool.false_eq_true, if_false, append_nil, nil_append]
        have := congrArg (fun x => (if q.initial = true then [Ev.featStarted f] else []) ++ x ++ flatMap bufFeat rest) e1
        simpa [append_assoc] using this
      · simp only [all_cons, Bool.and_eq_true]
        refine ⟨?_, h.2⟩
        simp only [featOk, e2, Bool.true_and, Bool.or_eq_true]
        rcases hq.2 with h2 | h2
        · exact Or.inl h2
        · right
          have := e3 h2
          simp [this]

end Cuke.NormL
