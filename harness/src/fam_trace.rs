//! C20: tracing attribution. One run per CHILD process (the subscriber is a process-global), with the
//! real `init_tracing()` subscriber; the parent collects the child's event stream and hands it to the
//! Lean monitor `mon.c20`.

use std::{
    cell::RefCell,
    collections::HashMap,
    future::Future,
    pin::Pin,
    rc::Rc,
    task::{Context, Poll},
};

use cucumber::{cli, event, parser, runner, step, writer, Cucumber, Event, World, Writer};
use futures::{executor::block_on, future::LocalBoxFuture, FutureExt as _};
use regex::Regex;

use crate::{common::*, fam_filter::VecParser};

#[derive(Debug, Default)]
pub struct TW;
impl World for TW {
    type Error = std::convert::Infallible;
    async fn new() -> Result<Self, Self::Error> {
        Ok(Self)
    }
}

/// a future that is woken by a timer thread, not by itself
struct Park { done: std::sync::Arc<std::sync::atomic::AtomicBool>, started: bool, ms: u64 }
impl Park {
    fn new(ms: u64) -> Self { Self { done: std::sync::Arc::default(), started: false, ms } }
}
impl Future for Park {
    type Output = ();
    fn poll(mut self: Pin<&mut Self>, cx: &mut Context<'_>) -> Poll<()> {
        if self.done.load(std::sync::atomic::Ordering::SeqCst) {
            return Poll::Ready(());
        }
        if !self.started {
            self.started = true;
            let (done, waker, ms) = (std::sync::Arc::clone(&self.done), cx.waker().clone(), self.ms);
            drop(std::thread::spawn(move || {
                std::thread::sleep(std::time::Duration::from_millis(ms));
                done.store(true, std::sync::atomic::Ordering::SeqCst);
                waker.wake();
            }));
        }
        Poll::Pending
    }
}

struct YieldN(usize);
impl Future for YieldN {
    type Output = ();
    fn poll(mut self: Pin<&mut Self>, cx: &mut Context<'_>) -> Poll<()> {
        if self.0 == 0 {
            Poll::Ready(())
        } else {
            self.0 -= 1;
            cx.waker().wake_by_ref();
            Poll::Pending
        }
    }
}

thread_local! {
    /// (scenario, step) -> (logs before await, yields, logs after await, fail on first attempt, text kind,
    /// ms to stay parked on a timer thread before doing anything)
    static PLAN: RefCell<HashMap<(usize, usize), (usize, usize, usize, bool, u8, u64)>> = RefCell::new(HashMap::new());
    static SEEN: RefCell<HashMap<(usize, usize), usize>> = RefCell::new(HashMap::new());
    /// scenario -> (logs in the before hook, logs in the after hook)
    static HOOKS: RefCell<HashMap<usize, (usize, usize)>> = RefCell::new(HashMap::new());
    /// hand-off mode: step (giver scenario, step 0) parks a clone of ITS span here after its own logs;
    /// step (taker scenario, step 0) logs one more message of the giver INSIDE that span, then drops it
    /// (a span that outlives the step future, like a task spawned `in_current_span()`)
    static HANDOFF: RefCell<Option<(usize, usize)>> = const { RefCell::new(None) };
    static PARKED: RefCell<Option<tracing::Span>> = const { RefCell::new(None) };
}

/// what follows the `L <scen> <step> <k>` head of a message:
/// 0 plain, 1 separators of the collector's in-band framing in the MIDDLE of the text, 2 the END marker
thread_local! {
    /// run-wide mode: every step also emits a log outside every span
    static ROOTLOGS: std::cell::Cell<bool> = const { std::cell::Cell::new(false) };
}

fn tail(kind: u8, k: usize) -> &'static str {
    match kind {
        0 => "",
        1 => [" a__b", " status=__unknown here", " __7", " x__unknown"][k % 4],
        _ => " __cucumber__scenario z",
    }
}

/// number of the giver's own messages in step 0 = the index of the handed-off message... of the GIVER
fn after_of(giver: usize) -> usize {
    PLAN.with(|p| p.borrow().get(&(giver, 0)).map_or(0, |x| x.0 + x.2))
}

fn scen_of(s: &gherkin::Scenario) -> usize {
    s.name.rsplit('-').next().and_then(|x| x.parse().ok()).unwrap_or(0)
}

fn before_hook<'a>(_: &'a gherkin::Feature, _: Option<&'a gherkin::Rule>, s: &'a gherkin::Scenario, _: &'a mut TW) -> LocalBoxFuture<'a, ()> {
    async move {
        let sc = scen_of(s);
        let n = HOOKS.with(|h| h.borrow().get(&sc).map_or(0, |x| x.0));
        for k in 0..n {
            tracing::info!("L {sc} 98 {k}");
            if k == 0 { YieldN(1).await; }
        }
    }
    .boxed_local()
}

fn after_hook<'a>(_: &'a gherkin::Feature, _: Option<&'a gherkin::Rule>, s: &'a gherkin::Scenario, _: &'a event::ScenarioFinished, _: Option<&'a mut TW>) -> LocalBoxFuture<'a, ()> {
    async move {
        let sc = scen_of(s);
        let n = HOOKS.with(|h| h.borrow().get(&sc).map_or(0, |x| x.1));
        for k in 0..n {
            tracing::info!("L {sc} 99 {k}");
            if k == 0 { YieldN(1).await; }
        }
    }
    .boxed_local()
}

fn step_fn(_: &mut TW, ctx: step::Context) -> LocalBoxFuture<'_, ()> {
    async move {
        // text: "log <scen> <step>"
        let t: Vec<usize> = ctx.step.value.split(' ').skip(1).filter_map(|x| x.parse().ok()).collect();
        let (sc, st) = (t[0], t[1]);
        let (before, yields, after, fail_once, kind, park_ms) = PLAN.with(|p| p.borrow().get(&(sc, st)).copied().unwrap_or((0, 0, 0, false, 0, 0)));
        let nth = SEEN.with(|s| { let mut s = s.borrow_mut(); let e = s.entry((sc, st)).or_insert(0); *e += 1; *e });
        if park_ms > 0 && nth == 1 {
            // parked on a timer: this scenario is in flight but NOT woken by the executor's own polling
            Park::new(park_ms).await;
        }
        if ROOTLOGS.with(std::cell::Cell::get) {
            // a log OUTSIDE every span (explicit root): the collector cannot attribute it and hands it to every ACTIVE
            // scenario — with a limit of 1 that is this attempt alone; an attempt that ended (retried or not) is not
            tracing::info!(parent: None, "L 8000 0 0");
        }
        for k in 0..before {
            tracing::info!("L {sc} {st} {k}{}", tail(kind, k));
        }
        YieldN(yields).await;
        for k in before..before + after {
            tracing::info!("L {sc} {st} {k}{}", tail(kind, k));
        }
        YieldN(yields / 2).await;
        let handoff = HANDOFF.with(|h| *h.borrow());
        if let Some((giver, taker)) = handoff {
            if st == 0 && sc == giver {
                PARKED.with(|p| *p.borrow_mut() = Some(tracing::Span::current()));
            } else if st == 0 && sc == taker {
                // wait for the giver's span, log the giver's last message inside it, release it
                for _ in 0..10_000 {
                    if PARKED.with(|p| p.borrow().is_some()) { break; }
                    YieldN(1).await;
                }
                if let Some(span) = PARKED.with(|p| p.borrow_mut().take()) {
                    YieldN(2).await;
                    span.in_scope(|| tracing::info!("L {giver} 0 {}", after_of(giver)));
                    YieldN(1).await;
                    drop(span);
                }
            }
        }
        if fail_once && nth == 1 {
            panic!("first attempt fails");
        }
    }
    .boxed_local()
}

struct RecW(Rc<RefCell<Vec<String>>>);
impl Writer<TW> for RecW {
    type Cli = cli::Empty;
    async fn handle_event(&mut self, ev: parser::Result<Event<event::Cucumber<TW>>>, _: &cli::Empty) {
        let Ok(ev) = ev else { return };
        let mut line = cucumber::verif::describe(&*ev);
        if let event::Cucumber::Feature(_, fe) = &*ev {
            let sc = match fe {
                event::Feature::Scenario(_, sc) => Some(sc),
                event::Feature::Rule(_, event::Rule::Scenario(_, sc)) => Some(sc),
                _ => None,
            };
            if let Some(event::RetryableScenario { event: event::Scenario::Log(msg), .. }) = sc {
                let re = Regex::new(r"L (\d+) (\d+) (\d+)").unwrap();
                line.push_str(&re.captures(msg).map_or_else(|| " ?".to_owned(), |c| format!(" {} {} {}", &c[1], &c[2], &c[3])));
            }
        }
        self.0.borrow_mut().push(line);
    }
}
impl writer::Normalized for RecW {}

/// the child: one run, prints `mon.c20 …` to stdout
pub fn child(seed: u64, mode: &str) {
    let mut rng = Rng::new(seed);
    let directed = mode != "rand";
    let nscen = if directed { 1 } else { rng.range(1, 12) };
    let mut limit = *rng.pick(&[1usize, 2, 4, 12]);
    // run-wide modes
    let with_hooks = !directed && rng.chance(1, 2);
    let burst = !directed && rng.chance(1, 5);
    let outer_span = !directed && rng.chance(1, 3);
    let marker_run = !directed && rng.chance(1, 8);
    let mut marked: Vec<(usize, usize)> = vec![];
    let mut hooks: HashMap<usize, (usize, usize)> = HashMap::new();
    // hand-off of a step span between the first two scenarios (they must run concurrently)
    let handoff = !directed && limit >= 2 && nscen >= 2 && rng.chance(1, 5);
    // one scenario parked on a timer while the others run: the executor then polls the SAME scenario several
    // times in a row without `forward_logs` in between
    let parked_run = !directed && !handoff && limit >= 2 && nscen >= 2 && rng.chance(1, 4);
    if parked_run {
        // exactly one neighbour, and it is parked: `FuturesUnordered` then polls the running scenario again
        // and again within ONE poll of `execute`, before `forward_logs` gets its next turn
        limit = 2;
    }
    // strictly sequential runs (limit 1): every step also logs outside every span
    let rootlogs = !directed && limit == 1 && !handoff && !parked_run && rng.chance(2, 3);
    ROOTLOGS.with(|r| r.set(rootlogs));
    let mut feats = vec![];
    let mut plan = HashMap::new();
    let mut expected: Vec<(usize, usize, usize)> = vec![];
    let mut id = 0;
    let nfeat = if directed { 1 } else { rng.range(1, 2) };
    let mut burst_left = if burst { rng.range(1, 2) } else { 0 };
    for f in 0..nfeat {
        let mut scens = vec![];
        for _ in 0..(nscen / nfeat).max(1) {
            id += 1;
            let nsteps = rng.range(1, 3);
            let fail_step = if rng.chance(if parked_run && id > 1 { 2 } else { 1 }, 4) && !(handoff && id <= 2) { Some(rng.below(nsteps)) } else { None };
            let mut steps = vec![];
            for st in 0..nsteps {
                let (mut b, mut y, mut a) = (rng.below(3), rng.below(4), rng.below(3));
                // a burst: many events with no await point in between (more than a few polls can forward),
                // before the first await or after the last one
                if burst_left > 0 && rng.chance(1, 3) {
                    let n = *rng.pick(&[150usize, 400, 700, 1500]);
                    if rng.chance(1, 2) { b = n; } else { a = n; y = rng.below(2); }
                    burst_left -= 1;
                }
                let kind: u8 = match mode {
                    "d0" => 2,
                    "d1" => 1,
                    _ if handoff && id <= 2 => 0,
                    _ if marker_run && b + a > 0 && rng.chance(1, 3) => 2,
                    _ if rng.chance(1, 5) => 1,
                    _ => 0,
                };
                if directed && b + a == 0 { b = 2; }
                if parked_run && id > 1 && fail_step == Some(st) {
                    // log and fail within one poll (no await point in between)
                    if a == 0 { a = 1; }
                    y = if rng.chance(1, 2) { 0 } else { 1 };
                }
                let park_ms: u64 = if parked_run && id == 1 && st == 0 { 40 } else { 0 };
                if kind == 2 && b + a > 0 { marked.push((id, st)); }
                plan.insert((id, st), (b, y, a, fail_step == Some(st), kind, park_ms));
                expected.push((id, st, b + a));
                steps.push(StepSpec { ty: gherkin::StepType::Given, value: format!("log {id} {st}") });
            }
            if with_hooks {
                let h = (rng.below(3), rng.below(3));
                hooks.insert(id, h);
                expected.push((id, 98, h.0));
                expected.push((id, 99, h.1));
            }
            scens.push(ScenSpec {
                id,
                name: format!("s-{id}"),
                tags: if fail_step.is_some() { vec!["retry(1)".to_owned()] } else { vec![] },
                steps,
                line: 10 * id,
            });
        }
        let mut built = mk_feat(&FeatSpec { id: 100 + f, name: format!("f-{}", 100 + f), path: None, tags: vec![], bg: vec![], scens, rules: vec![] });
        for s in &mut built.scenarios {
            for (i, st) in s.steps.iter_mut().enumerate() { st.position.line = crate::rr::RST + i; }
        }
        feats.push(built);
    }
    if handoff && id >= 2 && nfeat == 1 {
        // the giver's step 0 delivers one more message (sent from inside the taker)
        for e in expected.iter_mut() { if e.0 == 1 && e.1 == 0 { e.2 += 1; } }
        HANDOFF.with(|h| *h.borrow_mut() = Some((1, 2)));
    }
    PLAN.with(|p| *p.borrow_mut() = plan);
    HOOKS.with(|h| *h.borrow_mut() = hooks);
    let coll = step::Collection::<TW>::new().given(None, Regex::new("^log ").unwrap(), step_fn);
    let log: Rc<RefCell<Vec<String>>> = Rc::default();
    let r = runner::Basic::<TW>::default().steps(coll).max_concurrent_scenarios(Some(limit));
    macro_rules! go { ($r:expr) => {{
        let c = Cucumber::<TW, _, (), _, _, cli::Empty>::custom(VecParser(feats.into_iter().map(Ok).collect()), $r, RecW(Rc::clone(&log)))
            .with_default_cli()
            .init_tracing();
        if outer_span {
            // the whole run inside a user span (an instrumented `main`)
            use tracing::Instrument as _;
            let _w = block_on(c.run(()).instrument(tracing::info_span!("suite")));
        } else {
            let _w = block_on(c.run(()));
        }
    }}; }
    if with_hooks { go!(r.before(before_hook).after(after_hook)) } else { go!(r) }
    // events -> wire
    let (mut pe, mut _pe2) = (0usize, 0usize);
    let evs: Vec<String> = log.borrow().iter().map(|l| {
        // Log lines carry "<scen> <step> <k>" after the probe's `log`
        let t: Vec<&str> = l.split(' ').collect();
        if t.len() >= 9 && t[0] == "A" && t[5] == "log" {
            let msg = if t[6] == "?" { 999_999_999_999 } else { t[6].parse::<usize>().unwrap() * 10_000_000 + t[7].parse::<usize>().unwrap() * 100_000 + t[8].parse::<usize>().unwrap() };
            format!("A {} {} {} {} log {msg}", id_num(t[1]), if t[2] == "-" { "-".to_owned() } else { id_num(t[2]) }, id_num(t[3]), t[4].replace('/', " "))
        } else {
            let w = crate::fam_sched::label_of(&format!("TX {l}"), &mut pe, &mut _pe2);
            w.trim_start_matches("tx ").to_owned()
        }
    }).collect();
    println!(
        "mon.c20 {} {} {} {}",
        limit,
        show_list(&expected, |(s, st, n)| format!("{s} {st} {n}")),
        show_list(&marked, |(s, st)| format!("{s} {st}")),
        show_list(&evs, |e| e.clone()),
    );
    println!("mon.traced {}", show_list(&evs, |e| e.clone()));
    eprintln!("MODES hooks={with_hooks} burst={burst} outer={outer_span} marker={marker_run} rootlogs={rootlogs} handoff={} parked={parked_run}", HANDOFF.with(|h| h.borrow().is_some()));
}

fn id_num(name: &str) -> String {
    name.rsplit('-').next().unwrap_or("0").to_owned()
}

pub fn gen_trace(rng: &mut Rng, idx: usize) -> Case {
    let seed = rng.next() % 1_000_000;
    let exe = std::env::current_exe().expect("current exe");
    // directed: case 0 = every message of the step contains the END marker (finding F-C20b),
    // case 1 = messages containing `__unknown` / `__` in the middle (F-C20a, fixed)
    let mode = match idx { 0 => "d0", 1 => "d1", _ => "rand" };
    // (the binary may be replaced by a concurrent `cargo build` of another check: retry a missing exe)
    let mut out = None;
    for _ in 0..100 {
        match std::process::Command::new(&exe).args(["--tracing-child", &seed.to_string(), mode]).output() {
            Ok(o) => { out = Some(o); break; }
            Err(_) => std::thread::sleep(std::time::Duration::from_millis(100)),
        }
    }
    let out = out.expect("spawn child");
    let stdout = String::from_utf8_lossy(&out.stdout);
    let line = stdout.lines().find(|l| l.starts_with("mon.c20 ")).map(str::to_owned);
    match line {
        Some(l) => {
            let n = l.matches(" log ").count();
            let conc = l.split(' ').nth(1).unwrap_or("?").to_owned();
            let err = String::from_utf8_lossy(&out.stderr);
            let modes = err.lines().find(|l| l.starts_with("MODES ")).map_or(String::new(), |m| {
                m.split(' ').skip(1).filter(|kv| kv.ends_with("=true")).map(|kv| format!("/{}", kv.trim_end_matches("=true"))).collect()
            });
            // second request: the C02 / C03 clauses on the traced stream (Log events are scenario events too)
            let (req, imp) = match stdout.lines().find(|l| l.starts_with("mon.traced ")) {
                Some(t) => (format!("{l}\n{t}"), "ok\nok".to_owned()),
                None => (l, "ok".to_owned()),
            };
            Case { req, imp, class: format!("limit{conc}/logs{}{modes}", match n { 0 => "0", 1..=5 => "few", 6..=99 => "many", _ => "burst" }), nontrivial: n > 0 }
        }
        None => Case {
            req: "harness.ended".into(),
            imp: format!("!tracing-child-failed status={:?} stderr={}", out.status.code(), hex(&String::from_utf8_lossy(&out.stderr).chars().take(300).collect::<String>())),
            class: "child-failed".into(),
            nontrivial: true,
        },
    }
}
