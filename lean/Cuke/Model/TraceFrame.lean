/-
  Byte-level contract between the two halves of the tracing integration (src/tracing.rs):

  * the WRITER side, `AppendScenarioMsg::format_event`, appends to every formatted log message
    `__<scenario id>` (or `__unknown`) and the terminator `__cucumber__scenario`;
  * the READER side, `CollectorWriter::write`, receives one or several such frames in one buffer,
    splits them at the terminator (`str::split_terminator`), strips `__unknown` or splits at the LAST `__`
    (`str::rsplit_once`) and parses the id (`u64::from_str`), and sends `(Option<ScenarioId>, text)` to the
    collector; an unparsable frame makes `write` return `Err` — everything before it has been sent already.

  Strings are `List Char` (the buffer is valid UTF-8 in every run: `from_utf8_lossy` is the identity).
-/
namespace Cuke.Frame

abbrev Str := List Char

def END : Str := ['_', '_', 'c', 'u', 'c', 'u', 'm', 'b', 'e', 'r', '_', '_', 's', 'c', 'e', 'n', 'a', 'r', 'i', 'o']
def SEP : Str := ['_', '_']
def NOID : Str := ['_', '_', 'u', 'n', 'k', 'n', 'o', 'w', 'n']

/-- `str::split(pat)`: leftmost, non-overlapping matches; `skip` = characters of the current match still to
    be passed over, `acc` = the current piece, reversed -/
def splitGo (pat : Str) : Str → Nat → Str → List Str
  | [], _, acc => [acc.reverse]
  | _ :: cs, skip + 1, acc => splitGo pat cs skip acc
  | c :: cs, 0, acc =>
    if pat.isPrefixOf (c :: cs) then acc.reverse :: splitGo pat cs (pat.length - 1) []
    else splitGo pat cs 0 (c :: acc)

def split (pat s : Str) : List Str := splitGo pat s 0 []

/-- `str::split_terminator(pat)`: as `split`, without a trailing empty piece -/
def splitTerminator (pat s : Str) : List Str :=
  let l := split pat s
  if l.getLast? == some [] then l.dropLast else l

/-- `str::strip_suffix` -/
def stripSuffix (suf s : Str) : Option Str :=
  if suf.isSuffixOf s then some (s.take (s.length - suf.length)) else none

/-- start index of the LAST occurrence of `pat` (`str::rfind`) -/
def rfindSub (pat : Str) : Str → Option Nat
  | [] => none
  | c :: cs =>
    match rfindSub pat cs with
    | some i => some (i + 1)
    | none => if pat.isPrefixOf (c :: cs) then some 0 else none

/-- `str::rsplit_once(pat)` -/
def rsplitOnce (pat s : Str) : Option (Str × Str) :=
  (rfindSub pat s).map (fun i => (s.take i, s.drop (i + pat.length)))

def isDigit (c : Char) : Bool := '0' ≤ c && c ≤ '9'

/-- decimal value of a digit string -/
def decVal (ds : Str) : Nat := ds.foldl (fun v c => v * 10 + (c.toNat - '0'.toNat)) 0

/-- `u64::from_str`: an optional `+`, at least one ASCII digit, nothing else, no overflow -/
def parseId (s : Str) : Option Nat :=
  let ds := if s.head? == some '+' then s.tail else s
  if !ds.isEmpty && ds.all isDigit && decVal ds < 2 ^ 64 then some (decVal ds) else none

/-- one piece between terminators; `none` = `Err(InvalidData)` -/
def unframeOne (msg : Str) : Option (Option Nat × Str) :=
  match stripSuffix NOID msg with
  | some before => some (none, before)
  | none =>
    match rsplitOnce SEP msg with
    | some (before, after) => (parseId after).map (fun i => (some i, before))
    | none => none

/-- the loop over the pieces: what was sent, and whether `write` returned `Ok` -/
def unframeAll : List Str → List (Option Nat × Str) × Bool
  | [] => ([], true)
  | m :: rest =>
    match unframeOne m with
    | none => ([], false)
    | some x => let r := unframeAll rest; (x :: r.1, r.2)

/-- `CollectorWriter::write(buf)` -/
def unframe (buf : Str) : List (Option Nat × Str) × Bool := unframeAll (splitTerminator END buf)

/-! ## the writer side -/

/-- what `AppendScenarioMsg` appends after the message text: `ids` = the scenario id as `Display` prints
    it (decimal digits), or `none` outside any scenario span -/
def suffixOf : Option Str → Str
  | none => NOID
  | some ds => SEP ++ ds

def frame (ids : Option Str) (text : Str) : Str := text ++ suffixOf ids ++ END

/-- the id string is what `u64`'s `Display` can print -/
def idOk : Option Str → Bool
  | none => true
  | some ds => !ds.isEmpty && ds.all isDigit && decVal ds < 2 ^ 64

/-- `pat` occurs in `s` starting at some index `< n` -/
def occursBefore (pat : Str) : Str → Nat → Bool
  | _, 0 => false
  | [], _ + 1 => false
  | c :: cs, n + 1 => pat.isPrefixOf (c :: cs) || occursBefore pat cs n

/-- the terminator does not occur in the frame before its own terminator (decidable; implied by
    "the text does not contain the terminator", `Cuke.C20.clean_of_text`) -/
def Clean (ids : Option Str) (text : Str) : Bool :=
  !occursBefore END (text ++ suffixOf ids ++ END) (text ++ suffixOf ids).length

/-- `needle` is a substring of `s` -/
def contains (needle : Str) : Str → Bool
  | [] => needle.isEmpty
  | c :: cs => needle.isPrefixOf (c :: cs) || contains needle cs

end Cuke.Frame
