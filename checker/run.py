import argparse, fcntl, json, os, re, subprocess, sys, time, shutil, glob

ROOT = os.path.dirname(os.path.dirname(os.path.abspath(__file__)))
LEAN = os.path.join(ROOT, "lean")
HARNESS = os.path.join(ROOT, "harness")
WORK = os.path.join(ROOT, "work")
REPLAYS = os.path.join(ROOT, "replays")
DRIVER = os.path.join(LEAN, ".lake", "build", "bin", "cuke-driver")
CVH = os.path.join(HARNESS, "target", "release", "cvh")
ALLOWED_AXIOMS = {"propext", "Classical.choice", "Quot.sound"}
FORBIDDEN = re.compile(r"\bsorry\b|\badmit\b|^\s*axiom\s|native_decide|bv_decide|implemented_by|\bunsafe\s|maxHeartbeats\s+0")

from props import PROPS, TRUSTED_BASE
import known


class Lock:
    def __init__(self, name):
        os.makedirs(WORK, exist_ok=True)
        self.path = os.path.join(WORK, name + ".lock")
    def __enter__(self):
        self.f = open(self.path, "w")
        fcntl.flock(self.f, fcntl.LOCK_EX)
    def __exit__(self, *a):
        fcntl.flock(self.f, fcntl.LOCK_UN)
        self.f.close()


def sh(cmd, cwd=None, timeout=None, env=None, input=None):
    e = dict(os.environ)
    e["CARGO_NET_OFFLINE"] = "true"
    if env:
        e.update(env)
    p = subprocess.run(cmd, cwd=cwd, stdout=subprocess.PIPE, stderr=subprocess.STDOUT,
                       timeout=timeout, env=e, input=input, text=True)
    return p.returncode, p.stdout


def strip_comments(src):
    # remove /- ... -/ (nested) and -- comments
    out, depth, i = [], 0, 0
    while i < len(src):
        if src.startswith("/-", i):
            depth += 1; i += 2; continue
        if depth and src.startswith("-/", i):
            depth -= 1; i += 2; continue
        if depth:
            i += 1; continue
        if src.startswith("--", i):
            j = src.find("\n", i)
            i = len(src) if j < 0 else j
            continue
        out.append(src[i]); i += 1
    return "".join(out)


def lean_sources_for(module):
    """Transitive `import Cuke.*` closure of a module, as file paths."""
    seen, todo = [], [module]
    while todo:
        m = todo.pop()
        p = os.path.join(LEAN, *m.split(".")) + ".lean"
        if p in seen or not os.path.exists(p):
            continue
        seen.append(p)
        for line in open(p):
            mm = re.match(r"\s*import\s+(Cuke\.[\w.]+)", line)
            if mm:
                todo.append(mm.group(1))
    return seen


def proof_stage(pid, cfg, log):
    """returns dict(obligations, discharged, theorems, problems[])"""
    problems = []
    module = cfg["module"]
    with Lock("lake"):
        rc, out = sh(["lake", "build", module, "cuke-driver"], cwd=LEAN, timeout=3000)
    log.append(out[-4000:])
    if rc != 0:
        problems.append({"kind": "proof-broken", "what": f"lake build {module} failed", "detail": out[-3000:]})
    # forbidden constructs
    for p in lean_sources_for(module) + lean_sources_for("Driver") + [os.path.join(LEAN, "Driver.lean")]:
        if not os.path.exists(p):
            continue
        src = strip_comments(open(p).read())
        for n, line in enumerate(src.split("\n"), 1):
            if FORBIDDEN.search(line):
                problems.append({"kind": "proof-broken", "what": f"forbidden construct in {os.path.relpath(p, ROOT)}: {line.strip()[:120]}"})
    # theorem inventory
    props_file = os.path.join(LEAN, *module.split(".")) + ".lean"
    src = strip_comments(open(props_file).read())
    theorems = re.findall(r"^\s*theorem\s+([\w.']+)", src, flags=re.M)
    examples = len(re.findall(r"^\s*example\b", src, flags=re.M))
    ns = cfg["namespace"]
    discharged = 0
    axioms_used = set()
    if rc == 0 and theorems:
        os.makedirs(WORK, exist_ok=True)
        audit = os.path.join(WORK, f"audit_{pid}.lean")
        with open(audit, "w") as f:
            f.write(f"import {module}\n")
            for t in theorems:
                f.write(f"#print axioms {ns}.{t}\n")
        with Lock("lake"):
            rc2, out2 = sh(["lake", "env", "lean", audit], cwd=LEAN, timeout=1200)
        if rc2 != 0:
            problems.append({"kind": "proof-broken", "what": "axiom audit failed to run", "detail": out2[-2000:]})
        flat = re.sub(r"\s+", " ", out2)
        for t in theorems:
            full = f"{ns}.{t}"
            m = re.search(r"'" + re.escape(full) + r"' depends on axioms: \[([^\]]*)\]", flat)
            if m:
                axs = {a.strip() for a in m.group(1).split(",") if a.strip()}
                axioms_used |= axs
                bad = axs - ALLOWED_AXIOMS
                if bad:
                    problems.append({"kind": "proof-broken", "what": f"theorem {full} depends on non-allowed axioms {sorted(bad)}"})
                else:
                    discharged += 1
            elif re.search(r"'" + re.escape(full) + r"' does not depend on any axioms", flat):
                discharged += 1
            else:
                problems.append({"kind": "proof-broken", "what": f"theorem {full} not found by the axiom audit"})
    expected = cfg.get("min_theorems", 1)
    if len(theorems) < expected:
        problems.append({"kind": "proof-broken", "what": f"only {len(theorems)} theorems in {module}, expected >= {expected}"})
    return {"obligations": len(theorems), "discharged": discharged, "theorems": theorems,
            "examples": examples, "axioms": sorted(axioms_used), "problems": problems}


def build_harness(log):
    with Lock("cargo"):
        lock_src = "/repo/Cargo.lock"
        if os.path.exists(lock_src) and not os.path.exists(os.path.join(HARNESS, "Cargo.lock")):
            shutil.copy(lock_src, os.path.join(HARNESS, "Cargo.lock"))
        rc, out = sh(["cargo", "build", "--release", "--offline"], cwd=HARNESS, timeout=3000)
    log.append(out[-3000:])
    return rc, out


def run_driver(req_path, model_path):
    with open(req_path) as fin, open(model_path, "w") as fout:
        p = subprocess.run([DRIVER], stdin=fin, stdout=fout, stderr=subprocess.PIPE, text=True, timeout=3000)
    return p.returncode, p.stderr


def project(cfg, req, line):
    """Per-property view of a response line (DESIGN §2.3: a property only looks at the classes its
    theorems depend on). Returns None if the line is not part of this property's correspondence."""
    for pre in cfg.get("skip_prefixes", []):
        if req.startswith(pre):
            return None
    for pre, segs in cfg.get("segments", {}).items():
        if req.startswith(pre):
            parts = line.split(" ; ")
            return " ; ".join(parts[i] if i < len(parts) else "<missing>" for i in segs)
    return line


def corr_family(pid, fam, seed, count, tag, extra_args=()):
    """run one family; returns dict(meta, disagreements[], impl_failures[])"""
    out = os.path.join(WORK, pid, f"{fam}.{tag}")
    shutil.rmtree(out, ignore_errors=True)
    os.makedirs(out, exist_ok=True)
    rc, o = sh([CVH, fam, str(seed), str(count), out, *extra_args], timeout=3000)
    res = {"family": fam, "seed": seed, "count": count, "disagreements": [], "impl_failures": [], "meta": {}}
    if rc == 97 and os.path.exists(os.path.join(out, "hang.json")):
        h = json.load(open(os.path.join(out, "hang.json")))
        res["disagreements"].append({"kind": "impl-hang", "family": fam, "seed": seed, "line": None, "case": h.get("case"),
                                     "request": f"(case {h.get('case')} of family {fam}, seed {seed}: regenerate with `cvh {fam} {seed} {count} <dir> {h.get('case')}`)",
                                     "impl": "!hang: " + h.get("what", ""), "model": "terminates (C04)"})
        res["meta"] = {"evaluations": h.get("case", 0) + 1, "distinct_nontrivial": 0, "samples": [f"hang at case {h.get('case')}"], "histogram": {"hang": 1}}
        return res
    if rc != 0:
        res["impl_failures"].append({"kind": "harness-failed", "family": fam, "seed": seed, "detail": o[-3000:]})
        return res
    rc, err = run_driver(os.path.join(out, "req.txt"), os.path.join(out, "model.txt"))
    if rc != 0:
        res["impl_failures"].append({"kind": "driver-failed", "family": fam, "detail": err[-2000:]})
        return res
    res["meta"] = json.load(open(os.path.join(out, "meta.json")))
    reqs = open(os.path.join(out, "req.txt")).read().split("\n")
    imps = open(os.path.join(out, "impl.txt")).read().split("\n")
    mods = open(os.path.join(out, "model.txt")).read().split("\n")
    cases = open(os.path.join(out, "case.txt")).read().split("\n") if os.path.exists(os.path.join(out, "case.txt")) else None
    n = max(len(reqs), len(imps), len(mods))
    res["known_hits"] = {}
    for i in range(n):
        r = reqs[i] if i < len(reqs) else ""
        a = imps[i] if i < len(imps) else "<missing>"
        b = mods[i] if i < len(mods) else "<missing>"
        pa, pb = project(PROPS[pid], r, a), project(PROPS[pid], r, b)
        if pa is None:
            continue
        if pa != pb:
            d = {"kind": "model-vs-impl", "family": fam, "seed": seed, "line": i,
                 "case": (int(cases[i]) if cases and i < len(cases) and cases[i] else None),
                 "request": r, "impl": a, "model": b}
            mon_segs = [x for x in pb.split(" ; ") if x.startswith("!monitor")]
            other_diff = [x for x, y in zip(pb.split(" ; "), pa.split(" ; ")) if x != y and not x.startswith("!monitor")]
            if mon_segs and not other_diff:
                # the oracle (property wording, evaluated by the Lean monitor) rejects what the
                # implementation produced: implementation-vs-oracle, not a model disagreement
                d["kind"] = "impl-vs-oracle"
                d["monitor_ids"] = [i for m in mon_segs for i in (m.split()[1:] if not m.split()[1:2] == ["NEW"] else ["NEW"])]
                ks = known.match(pid, d)
                if ks:
                    for k in ks:
                        res["known_hits"].setdefault(k["id"], {"entry": k, "count": 0, "first": d})
                        res["known_hits"][k["id"]]["count"] += 1
                    continue
            if timing_sensitive(pa, pb) and d["case"] is not None and tag != "rerun":
                # the disagreement rests on an observation that scheduling noise can produce once in a while (DESIGN §0,
                # robustness): it counts only if the SAME case shows it again in two fresh executions
                if not all(rerun_shows(pid, fam, seed, count, d["case"], r) for _ in range(2)):
                    res["timing_noise"] = res.get("timing_noise", 0) + 1
                    continue
                d["confirmed_by_rerun"] = 2
            if len(res["disagreements"]) < 20:
                res["disagreements"].append(d)
    return res


# model notes that depend on how the OS scheduled the harness (never on the code alone)
TIMING_NOTES = ("the idle wait completed without the stream ever returning Pending",)


def timing_sensitive(pa, pb):
    """True if every differing segment of the model's answer consists only of timing-sensitive notes."""
    diff = [(x, y) for x, y in zip(pb.split(" ; "), pa.split(" ; ")) if x != y]
    if not diff or len(pb.split(" ; ")) != len(pa.split(" ; ")):
        return False
    for x, _ in diff:
        notes = [n for n in x.split(" / ") if n and n != "-"]
        if not notes or not all(any(t in n for t in TIMING_NOTES) for n in notes):
            return False
    return True


def rerun_shows(pid, fam, seed, count, case, request):
    """Re-executes ONE case (same PRNG state) and says whether its request line disagrees again."""
    res = corr_family(pid, fam, seed, count, "rerun", extra_args=(str(case),))
    return any(x.get("case") == case for x in res["disagreements"]) or bool(res["impl_failures"])


def write_replay(pid, payload):
    os.makedirs(REPLAYS, exist_ok=True)
    path = os.path.join(REPLAYS, f"{pid}-{int(time.time()*1000)}-{os.getpid()}.json")
    with open(path, "w") as f:
        json.dump(payload, f, indent=1)
    return path


def do_replay(pid, path):
    payload = json.load(open(path))
    print(json.dumps({k: payload.get(k) for k in ("property", "kind", "family", "seed", "case", "what")}, indent=1))
    d = payload.get("disagreement")
    if d and d.get("request"):
        log = []
        rc, out = build_harness(log)
        if rc != 0:
            print(out[-2000:]); return 2
        fam, seed = d["family"], d["seed"]
        # Re-run the single case on the implementation and the model
        cnt = (d.get("case") or 0) + 1
        res = corr_family(pid, fam, seed, cnt, "replay")
        hit = [x for x in res["disagreements"] if x["request"] == d["request"]] or res["disagreements"]
        if hit:
            print("REPRODUCED"); print(json.dumps(hit[0], indent=1)); return 1
        print("not reproduced on the current tree"); return 0
    print(payload.get("what", "")); return 0


def main(argv):
    ap = argparse.ArgumentParser()
    ap.add_argument("prop")
    ap.add_argument("--tier", default=os.environ.get("VERIF_TIER", "quick"))
    ap.add_argument("--replay")
    a = ap.parse_args(argv)
    pid = a.prop
    if pid not in PROPS:
        print(f"unknown or unclaimed property {pid}"); return 2
    if a.replay:
        return do_replay(pid, a.replay)
    cfg = PROPS[pid]
    tier = "thorough" if a.tier == "thorough" else "quick"
    seed = int(os.environ.get("VERIF_SEED", "1"))
    t0 = time.time()
    log = []
    violations = []     # (payload)
    known_hits = []

    proof = proof_stage(pid, cfg, log)
    proof_problems = proof["problems"]

    rc, out = build_harness(log)
    corr = []
    if rc != 0:
        violations.append({"kind": "correspondence-broken", "what": "harness does not build against /repo's working tree",
                           "detail": out[-3000:]})
    elif not os.path.exists(DRIVER):
        violations.append({"kind": "correspondence-broken", "what": "cuke-driver missing (lake build failed)"})
    else:
        for fam, nq, nt in cfg["families"]:
            count = nt if tier == "thorough" else nq
            # corpus first (fixed seed 0 stream = directed cases are inside the generators, index-based)
            r = corr_family(pid, fam, seed, count, tier)
            corr.append(r)
        if tier == "thorough" and cfg.get("leanchecker", True):
            with Lock("lake"):
                rc3, out3 = sh(["lake", "env", "leanchecker", cfg["module"]], cwd=LEAN, timeout=3000)
            if rc3 != 0:
                proof_problems.append({"kind": "proof-broken", "what": "leanchecker rejected " + cfg["module"], "detail": out3[-2000:]})

    failing_inputs = []
    lines = []
    seen_known = {}
    for r in corr:
        for d in r["impl_failures"]:
            violations.append({"kind": "correspondence-broken", "what": d.get("kind"), "detail": d.get("detail"), "family": r["family"]})
        failing_inputs += r["disagreements"]
        for kid, h in r.get("known_hits", {}).items():
            if kid in seen_known:
                seen_known[kid]["count"] += h["count"]
            else:
                seen_known[kid] = dict(h)
    for kid in sorted(seen_known):
        k = seen_known[kid]["entry"]
        lines.append(f"KNOWN-FINDING: property={pid} {kid}: {k['description']} ({seen_known[kid]['count']} instances in this run)")

    exit_code = 0
    if failing_inputs:
        d = failing_inputs[0]
        path = write_replay(pid, {"property": pid, "kind": d["kind"], "family": d["family"], "seed": d["seed"],
                                  "case": d.get("case"), "disagreement": d, "others": failing_inputs[1:10],
                                  "proof_problems": proof_problems,
                                  "replay_cmd": f"./check {pid} --replay <this file>"})
        lines.append(f"VIOLATION property={pid} replay={path}")
        exit_code = 1
    elif proof_problems or violations:
        what = (proof_problems + violations)[0]
        path = write_replay(pid, {"property": pid, "kind": what["kind"], "what": what["what"],
                                  "unchecked": [p["what"] for p in proof_problems + violations],
                                  "detail": what.get("detail", "")})
        lines.append(f"VIOLATION property={pid} replay={path} no-failing-input-found")
        exit_code = 1

    # evidence
    evals = sum(r["meta"].get("evaluations", 0) for r in corr)
    distinct = sum(r["meta"].get("distinct_nontrivial", 0) for r in corr)
    samples = []
    for r in corr:
        samples += r["meta"].get("samples", [])[:2]
    if not samples:
        samples = ["(no correspondence cases ran)"]
    ev = {
        "property_id": pid,
        "tier": tier,
        "seed": seed,
        "level": "proof",
        "coverage": {
            "obligations": proof["obligations"],
            "discharged": proof["discharged"],
            "checker_cmd": f"cd lean && lake build {cfg['module']} cuke-driver && lake env lean work/audit_{pid}.lean  (#print axioms of every theorem)" + ("; lake env leanchecker " + cfg["module"] if tier == "thorough" else ""),
            "trusted_base": TRUSTED_BASE + ["modelled, not verified: " + m for m in cfg.get("modelled_not_verified", [])],
            "theorems": proof["theorems"],
            "non_vacuity_examples": proof["examples"],
            "axioms_used": proof["axioms"],
            "evaluations": evals,
            "distinct_nontrivial": distinct,
            "rule": cfg.get("rule", "cases generated by the harness family generators from one PRNG state (VERIF_SEED); distinct = distinct request lines; non-trivial as classified by the family (see histograms)"),
            "samples": samples,
            "disagreements_checked": sum(len(r["disagreements"]) for r in corr),
            "families": [{"family": r["family"], "evaluations": r["meta"].get("evaluations", 0),
                          "distinct_nontrivial": r["meta"].get("distinct_nontrivial", 0),
                          "histogram": r["meta"].get("histogram", {})} for r in corr],
            "known_findings_hit": {k: v["count"] for k, v in seen_known.items()},
            "timing_noise_discarded": sum(r.get("timing_noise", 0) for r in corr),
        },
        "assumptions": TRUSTED_BASE + cfg.get("modelled_not_verified", []),
        "wall_s": round(time.time() - t0, 2),
        "violations": 1 if exit_code else 0,
    }
    os.makedirs(os.path.join(ROOT, "evidence"), exist_ok=True)
    with open(os.path.join(ROOT, "evidence", f"{pid}.json"), "w") as f:
        json.dump(ev, f, indent=1)
    for l in lines:
        print(l)
    print(f"{pid} {tier}: obligations {proof['discharged']}/{proof['obligations']}, cases {evals} (distinct non-trivial {distinct}), "
          f"{'FAIL' if exit_code else 'ok'} in {ev['wall_s']}s")
    return exit_code
