#!/bin/sh
# Offline build of the framework: Lean library + driver, Rust harness against /repo.
set -e
cd "$(dirname "$0")"
export CARGO_NET_OFFLINE=true
(cd lean && lake build Cuke cuke-driver)
[ -f harness/Cargo.lock ] || cp /repo/Cargo.lock harness/Cargo.lock
(cd harness && cargo build --release --offline)
